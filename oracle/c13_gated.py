#!/usr/bin/env python3
"""C13, gated stage: KDTree::emplace is a member template nobody instantiates in the library or its tests; on an
unrepaired tree it does not compile (std::forward without its template argument). Same protocol as
oracle/c12_gated.py (whose code this driver reuses): compile probe first - a failing probe is a property failure
`compile/kdtree-emplace` - then build and run harness/c13_kdtree_gated.cc, the C13 harness with emplace among the
insertion operations."""
import os
import sys

sys.path.insert(0, os.path.dirname(os.path.abspath(__file__)))
import c12_gated as g  # noqa: E402

g.HARNESS = "harness/c13_kdtree_gated.cc"
g.DEPS = ("harness/c13_kdtree.cc", "harness/c13/kd_harness.hh", "harness/c12/alloc_balance.hh")
g.PROBES = {
    "kdtree-emplace": """
#include <phosg/KDTree.hh>
#include <phosg/Vector.hh>
void probe2(phosg::KDTree<phosg::Vector2<long>, long>& t, const phosg::Vector2<long>& p, long v) { t.emplace(p, v); }
void probe3(phosg::KDTree<phosg::Vector3<long>, long>& t, const phosg::Vector3<long>& p, long& v) { t.emplace(p, v); }
""",
}

if __name__ == "__main__":
    sys.exit(g.main(sys.argv[1:]))
