#!/usr/bin/env python3
"""C10 cross-check against Python: MD5/SHA-1/SHA-256 vs hashlib, CRC-32 vs zlib.crc32 (also as a running value),
FNV-1a 32/64 vs the three-line recurrence, and prefix-as-seed chaining. The C++ side is shim/c10_shim.cc."""
import hashlib
import os
import struct
import sys
import zlib

sys.path.insert(0, os.path.dirname(os.path.abspath(__file__)))
import hyp_common as hc  # noqa: E402
from hyp_common import vcheck  # noqa: E402
from hypothesis import strategies as st  # noqa: E402

M32, M64 = 0xFFFFFFFF, 0xFFFFFFFFFFFFFFFF


def fnv32(b, h=0x811C9DC5):
    for x in b:
        h = ((h ^ x) * 16777619) & M32
    return h


def fnv64(b, h=0xCBF29CE484222325):
    for x in b:
        h = ((h ^ x) * 1099511628211) & M64
    return h


def fnv_fast(b, h, prime, mask):
    # same recurrence; Python ints, so exact
    for x in b:
        h = ((h ^ x) * prime) & mask
    return h


def pattern(n, pat, seed=0):
    if pat == 0:
        return bytes(n)
    if pat == 1:
        return b"\xff" * n
    if pat == 2:
        return bytes(i % 251 for i in range(n))
    if pat == 3:
        return hashlib.shake_128(b"c10-%d" % n).digest(n)
    return hashlib.shake_128(b"c10-seed-%d" % seed).digest(n)


def data_of(case):
    if "hex" in case:
        return bytes.fromhex(case["hex"])
    return pattern(case["len"], case["pat"], case.get("seed", 0))


def u64(b):
    return struct.unpack("<Q", b)[0]


AMBIENT = ["", "global-locale-groups-by-3", "global-locale-groups-1-2+errno", "C.UTF-8-locale+errno"]   # = c10::kAmbientNames


def digest_value_classes(dg):
    """rare classes of a digest VALUE (what the renderings take as input); same labels as the C++ harness"""
    out = []
    if all(0x20 <= b <= 0x7E or b in (9, 10, 13) for b in dg):
        out.append("all-bytes-printable-ascii")
    if all(b < 0x80 for b in dg):
        out.append("all-bytes<0x80")
    if all(b >= 0x80 for b in dg):
        out.append("all-bytes>=0x80")
    if all(c in "0123456789" for c in dg.hex()):
        out.append("all-hex-digits-decimal")
    if dg.hex().startswith("00000"):
        out.append(">=5-leading-zero-nibbles")
    if dg.count(0) >= 3:
        out.append(">=3-zero-bytes")
    return out


def run_digest(case, rt):
    d = data_of(case)
    cs, s32, s64 = case.get("cs", 1), case.get("s32", 2), case.get("s64", 3)
    amb = case.get("amb", 0)
    # untouched process state first (plain signatures), then the same message under the ambient locale state
    for a in ([0, amb] if amb else [0]):
        status, r = rt.shim.call("hash", d, struct.pack("<IIQ", cs, s32, s64), struct.pack("<Q", a))
        vcheck(status == "ok", "shim-exception", status)
        sfx = (":" + AMBIENT[a]) if a else ""
        for name, ref, k in (("MD5", hashlib.md5, 0), ("SHA1", hashlib.sha1, 2), ("SHA256", hashlib.sha256, 4)):
            exp = ref(d).digest()
            vcheck(r[k] == exp, "digest:" + name + sfx, "%s of %d bytes is %s, hashlib says %s" % (name, len(d), r[k].hex(), exp.hex()))
            vcheck(r[k + 1].decode("latin-1").lower() == exp.hex(), "hex:" + name + sfx, "%s.hex() is %r, expected %s%s" % (name, r[k + 1], exp.hex(), " (ambient state: %s)" % AMBIENT[a] if a else ""))
            if not a:
                for cl in digest_value_classes(exp):
                    rt.cls("py_digest-value:%s:%s" % (name, cl))
        if not a:
            r0 = r
    if amb:
        rt.cls("py_digest:ambient=" + AMBIENT[amb])
    r = r0   # the integer results below are taken from the call under untouched process state
    vcheck(u64(r[6]) == zlib.crc32(d), "crc32", "crc32 of %d bytes is %#x, zlib says %#x" % (len(d), u64(r[6]), zlib.crc32(d)))
    small = len(d) <= 70000
    if small:
        vcheck(u64(r[7]) == fnv32(d), "fnv1a32", "fnv1a32 of %d bytes is %#x, recurrence says %#x" % (len(d), u64(r[7]), fnv32(d)))
        vcheck(u64(r[8]) == fnv64(d), "fnv1a64", "fnv1a64 of %d bytes is %#x, recurrence says %#x" % (len(d), u64(r[8]), fnv64(d)))
        vcheck(u64(r[10]) == fnv32(d, s32), "fnv1a32-seed", "fnv1a32(seed=%#x) differs from the recurrence" % s32)
        vcheck(u64(r[11]) == fnv64(d, s64), "fnv1a64-seed", "fnv1a64(seed=%#x) differs from the recurrence" % s64)
    vcheck(u64(r[9]) == zlib.crc32(d, cs), "crc32-seed", "crc32(seed=%#x) is %#x, zlib continues to %#x" % (cs, u64(r[9]), zlib.crc32(d, cs)))
    if len(d) >= 56:
        rt.nontrivial(("digest", len(d), hashlib.blake2b(d, digest_size=8).hexdigest()))
    rt.cls("py_digest:" + ("len<56" if len(d) < 56 else "len 56..63" if len(d) < 64 else "len 64..300" if len(d) <= 300 else "len<=64K" if len(d) <= 65536 else "len<=1M"))


def run_chain(case, rt):
    d = data_of(case)
    k = case["split"]
    a, b = d[:k], d[k:]
    status, r = rt.shim.call("chain", a, b)
    vcheck(status == "ok", "shim-exception", status)
    vcheck(u64(r[0]) == zlib.crc32(d), "crc32-chain", "crc32(b, crc32(a)) is %#x, zlib.crc32(a+b) is %#x (|a|=%d |b|=%d)" % (u64(r[0]), zlib.crc32(d), len(a), len(b)))
    vcheck(u64(r[1]) == fnv32(d), "fnv1a32-chain", "fnv1a32 chained is %#x, recurrence over a+b %#x (|a|=%d |b|=%d)" % (u64(r[1]), fnv32(d), len(a), len(b)))
    vcheck(u64(r[2]) == fnv64(d), "fnv1a64-chain", "fnv1a64 chained is %#x, recurrence over a+b %#x (|a|=%d |b|=%d)" % (u64(r[2]), fnv64(d), len(a), len(b)))
    if 0 < k < len(d):
        rt.nontrivial(("chain", len(d), k, hashlib.blake2b(d, digest_size=8).hexdigest()))
    rt.cls("py_chain")


def enum_digest(rt, ex):
    idx = 0
    for n in range(0, 301):
        for pat in range(4):
            idx += 1
            if rt.mine(idx):
                ex({"len": n, "pat": pat, "cs": (n * 2654435761) & M32, "s32": (n * 40503 + pat) & M32, "s64": (n * 0x9E3779B97F4A7C15 + pat) & M64})
    sizes = [65535, 65536, 65537, 1 << 20, (1 << 20) - 9] if rt.thorough() else [65535, 65537, 300000]
    for n in sizes:
        idx += 1
        if rt.mine(idx):
            ex({"len": n, "pat": 4, "seed": n})
    # every length 0..130 under every ambient locale state
    for n in range(0, 131):
        idx += 1
        if rt.mine(idx):
            for amb in (1, 2, 3):
                ex({"len": n, "pat": 3, "amb": amb})
    # the saved messages whose digest lies in a rare value class (found by the reference-directed search of the C++ harness)
    saved = 0
    cdir = os.path.join(os.path.dirname(os.path.abspath(__file__)), "..", "corpus", "c10")
    for fn in sorted(os.listdir(cdir)) if os.path.isdir(cdir) else []:
        if not (fn.startswith("digest-value-") and fn.endswith(".case")):
            continue
        blobs = [ln[2:].strip() for ln in open(os.path.join(cdir, fn)) if ln.startswith("s=")]
        if blobs:
            saved += 1
            idx += 1
            if rt.mine(idx):
                ex({"hex": blobs[0]})
    rt.exhaustive["py_digest"] = ("every length 0..300 x {zeros, 0xFF, i mod 251, SHAKE-128 stream keyed by the length} against hashlib/zlib, plus %s bytes; "
                                  "every length 0..130 under 3 ambient locale states; %d saved messages with a digest in a rare value class" % (sizes, saved))


def enum_chain(rt, ex):
    top = 300 if rt.thorough() else 130
    idx = 0
    for n in range(0, top + 1):
        idx += 1
        if not rt.mine(idx):
            continue
        for k in range(0, n + 1):
            ex({"len": n, "pat": 3, "split": k})
    rt.exhaustive["py_chain"] = "every split point of the SHAKE-128 pattern input of every length 0..%d" % top


@st.composite
def digest_cases(draw):
    big = draw(st.integers(0, 9))
    if big == 0:
        return {"len": draw(st.integers(0, 1 << 20)), "pat": 4, "seed": draw(st.integers(0, 1 << 30)), "cs": draw(st.integers(0, M32)), "s32": draw(st.integers(0, M32)), "s64": draw(st.integers(0, M64))}
    d = draw(st.binary(max_size=draw(st.sampled_from([80, 200, 1024, 8192]))))
    # a third of the messages are also hashed and rendered under another process locale (ambient state, like errno)
    return {"hex": d.hex(), "cs": draw(st.integers(0, M32)), "s32": draw(st.integers(0, M32)), "s64": draw(st.integers(0, M64)),
            "amb": draw(st.sampled_from([0, 0, 0, 0, 1, 2, 3]))}


@st.composite
def chain_cases(draw):
    d = draw(st.binary(max_size=draw(st.sampled_from([8, 130, 1024, 8192]))))
    return {"hex": d.hex(), "split": draw(st.integers(0, len(d)))}


CHECKS = [
    hc.Check("py_digest", run_digest, digest_cases(), quick_cases=4000, thorough_cases=20000, enumerate=enum_digest),
    hc.Check("py_chain", run_chain, chain_cases(), quick_cases=3000, thorough_cases=10000, enumerate=enum_chain),
]

if __name__ == "__main__":
    sys.exit(hc.main(CHECKS))
