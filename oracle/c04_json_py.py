#!/usr/bin/env python3
"""C04, clause "an independent JSON implementation reads the same value": Hypothesis-generated value trees are built
and serialized by phosg (shim/c04_shim.cc) under the four option masks JSON.hh documents as standard-compliant
({}, FORMAT, SORT_DICT_KEYS, both); Python's json module must read the text as the same tree.

  std-serialize-throws     serialize itself failed
  std-non-ascii            the text contains a byte outside ASCII (standard escaping was promised)
  std-python-rejects       json.loads refuses the text (incl. NaN/Infinity literals, duplicate keys)
  std-python-value:<kind>  json.loads sees a different value (ints exact and still ints, floats still floats and equal as
                           %.6g text, strings as latin-1 bytes, lists element-wise, dicts key-wise)
  std-sort-order           SORT_DICT_KEYS output does not list the keys in byte order
"""
import json
import os
import sys

sys.path.insert(0, os.path.dirname(os.path.abspath(__file__)))
import hyp_common as hc  # noqa: E402
import c04_tree as T  # noqa: E402
from hypothesis import strategies as st  # noqa: E402

FORMAT, SORT = 0x04, 0x08


class Pairs(list):
    """object_pairs_hook result (keeps order and duplicates)."""


def _bad_constant(name):
    raise ValueError("non-standard constant " + name)


def py_load(text):
    return json.loads(text, object_pairs_hook=Pairs, parse_constant=_bad_constant)


def compare(py, tree, path="$"):
    """Returns None or (class, message)."""
    if tree is None:
        return None if py is None else ("null", "%s: expected null, python read %r" % (path, py))
    if isinstance(tree, bool):
        return None if (isinstance(py, bool) and py == tree) else ("bool", "%s: expected %r, python read %r" % (path, tree, py))
    if isinstance(tree, int):
        if isinstance(py, bool) or not isinstance(py, int):
            return ("int-kind", "%s: expected the integer %d, python read %r" % (path, tree, py))
        return None if py == tree else ("int", "%s: expected %d, python read %d" % (path, tree, py))
    if isinstance(tree, float):
        if not isinstance(py, float):
            return ("float-kind", "%s: expected the float %r, python read %r" % (path, tree, py))
        return None if T.g6(py) == T.g6(tree) else ("float", "%s: expected %s, python read %s" % (path, T.g6(tree), T.g6(py)))
    if isinstance(tree, bytes):
        if not isinstance(py, str):
            return ("string-kind", "%s: expected a string, python read %r" % (path, py))
        try:
            b = py.encode("latin-1")
        except UnicodeEncodeError:
            return ("string", "%s: python read a character above U+00FF: %r" % (path, py))
        return None if b == tree else ("string", "%s: expected %r, python read %r" % (path, tree, b))
    if isinstance(tree, list):
        if isinstance(py, Pairs) or not isinstance(py, list):
            return ("list-kind", "%s: expected a list, python read %r" % (path, type(py).__name__))
        if len(py) != len(tree):
            return ("list-size", "%s: expected %d items, python read %d" % (path, len(tree), len(py)))
        for k, (a, b) in enumerate(zip(py, tree)):
            r = compare(a, b, "%s[%d]" % (path, k))
            if r:
                return r
        return None
    if isinstance(tree, dict):
        if not isinstance(py, Pairs):
            return ("dict-kind", "%s: expected an object, python read %r" % (path, type(py).__name__))
        seen = {}
        for k, v in py:
            try:
                kb = k.encode("latin-1")
            except UnicodeEncodeError:
                return ("dict-key", "%s: key with a character above U+00FF: %r" % (path, k))
            if kb in seen:
                return ("dict-duplicate-key", "%s: key %r appears twice" % (path, kb))
            seen[kb] = v
        if set(seen) != set(tree):
            return ("dict-key", "%s: key sets differ: %r vs %r" % (path, sorted(seen)[:6], sorted(tree)[:6]))
        for kb, v in seen.items():
            r = compare(v, tree[kb], "%s{%r}" % (path, kb))
            if r:
                return r
        return None
    raise TypeError(type(tree))


def keys_sorted(py):
    if isinstance(py, Pairs):
        ks = [k.encode("latin-1", "replace") for k, _ in py]
        if ks != sorted(ks):
            return False
        return all(keys_sorted(v) for _, v in py)
    if isinstance(py, list):
        return all(keys_sorted(v) for v in py)
    return True


def run_std(case, rt):
    tree = T.from_case(case)
    w = T.wire(tree)
    for mask in (0, FORMAT, SORT, FORMAT | SORT):
        status, blobs = rt.shim.call("ser", w, hc.struct.pack("<Q", mask))
        hc.vcheck(status == "ok", "std-serialize-throws", "serialize(0x%x) -> %s" % (mask, status))
        text = blobs[0]
        try:
            s = text.decode("ascii")
        except UnicodeDecodeError:
            raise hc.Fail("std-non-ascii", "serialize(0x%x) emitted non-ASCII bytes: %r" % (mask, text[:200]))
        try:
            py = py_load(s)
        except (ValueError, RecursionError) as e:
            raise hc.Fail("std-python-rejects", "json.loads refuses serialize(0x%x) = %r: %s" % (mask, text[:200], e))
        r = compare(py, tree)
        if r:
            raise hc.Fail("std-python-value:" + r[0], "serialize(0x%x) = %r: %s" % (mask, text[:200], r[1]))
        if mask & SORT:
            hc.vcheck(keys_sorted(py), "std-sort-order", "serialize(0x%x) = %r: keys not in byte order" % (mask, text[:200]))
    a = T.stats(tree)
    if a["containers"] and (a["exp_float"] or a["odd_byte"] or a["empty"]):
        rt.nontrivial()
    if a["exp_float"]:
        rt.cls("py:float-with-exponent")
    if a["odd_byte"]:
        rt.cls("py:string-byte-outside-0x20-0x7e")
    if a["empty"]:
        rt.cls("py:empty-container")
    rt.count(3)


# ---------------------------------------------------------------- strategy

_SPECIAL_FLOATS = [0.0, -0.0, 1e20, 2e6, 1e-7, 100000.0, 999999.5, 1.79769e308, 2.22508e-308, 1e15, 1e16, 1e6, 1e5, 123456.7,
                   0.0001, 0.00001, 5.0, -5.0, 0.1, 1.0 / 3, 1.5e300, 2.5e-300]
_BOOST = bytes([0x22, 0x5C, 0x7F, 8, 12, 10, 13, 9, 0x2F, 0, 1, 0x1F, 0x80, 0x81, 0xC3, 0xA9, 0xFF, 0x20, 0x75])

ints = st.one_of(st.sampled_from([-2**63, 2**63 - 1, 0, 1, -1, 2**53 + 1, -2**53 - 1]), st.integers(-2**63, 2**63 - 1), st.integers(-1000, 1000))
floats = st.one_of(
    st.floats(allow_nan=False, allow_infinity=False, allow_subnormal=False, width=64),
    st.sampled_from(_SPECIAL_FLOATS),
    st.builds(lambda m, e, neg: float("%s%de%d" % ("-" if neg else "", m, e)), st.integers(1, 999999), st.integers(-307, 302), st.booleans()),
)
# well-known multi-byte sequences (see tokens() in harness/c04_json_roundtrip.cc): UTF-8 BOM, U+2028/U+2029, NBSP, first / last
# code points of each encoded length, U+FFFD, emoji, CESU-8 surrogates, overlong / out-of-range / truncated forms, UTF-16 BOMs,
# CRLF, terminal escapes, markup, texts that look like JSON escapes / comments / literals, printf directives
_TOKENS = [b"\xef\xbb\xbf", b"\xe2\x80\xa8", b"\xe2\x80\xa9", b"\xc2\xa0", b"\xc2\x80", b"\xc2\x85", b"\xc3\xa9", b"\xdf\xbf", b"\xe0\xa0\x80",
           b"\xef\xbf\xbd", b"\xef\xbf\xbe", b"\xef\xbf\xbf", b"\xe2\x80\x8b", b"\xe2\x80\xae", b"\xe2\x82\xac", b"\xf0\x9f\x98\x80",
           b"\xf0\x90\x80\x80", b"\xf4\x8f\xbf\xbf", b"\xed\xa0\x80", b"\xed\xbf\xbf", b"\xed\xa0\xbd\xed\xb8\x80", b"\xc0\x80", b"\xc0\xaf",
           b"\xe0\x80\x80", b"\xf0\x80\x80\x80", b"\xf4\x90\x80\x80", b"\xf8\x88\x80\x80\x80", b"\xc2", b"\xe2", b"\xe2\x80", b"\xf0\x9f\x98",
           b"\x80", b"\xbf", b"\xa8", b"\xfe\xff", b"\xff\xfe", b"\r\n", b"\n\r", b"\r", b"\n", b"\x1b[0m", b"\x1b[31;1m", b"\x1b", b"\x9b", b"\x00",
           b"\x7f", b"\x1f", b"\x85", b"\xa0", b"\xad", b"</script>", b"<!--", b"-->", b"]]>", b"&amp;", b"<", b">", b"'", b"`",
           b"\\u2028", b"\\u2029", b"\\u0000", b"\\u00e9", b"\\u", b"\\ud83d\\ude00", b"\\x41", b"\\x", b"\\n", b"\\\"", b"\\\\", b"\\", b"\"", b"\\/", b"/",
           b"/*", b"*/", b"//", b"#", b"null", b"true", b"false", b"NaN", b"Infinity", b"-0", b"1e5", b"0x1F", b",", b":", b"{", b"}", b"[", b"]",
           b"{}", b"[]", b"\"\"", b" ", b"\t", b"%s", b"%n", b"%%", b"${"]
byte_strings = st.one_of(
    st.just(b""),
    st.binary(max_size=16),
    st.lists(st.sampled_from(list(_BOOST)), max_size=10).map(bytes),
    st.lists(st.integers(0x20, 0x7E), max_size=12).map(bytes),
    # 1..4 pieces, each a well-known sequence or a few arbitrary bytes: the sequences end up at the start, in the middle, at
    # the end and next to each other
    st.lists(st.one_of(st.sampled_from(_TOKENS), st.binary(max_size=3)), min_size=1, max_size=4).map(b"".join),
)
leaves = st.one_of(st.none(), st.booleans(), ints, floats, byte_strings)


def _containers(children):
    return st.one_of(
        st.lists(children, max_size=5),
        st.lists(st.tuples(byte_strings, children), max_size=5, unique_by=lambda kv: kv[0]).map(dict),
    )


trees = st.recursive(leaves, _containers, max_leaves=25).map(T.to_case)
# always a container at the root for half of the cases
rooted = st.one_of(trees, _containers(st.recursive(leaves, _containers, max_leaves=12)).map(T.to_case))

CHECKS = [hc.Check("py_std", run_std, rooted, quick_cases=3200, thorough_cases=60000)]

if __name__ == "__main__":
    sys.exit(hc.main(CHECKS))
