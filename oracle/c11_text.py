#!/usr/bin/env python3
"""C11 cross-check against Python's own implementations (base64, binascii, codecs, urllib.parse) through shim/c11_shim.cc.

The C++ harness harness/c11_text.cc carries the exhaustive parts and an in-harness RFC 4648 reference; this driver makes
sure that reference and phosg agree with the independent implementations the property names."""
import base64
import binascii
import codecs
import os
import struct
import sys
import urllib.parse

sys.path.insert(0, os.path.dirname(os.path.abspath(__file__)))
from hyp_common import Check, dec, enc, main, vcheck  # noqa: E402

from hypothesis import strategies as st  # noqa: E402

STD = b"ABCDEFGHIJKLMNOPQRSTUVWXYZabcdefghijklmnopqrstuvwxyz0123456789+/"
URL = b"ABCDEFGHIJKLMNOPQRSTUVWXYZabcdefghijklmnopqrstuvwxyz0123456789-_"
KINDS = ("0", "1", "2")  # default (nullptr), DEFAULT_ALPHABET, URLSAFE_ALPHABET


def call(rt, op, *blobs):
    status, out = rt.shim.call(op, *[b.encode() if isinstance(b, str) else b for b in blobs])
    return status, out


# ------------------------------------------------------------------ base64 encode

def run_b64enc(case, rt):
    kind, data = case["kind"], dec(case["data"])
    status, out = call(rt, "b64enc", kind, data)
    vcheck(status == "ok", "encode-throws", "base64_encode raised %s" % status)
    ref = base64.urlsafe_b64encode(data) if kind == "2" else base64.b64encode(data)
    vcheck(out[0] == ref, "encode-vs-python:" + kind, "base64_encode(%s) = %r, Python gives %r" % (data.hex(), out[0], ref))
    status, back = call(rt, "b64dec", kind, out[0])
    vcheck(status == "ok" and back[0] == data, "roundtrip:" + kind, "decode(encode(%s)) -> %s %r" % (data.hex(), status, back))
    if len(data) % 3:
        rt.nontrivial()
    rt.cls("b64enc:len%%3=%d" % (len(data) % 3))


# ------------------------------------------------------------------ base64 decode

def py_decode(kind, text):
    """(valid, data) according to Python: strict validation of the standard alphabet; for the URL-safe alphabet the text is
    first checked not to contain '+' or '/' (Python's altchars handling would let them through) and then translated."""
    if kind == "2":
        if b"+" in text or b"/" in text:
            return False, None
        text = text.translate(bytes.maketrans(b"-_", b"+/"))
    if len(text) % 4:
        return False, None
    if text.count(b"=") > 2:
        # binascii's strict mode tolerates surplus padding after a complete quad (b"AAAA====" decodes to 3 bytes); the
        # property statement does not: '=' may only occupy the last one or two positions
        return False, None
    try:
        return True, base64.b64decode(text, validate=True)
    except (binascii.Error, ValueError):
        return False, None


def run_b64dec(case, rt):
    kind, text = case["kind"], dec(case["text"])
    valid, ref = py_decode(kind, text)
    status, out = call(rt, "b64dec", kind, text)
    if valid and status != "ok" and status.startswith("exc:St16invalid_argument") and base64.b64encode(ref, altchars=(b"-_" if kind == "2" else None)) != text:
        # a text no encoder produces (unused bits set before the padding): decoding it, as Python does, or refusing it as
        # non-canonical are both within the statement
        rt.cls("b64dec:refuses-non-canonical")
        return
    if valid:
        vcheck(status == "ok", "rejects-what-python-accepts:" + kind, "base64_decode(%r) raised %s; Python decodes it to %s" % (text, status, ref.hex()))
        vcheck(out[0] == ref, "decode-vs-python:" + kind, "base64_decode(%r) = %s, Python gives %s" % (text, out[0].hex(), ref.hex()))
    else:
        vcheck(status != "ok", "accepts-what-python-rejects:" + kind, "base64_decode(%r) returned %s; Python (validate=True) rejects it" % (text, out[0].hex() if out else ""))
        vcheck(status.startswith("exc:St16invalid_argument"), "wrong-exception-type:" + kind, "base64_decode(%r) raised %s" % (text, status))
    if b"=" in text or not valid:
        rt.nontrivial()
    rt.cls("b64dec:" + ("valid" if valid else "invalid"))


# ------------------------------------------------------------------ rot13

def run_rot13(case, rt):
    data = dec(case["data"])
    status, out = call(rt, "rot13", data)
    vcheck(status == "ok", "rot13-throws", status)
    ref = codecs.encode(data.decode("latin-1"), "rot13").encode("latin-1")
    vcheck(out[0] == ref, "rot13-vs-codecs", "rot13(%s) = %s, codecs gives %s" % (data.hex(), out[0].hex(), ref.hex()))
    if any((65 <= b <= 90) or (97 <= b <= 122) for b in data):
        rt.nontrivial()


# ------------------------------------------------------------------ escape_url

def run_escurl(case, rt):
    flag, data = case["flag"], dec(case["data"])
    status, out = call(rt, "escurl", flag, data)
    vcheck(status == "ok", "url-throws", status)
    text = out[0]
    allowed = set(b"ABCDEFGHIJKLMNOPQRSTUVWXYZabcdefghijklmnopqrstuvwxyz0123456789-_.~=&%" + (b"" if flag == "1" else b"/"))
    bad = [b for b in text if b not in allowed]
    vcheck(not bad, "url-forbidden-character", "escape_url(%s) = %r contains %r" % (data.hex(), text, bytes(bad[:4])))
    back = urllib.parse.unquote_to_bytes(text)
    vcheck(back == data, "url-unquote-roundtrip", "unquote_to_bytes(%r) = %s, input %s" % (text, back.hex(), data.hex()))
    # the same escaping policy expressed with urllib: unreserved characters and the declared safe set stay literal
    ref = urllib.parse.quote_from_bytes(data, safe="=&" + ("" if flag == "1" else "/")).encode("ascii")
    # (equal to urllib's output when the escaper leaves exactly the unreserved characters, '=', '&' and - unless asked to escape it - '/'
    # literal; escaping more of the permitted characters is the escaper's policy, not a failure: counted only)
    rt.cls("escurl:same-as-urllib" if text == ref else "escurl:policy-differs-from-urllib")
    if b"%" in text:
        rt.nontrivial()


# ------------------------------------------------------------------ escape_controls / escape_quotes

SIMPLE = {ord('"'): b'"', ord("'"): b"'", ord("\\"): b"\\", ord("t"): b"\t", ord("r"): b"\r", ord("n"): b"\n", ord("f"): b"\f",
          ord("b"): b"\b", ord("a"): b"\a", ord("v"): b"\v"}


def unescape_c(text):
    out, i = bytearray(), 0
    while i < len(text):
        ch = text[i]
        if ch != 0x5C:
            out.append(ch)
            i += 1
            continue
        if i + 1 >= len(text):
            return None
        e = text[i + 1]
        if e in SIMPLE:
            out += SIMPLE[e]
            i += 2
        elif e == ord("x") and len(text[i + 2:i + 4]) == 2 and all(c in b"0123456789abcdefABCDEF" for c in text[i + 2:i + 4]):
            out.append(int(text[i + 2:i + 4], 16))
            i += 4
        else:
            return None
    return bytes(out)


def run_escctl(case, rt):
    flag, data = case["flag"], dec(case["data"])
    status, out = call(rt, "escctl", flag, data)
    vcheck(status == "ok", "controls-throws", status)
    text = out[0]
    bad = [b for b in text if not (0x20 <= b <= 0x7E or (flag == "0" and b >= 0x80))]
    vcheck(not bad, "controls-forbidden-byte:" + flag, "escape_controls(%s, %s) = %r" % (data.hex(), flag, text))
    back = unescape_c(text)
    vcheck(back == data, "controls-roundtrip:" + flag, "unescape(%r) = %r, input %s" % (text, back, data.hex()))
    if text != data:
        rt.nontrivial()


def run_escquo(case, rt):
    data = dec(case["data"])
    status, out = call(rt, "escquo", data)
    vcheck(status == "ok", "quotes-throws", status)
    text = out[0]
    vcheck(all(0x20 <= b <= 0x7E for b in text), "quotes-non-printable", "escape_quotes(%s) = %r" % (data.hex(), text))
    for i, b in enumerate(text):
        if b == 0x22:
            vcheck(i > 0 and text[i - 1] == 0x5C, "quotes-raw-quote", "escape_quotes(%s) = %r" % (data.hex(), text))
    if text != data:
        rt.nontrivial()


# ------------------------------------------------------------------ netloc

def run_netloc(case, rt):
    host, port, dflt = dec(case["host"]), case["port"], case["default"]
    if "fb" in case:
        # feedback: the host is what render_netloc itself prints for a first (possibly degenerate: empty host) pair
        fb = case["fb"]
        status, out = call(rt, "netloc", dec(fb["host1"]), struct.pack("<Q", fb["port1"]), struct.pack("<Q", 0))
        vcheck(status == "ok", "netloc-throws", status)
        text = out[0]
        whole = text.replace(b":", b";") or b"h"
        head, _, tail = text.partition(b":")
        host = [head, tail, whole][fb["how"]].replace(b":", b";") or whole
        rt.cls("py_netloc:host from the rendering of " + ("(empty host, port)" if not dec(fb["host1"]) else "a regular pair"))
    status, out = call(rt, "netloc", host, struct.pack("<Q", port), struct.pack("<Q", dflt))
    vcheck(status == "ok", "netloc-throws", status)
    text, phost, pport = out[0], out[1], struct.unpack("<Q", out[2])[0]
    if text != (host + b":" + str(port).encode() if port else host):
        rt.cls("py_netloc:rendering differs from host[:port]")
    vcheck(phost == host and (pport == (port or dflt) or (port == 0 and pport == 0)), "netloc-roundtrip", "parse_netloc(%r, %d) = (%r, %d)" % (text, dflt, phost, pport))
    if port:
        rt.nontrivial()


# ------------------------------------------------------------------ strategies

# Well-known multi-byte sequences (same families as dictionary() of harness/c11_text.cc): byte order marks, invisible and separator
# characters, non-characters, overlong / invalid / boundary UTF-8, line endings, terminal sequences, escape syntaxes.
DICTIONARY = [
    b"\xef\xbb\xbf", b"\xff\xfe", b"\xfe\xff", b"\xff\xfe\x00\x00", b"\x00\x00\xfe\xff", b"+/v8",
    b"\xe2\x80\xa8", b"\xe2\x80\xa9", b"\xc2\x85", b"\xc2\xa0", b"\xe2\x80\x8b", b"\xe2\x80\x8e", b"\xe2\x80\x8f", b"\xe2\x80\xae", b"\xe2\x81\xa0", b"\xc2\xad",
    b"\xef\xbf\xbd", b"\xef\xbf\xbe", b"\xef\xbf\xbf", b"\xef\xb7\x90",
    b"\xc0\x80", b"\xc0\xaf", b"\xc1\xbf", b"\xe0\x80\x80", b"\xe0\x9f\xbf", b"\xf0\x80\x80\x80", b"\xf0\x8f\xbf\xbf",
    b"\xed\xa0\x80", b"\xed\xbf\xbf", b"\xf4\x8f\xbf\xbf", b"\xf4\x90\x80\x80", b"\xf8\x88\x80\x80\x80", b"\xc2", b"\xe2\x80", b"\xf0\x9f\x98", b"\x80", b"\xbf",
    b"\xc3\xa9", b"\xe2\x82\xac", b"\xf0\x9f\x98\x80", b"\xdf\xbf", b"\xe0\xa0\x80", b"\xf0\x90\x80\x80", b"\x7f",
    b"\r\n", b"\n\r", b"\r", b"\n", b"\x00", b"\t", b"\x0b", b"\x0c", b"\x1a", b"\x07", b"\x08",
    b"\x1b[0m", b"\x1b[31;1m", b"\x1b[2J", b"\x1b]0;t\x07", b"\x1b", b"\x9b0m",
    b"%", b"%%", b"%0", b"%00", b"%20", b"%2F", b"%2f", b"%25", b"%zz", b"%u00e9", b"+",
    b"\\", b"\\\\", b"\\x", b"\\x0", b"\\x00", b"\\x41", b"\\xZZ", b"\\n", b"\\\"", b"\\'", b"\\0", b"\\u0041", b"\\U0001F600", b"\\e",
    b"\"", b"'", b"\"\"", b"`", b"&amp;", b"&lt;", b"&#39;", b"&#x27;", b"&", b"&&", b"=", b"==", b"===", b"====", b"?a=b&c=d", b"#", b"://", b"//", b"/", b"/../", b"~",
    b"A", b"Zz", b"AbCd", b"NOPnop", b"====A",
]


@st.composite
def spliced(draw, max_size):
    """1..3 dictionary sequences at the start, at the end or inside a (mostly short) byte string"""
    base = draw(st.one_of(st.just(b""), st.binary(max_size=24), st.binary(max_size=24), st.binary(max_size=max_size)))
    for _ in range(draw(st.integers(1, 3))):
        w = draw(st.sampled_from(DICTIONARY))
        where = draw(st.integers(0, 2))
        if where == 0:
            base = w + base
        elif where == 1:
            base = base + w
        else:
            k = draw(st.integers(0, len(base)))
            base = base[:k] + w + base[k:]
    return base


def blob(max_size):
    special = st.sampled_from([0x00, 0xFF, 0x7F, 0x80, 0x20, 0x22, 0x27, 0x5C, 0x0A, 0x09, 0x2F, 0x2B, 0x2D, 0x5F, 0x3D, 0x26, 0x25, 0x7E, 0x41, 0x7A])
    return st.one_of(st.binary(max_size=max_size), st.lists(special, max_size=min(64, max_size)).map(bytes), spliced(max_size)).map(enc)


def b64_texts(kind_strategy):
    """(kind, text): valid encodings, lightly edited encodings, and strings over a mixed alphabet."""
    mixed = st.lists(st.sampled_from(list(b"AQgz09+/-_=*\n ")), max_size=24).map(bytes)

    @st.composite
    def edited(draw):
        kind = draw(kind_strategy)
        data = draw(st.binary(max_size=40))
        text = bytearray(base64.urlsafe_b64encode(data) if kind == "2" else base64.b64encode(data))
        for _ in range(draw(st.integers(0, 2))):
            if not text:
                break
            pos = draw(st.integers(max(0, len(text) - 6), len(text) - 1)) if draw(st.booleans()) else draw(st.integers(0, len(text) - 1))
            how = draw(st.integers(0, 3))
            if how == 0:
                text[pos] = draw(st.integers(0, 255))
            elif how == 1:
                text[pos] = 0x3D
            elif how == 2:
                del text[pos]
            else:
                text.insert(pos, draw(st.sampled_from(list(STD + URL))))
        return {"kind": kind, "text": enc(bytes(text))}

    @st.composite
    def noncanonical(draw):
        # alphabet characters with one or two trailing '=' (valid; the unused low bits need not be zero)
        kind = draw(kind_strategy)
        alpha = URL if kind == "2" else STD
        n = 4 * draw(st.integers(1, 6))
        text = bytearray(draw(st.lists(st.sampled_from(list(alpha)), min_size=n, max_size=n)))
        pad = draw(st.integers(0, 2))
        for k in range(pad):
            text[-1 - k] = 0x3D
        return {"kind": kind, "text": enc(bytes(text))}

    @st.composite
    def surplus(draw):
        # a valid encoding followed by extra '=' (must be rejected whatever the resulting length)
        kind = draw(kind_strategy)
        data = draw(st.binary(max_size=12))
        text = (base64.urlsafe_b64encode(data) if kind == "2" else base64.b64encode(data)) + b"=" * draw(st.integers(1, 4))
        return {"kind": kind, "text": enc(text)}

    plain = st.builds(lambda k, t: {"kind": k, "text": enc(t)}, kind_strategy, mixed)
    return st.one_of(edited(), noncanonical(), plain, surplus())


kinds = st.sampled_from(KINDS)
hosts = st.one_of(st.text(alphabet="abcxyz0189.-", min_size=1, max_size=30).map(lambda s: s.encode()),
                  st.binary(min_size=1, max_size=30).map(lambda b: b.replace(b":", b";")),
                  spliced(30).map(lambda b: b.replace(b":", b";") or b"h"))
ports = st.one_of(st.sampled_from([0, 0, 1, 80, 443, 9999, 10000, 65535]), st.integers(0, 65535))


@st.composite
def netloc_cases(draw):
    case = {"host": enc(draw(hosts)), "port": draw(ports), "default": draw(st.integers(0, 65535))}
    if draw(st.integers(0, 3)) == 0:
        # the host is derived (0 part before the colon, 1 part after it, 2 whole with colons replaced) from what render_netloc prints for
        # a first pair - half of the time with the empty host, where it prints a placeholder or the bare port
        host1 = b"" if draw(st.booleans()) else draw(hosts)
        case["fb"] = {"host1": enc(host1), "port1": draw(ports), "how": draw(st.integers(0, 2))}
    return case

CHECKS = [
    Check("py_b64enc", run_b64enc, st.builds(lambda k, d: {"kind": k, "data": d}, kinds, blob(2048)), quick_cases=2500, thorough_cases=60000),
    Check("py_b64dec", run_b64dec, b64_texts(kinds), quick_cases=5000, thorough_cases=120000),
    Check("py_rot13", run_rot13, st.builds(lambda d: {"data": d}, blob(2048)), quick_cases=1200, thorough_cases=30000),
    Check("py_escurl", run_escurl, st.builds(lambda f, d: {"flag": f, "data": d}, st.sampled_from(["0", "1"]), blob(2048)), quick_cases=2000, thorough_cases=40000),
    Check("py_escctl", run_escctl, st.builds(lambda f, d: {"flag": f, "data": d}, st.sampled_from(["0", "1"]), blob(2048)), quick_cases=2000, thorough_cases=40000),
    Check("py_escquo", run_escquo, st.builds(lambda d: {"data": d}, blob(2048)), quick_cases=1200, thorough_cases=30000),
    Check("py_netloc", run_netloc, netloc_cases(), quick_cases=1200, thorough_cases=30000),
]

if __name__ == "__main__":
    sys.exit(main(CHECKS))
