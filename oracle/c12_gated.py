#!/usr/bin/env python3
"""C12, gated stage: members of LRUMap that are templates' bodies nobody instantiates in the library or its tests.

`LRUMap::insert(const K&, const V&, size_t)` and `LRUMap::at(const K&) const` only show a defect when a caller
instantiates them - and then the defect is a compile error, which a harness that calls them would turn into a build
failure of the whole check (an infrastructure error, not a verdict). This driver therefore speaks the harness protocol
itself (same command line and result files as a binary built on harness/verif.hh):

  1. it compiles one tiny probe translation unit per member (`clang++ -fsyntax-only`, ~1 s). A probe that does not
     compile is a property failure with signature `compile/<probe>`; its replay file re-runs the probe;
  2. when every probe compiles it builds harness/c12_lru_gated.cc (the C12 harness with those members in the operation
     alphabet, in place of insert(K&&, V&&) / at()) through run/buildlib.py and replaces itself with that binary.
"""
import json
import os
import subprocess
import sys

VERIF = os.path.dirname(os.path.dirname(os.path.abspath(__file__)))
sys.path.insert(0, os.path.join(VERIF, "run"))
import buildlib  # noqa: E402

HARNESS = "harness/c12_lru_gated.cc"
DEPS = ("harness/c12_lru.cc", "harness/c12/lru_harness.hh", "harness/c12/alloc_balance.hh")

PROBES = {
    "lrumap-insert-const-ref": """
#include <string>
#include <phosg/LRUMap.hh>
bool probe_int(phosg::LRUMap<long, long>& m, const long& k, const long& v) { return m.insert(k, v, 2) && m.insert(k, v); }
bool probe_str(phosg::LRUMap<std::string, std::string>& m, const std::string& k, const std::string& v) { return m.insert(k, v, 2); }
""",
    "lrumap-at-const": """
#include <string>
#include <phosg/LRUMap.hh>
long probe_int(const phosg::LRUMap<long, long>& m, const long& k) { return m.at(k); }
const std::string& probe_str(const phosg::LRUMap<std::string, std::string>& m, const std::string& k) { return m.at(k); }
""",
}


def run_probe(name):
    """Returns (ok, compiler output)."""
    cmd = [buildlib.CXX, "-std=c++20", "-fsyntax-only", "-w", "-I", buildlib.include_dir(), "-x", "c++", "-"]
    p = subprocess.run(cmd, input=PROBES[name].encode(), stdout=subprocess.PIPE, stderr=subprocess.STDOUT)
    return p.returncode == 0, p.stdout.decode("utf-8", "replace")


def first_error(text):
    for line in text.split("\n"):
        if "error:" in line:
            return line.strip()[:400]
    return text.strip()[:400]


def case_text(name):
    return "check=compile\nprobe=%s\n" % name


def build_gated():
    return buildlib.build_harness(HARNESS, "asan", (), (), (), DEPS)


def arg(argv, name, default=None):
    if name in argv:
        i = argv.index(name)
        if i + 1 < len(argv):
            return argv[i + 1]
    return default


def main(argv):
    replay = arg(argv, "--replay")
    if replay:
        lines = [l for l in open(replay, encoding="latin-1").read().split("\n") if l and not l.startswith("#")]
        if lines and lines[0] == "check=compile":
            name = lines[1][len("probe="):] if len(lines) > 1 else ""
            if name not in PROBES:
                sys.stderr.write("replay: unknown probe %r\n" % name)
                return 2
            ok, out = run_probe(name)
            if ok:
                print("REPLAY-PASS check=compile probe=%s" % name)
                return 0
            sys.stderr.write(out[-3000:])
            print("REPLAY-FAIL sig=compile/%s msg=%s" % (name, first_error(out)))
            return 1
        exe = build_gated()
        os.execv(exe, [exe] + argv)

    shard = int(arg(argv, "--shard", "0"))
    nshards = int(arg(argv, "--nshards", "1"))
    out = arg(argv, "--out", ".")
    only = arg(argv, "--only")
    known = set()
    kf = arg(argv, "--known-file")
    if kf and os.path.exists(kf):
        known = {l.strip() for l in open(kf) if l.strip()}
    os.makedirs(out, exist_ok=True)

    failures, excluded, evaluations, samples = [], {}, 0, []
    broken = False
    for name in sorted(PROBES):
        ok, text = run_probe(name)
        if ok:
            continue
        broken = True
        if shard != 0 or (only and not "compile".startswith(only)):
            continue  # one shard reports
        sig = "compile/%s" % name
        if sig in known:
            excluded["known-finding:" + sig] = 1
            continue
        failures.append({"sig": sig, "msg": "the member does not compile when instantiated: " + first_error(text), "case": case_text(name), "count": 1})
    if not broken:
        exe = build_gated()
        sys.stdout.flush()
        os.execv(exe, [exe] + argv)

    if shard == 0:
        evaluations = len(PROBES)
        samples = [case_text(n) for n in sorted(PROBES)]
    data = {
        "shard": shard, "nshards": nshards, "tier": arg(argv, "--tier", "quick"), "seed": int(arg(argv, "--seed", "0")),
        "evaluations": evaluations, "distinct_nontrivial": 0, "distinct_capped": False,
        "classes": {"compile-probe": evaluations}, "excluded": excluded, "per_check_evaluations": {"compile": evaluations},
        "exhaustive": {}, "samples": samples,
        "notes": ["gated C12 harness not run: a compile probe failed, so the members cannot be called"] if shard == 0 else [],
        "failures": failures,
    }
    path = os.path.join(out, "shard%d.json" % shard)
    with open(path + ".tmp", "w") as f:
        json.dump(data, f)
    os.rename(path + ".tmp", path)
    open(os.path.join(out, "shard%d.hashes" % shard), "wb").close()
    return 0


if __name__ == "__main__":
    sys.exit(main(sys.argv[1:]))
