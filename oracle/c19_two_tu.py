#!/usr/bin/env python3
"""C19, two-translation-unit stage: expect_raises<E> decides on the TYPE of what fn throws, not on its name.

"expect_raises<E>(fn) succeeds exactly when fn throws an exception whose type is E or derives from it, and fails with
expectation_failed ... whenever fn returns normally or throws anything else." Types with internal linkage (a class in an
unnamed namespace, a class local to such a function) exist once per translation unit: two test files that each define a
file-local `ParseError` own two unrelated types with one spelling and one mangled name. The main harness is built with
clang++ against libstdc++, a combination whose own `catch (const E&)` conflates such types (their type_info names are
compared as strings), so there the cross-file cells are left open (harness subcheck raises_tu). expect_raises_fn is a
template in UnitTest.hh: it is compiled by the consumer's compiler. This driver builds the probe harness/c19/tu_probe.cc +
harness/c19/other_tu.cc (both include harness/c19/tu_local.hh) together with the UnitTest / Strings sources of the tree
under test, with every installed toolchain configuration (g++ and clang++, -O0 and -O2), runs it and decides every cell of

    2 files owning E x 9 expected types (5 file-local, 4 standard bases) x 2 files owning fn x
    {throws each of the 5 file-local types, returns} x {expect_raises macro, expect_raises_fn}

against the hierarchy written down here in Python: pass iff fn throws, the thrown type is E or derives from it, and - for a
file-local E - both belong to the same file. A toolchain whose own handler (try { fn(); } catch (const E&)) matches a
file-local type of the other file is recorded and those cells are left open for it (excluded); with a conforming
toolchain (g++) they are decided. Every failure must be expectation_failed carrying the call site; fn is called once.

Same command line and result files as a harness on harness/verif.hh (oracle/hyp_common.py).
"""
import hashlib
import os
import shutil
import subprocess
import sys

VERIF = os.path.dirname(os.path.dirname(os.path.abspath(__file__)))
sys.path.insert(0, os.path.join(VERIF, "run"))
sys.path.insert(0, os.path.join(VERIF, "oracle"))
import buildlib  # noqa: E402
import hyp_common as hc  # noqa: E402

# the hierarchy of harness/c19/tu_local.hh, written down independently: thrown kind -> names of the types it is or derives from
THROWN = ["ParseError", "ParseDetail", "NotFound", "LocalError", "InFunction"]
EXPECTED = ["ParseError", "ParseDetail", "NotFound", "LocalError", "InFunction",
            "std::exception", "std::runtime_error", "std::logic_error", "std::out_of_range"]
FIRST_SHARED = 5
IS_A = {
    "ParseError": {"ParseError", "std::runtime_error", "std::exception"},
    "ParseDetail": {"ParseDetail", "ParseError", "std::runtime_error", "std::exception"},
    "NotFound": {"NotFound", "std::out_of_range", "std::logic_error", "std::exception"},
    "LocalError": {"LocalError", "std::exception"},
    "InFunction": {"InFunction", "ParseError", "std::runtime_error", "std::exception"},
}

# (compiler, language level, optimisation); phosg's library sources the probe needs (UnitTest.cc and what it pulls in)
CONFIGS = [("g++", "c++20", "-O0"), ("g++", "c++20", "-O2"), ("clang++", "c++20", "-O0"), ("clang++", "c++20", "-O2")]
LIB_SOURCES = ["UnitTest.cc", "Strings.cc", "Filesystem.cc", "Encoding.cc", "Process.cc", "Time.cc", "Random.cc"]
PROBE_SOURCES = ["harness/c19/tu_probe.cc", "harness/c19/other_tu.cc"]
PROBE_DEPS = ["harness/c19/tu_local.hh"]


def _read(path):
    with open(path, "rb") as f:
        return f.read()


def build_probe(cxx, std, opt):
    """Returns (exe or None, error text). Content-addressed in build/c19-probes<ALT>."""
    compiler = buildlib.CXX if cxx == "clang++" else shutil.which(cxx)
    if not compiler:
        return None, "not installed"
    src_dir = os.path.join(buildlib.REPO, "src")
    h = hashlib.sha1()
    h.update(("%s %s %s" % (cxx, std, opt)).encode())
    for name in sorted(os.listdir(src_dir)):
        if name.endswith(".hh") or name in LIB_SOURCES:
            h.update(name.encode() + _read(os.path.join(src_dir, name)))
    for rel in PROBE_SOURCES + PROBE_DEPS:
        h.update(_read(os.path.join(VERIF, rel)))
    workdir = os.path.join(buildlib.BUILD, "c19-probes" + buildlib.ALT)
    os.makedirs(workdir, exist_ok=True)
    exe = os.path.join(workdir, "tu_probe-%s-%s-%s-%s" % (cxx.replace("+", "x"), std.replace("+", "x"), opt.strip("-"), h.hexdigest()[:16]))
    if os.path.exists(exe):
        return exe, ""
    tmp = "%s.tmp%d" % (exe, os.getpid())
    cmd = [compiler, "-std=" + std, opt, "-w", "-I", buildlib.include_dir(), "-I", os.path.join(VERIF, "harness"), "-I", src_dir]
    cmd += [os.path.join(VERIF, rel) for rel in PROBE_SOURCES] + [os.path.join(src_dir, s) for s in LIB_SOURCES]
    cmd += ["-lz", "-lpthread", "-o", tmp]
    p = subprocess.run(cmd, stdout=subprocess.PIPE, stderr=subprocess.STDOUT)
    if p.returncode != 0:
        text = p.stdout.decode("utf-8", "replace")
        try:
            os.unlink(tmp)
        except OSError:
            pass
        return None, next((l.strip() for l in text.split("\n") if "error" in l), text.strip()[:300])
    os.rename(tmp, exe)
    # bounded disk use: keep the 12 most recent probes
    old = sorted((os.path.join(workdir, f) for f in os.listdir(workdir) if f.startswith("tu_probe-") and ".tmp" not in f), key=os.path.getmtime)
    for path in old[:-12]:
        try:
            os.unlink(path)
        except OSError:
            pass
    return exe, ""


def run_config(case, rt):
    cxx, std, opt = case["cxx"], case["std"], case["opt"]
    if (cxx, std, opt) not in CONFIGS:
        raise hc.Fail("ORACLE-bad-case", repr(case))
    how = "%s -std=%s %s" % (cxx, std, opt)
    exe, err = build_probe(cxx, std, opt)
    if exe is None:
        if err == "not installed":
            rt.exclude("toolchain configuration not installed on this machine: %s" % how)
            return
        # the probe uses nothing but UnitTest.hh and the standard library: it has to compile
        raise hc.Fail("probe-does-not-compile:%s" % cxx, "%s: %s" % (how, err))
    # (what the library may write to stderr while an expectation fails is not part of the statement: only the probe's stdout is read)
    out = subprocess.run([exe], stdout=subprocess.PIPE, stderr=subprocess.DEVNULL, timeout=300)
    hc.vcheck(out.returncode == 0, "probe-exit:%s" % cxx, "probe (%s) exited with %d: %s" % (how, out.returncode, out.stdout[-400:]))
    rows = [l.split() for l in out.stdout.decode("latin-1").split("\n") if l.strip()]
    hc.vcheck(rows and rows[0] == ["M", str(len(EXPECTED)), str(len(THROWN)), str(FIRST_SHARED)], "ORACLE-probe-output",
              "the probe's type lists differ from the driver's: %r" % (rows[:1],))
    cells = [r for r in rows if r[0] == "C"]
    hc.vcheck(len(cells) == 2 * len(EXPECTED) * 2 * (len(THROWN) + 1) * 2, "ORACLE-probe-output", "probe printed %d cells" % len(cells))
    conflated = 0
    for r in cells:
        hc.vcheck(len(r) >= 10, "ORACLE-probe-output", "unexpected probe line %r" % (r,))
        es, e, ts, k, entry, calls, matches, same_name = (int(x) for x in r[1:9])
        outcome = r[9]
        returns = (k == len(THROWN))
        local_e = e < FIRST_SHARED
        derives = (not returns) and EXPECTED[e] in IS_A[THROWN[k]]
        should_pass = derives and (not local_e or es == ts)
        what = "expect_raises<%s%s> via %s, fn %s (%s)" % (
            ("file %d's " % es) if local_e else "", EXPECTED[e], "the macro" if entry == 0 else "expect_raises_fn",
            "returns" if returns else "throws file %d's %s" % (ts, THROWN[k]), how)
        cls = "E=%s%s,fn-%s" % (("this-file:" if es == ts else "other-file:") if local_e else "", EXPECTED[e],
                                "returns" if returns else "throws-matching" if should_pass else
                                "throws-same-name-from-other-file" if (local_e and es != ts and same_name) else
                                "throws-derived-from-same-name-of-other-file" if (local_e and es != ts and derives) else "throws-other")
        rt.count(1)
        hc.vcheck(calls == 1, "fn-calls:" + cls, "%s: fn was called %d times" % (what, calls))
        # the toolchain's own handler against the language rule
        conflates = bool(matches) and not should_pass and local_e and es != ts and derives
        hc.vcheck(bool(matches) == should_pass or conflates or returns, "ORACLE-handler-disagrees:" + cls,
                  "%s: a catch (const E&) handler of this toolchain %s" % (what, "matches" if matches else "does not match"))
        if conflates:
            conflated += 1
            rt.exclude("toolchain matches file-local types of another translation unit by name, cell left open: %s" % how)
            hc.vcheck(outcome == "pass" or (outcome == "fail" and r[11:13] == ["1", "1"]), "raises:" + cls, "%s: outcome %s" % (what, " ".join(r[9:])))
            continue
        if should_pass:
            hc.vcheck(outcome == "pass", "raises-must-pass:" + cls, "%s threw: %s" % (what, " ".join(r[9:])))
        else:
            hc.vcheck(outcome != "pass", "raises-must-fail:" + cls, "%s returned normally" % what)
            hc.vcheck(outcome == "fail", "failure-type:" + cls, "%s threw %s instead of expectation_failed" % (what, " ".join(r[10:])))
            hc.vcheck(r[11] == "1", "failure-site:" + cls, "%s: expectation_failed does not carry the call site (line %s)" % (what, r[10]))
            hc.vcheck(r[12] == "1", "what-site:" + cls, "%s: what() does not name the call site" % what)
        rt.cls("two_tu:%s" % ("must-pass" if should_pass else "fn-returns" if returns else
                               "same-name-other-file" if (local_e and es != ts and same_name) else "wrong-type"))
        if local_e or es != ts:
            rt.nontrivial(("two_tu", cxx, std, opt, es, e, ts, k, entry))
    rt.cls("toolchain:%s:%s" % (how, "conflates same-named file-local types (cross-file cells open)" if conflated else "distinguishes file-local types of two translation units"))


def enumerate_configs(rt, exec_fn):
    for i, (cxx, std, opt) in enumerate(CONFIGS):
        if rt.mine(i):
            exec_fn({"cxx": cxx, "std": std, "opt": opt})
    rt.exhaustive["two_tu"] = ("probe of two translation units with same-named file-local exception types, built with %s: "
                               "2 files owning E x 9 expected types (5 file-local, 4 standard bases) x 2 files owning fn x {throws each of the 5 "
                               "file-local types, returns} x {macro, expect_raises_fn} = 432 cells per configuration"
                               % ", ".join("%s -std=%s %s" % c for c in CONFIGS))


CHECKS = [hc.Check("two_tu", run_config, enumerate=enumerate_configs)]

if __name__ == "__main__":
    sys.exit(hc.main(CHECKS))
