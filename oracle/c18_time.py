#!/usr/bin/env python3
"""C18 cross-check against Python: format_time vs datetime (proleptic Gregorian, UTC), format_duration evaluated with
fractions.Fraction, format_size / parse_size bounds with exact integers. Independent of the C++ references in
harness/c18/ref.hh (different language, different calendar implementation). The C++ side is shim/c18_shim.cc.

A case is a batch: {"op": "time", "t": [...]} | {"op": "duration", "d": [[usecs, precision], ...]} | {"op": "size", "s": [[size, include_bytes], ...]}.
"""
import datetime
import os
import re
import struct
import sys
from fractions import Fraction

sys.path.insert(0, os.path.dirname(os.path.abspath(__file__)))
import hyp_common as hc  # noqa: E402
from hyp_common import vcheck  # noqa: E402
from hypothesis import strategies as st  # noqa: E402

EPOCH = datetime.datetime(1970, 1, 1)
DAY_US = 86400 * 10**6
LAST_DAY = (datetime.date(9999, 12, 31) - datetime.date(1970, 1, 1)).days
END = (LAST_DAY + 1) * DAY_US


def pack(words):
    return struct.pack("<%dQ" % len(words), *[w & 0xFFFFFFFFFFFFFFFF for w in words])


def run_time(case, rt):
    ts = case["t"]
    status, r = rt.shim.call("time", pack(ts))
    vcheck(status == "ok", "time-throws", status)
    got = r[0].decode("latin-1").split("\n")
    vcheck(len(got) == len(ts), "shim-protocol", "got %d results for %d timestamps" % (len(got), len(ts)))
    for t, g in zip(ts, got):
        want = (EPOCH + datetime.timedelta(microseconds=t)).strftime("%Y-%m-%d %H:%M:%S.%f")
        if g != want:
            clause = "time-microseconds" if g[:19] == want[:19] else "time-clock" if g[:10] == want[:10] else "time-date"
            raise hc.Fail(clause, "format_time(%d) = %r, datetime says %r" % (t, g, want))
        rt.nontrivial(("t", t))
    rt.count(len(ts) - 1)
    rt.cls("py_time:timestamps", len(ts))


DUR_RE = re.compile(r"^(?:\d+:)?(?:\d\d:){0,2}\d+(?:\.\d+)?$")


def run_duration(case, rt):
    items = case["d"]
    flat = []
    for u, p in items:
        flat += [u, p]
    status, r = rt.shim.call("duration", pack(flat))
    vcheck(status == "ok", "shim-exception", status)
    got = r[0].decode("latin-1").split("\n")
    vcheck(len(got) == len(items), "shim-protocol", "got %d results for %d durations" % (len(got), len(items)))
    for (u, p), g in zip(items, got):
        what = "format_duration(%d, %d) = %r" % (u, p, g)
        vcheck(not g.startswith("!exc:"), "duration-throws", what)
        fields = g.split(":")
        vcheck(1 <= len(fields) <= 4 and DUR_RE.match(g) is not None, "duration-shape", what)
        for f in fields[1:-1]:
            vcheck(len(f) == 2, "duration-padding", what)
        sec = fields[-1]
        ip, _, fp = sec.partition(".")
        if len(fields) > 1:
            vcheck(len(ip) == 2, "duration-padding", what)
        if p >= 0:
            vcheck(len(fp) == p, "duration-precision", what)
        vcheck(len(fp) <= 6, "duration-precision", what)
        mult = [1, 60, 3600, 86400]
        total = Fraction(int(ip)) + (Fraction(int(fp), 10 ** len(fp)) if fp else 0)
        for k, f in enumerate(reversed(fields[:-1])):
            total += int(f) * mult[k + 1]
        half_unit = Fraction(1, 2 * 10 ** len(fp))
        vcheck(abs(total - Fraction(u, 10**6)) <= half_unit, "duration-value", what + " evaluates to %s s" % total)
        if u >= 60 * 10**6 and p >= 0:
            rt.nontrivial(("d", u, p))
    rt.count(len(items) - 1)
    rt.cls("py_duration:calls", len(items))


UNITS = " KMGTPE"


def run_size(case, rt):
    items = case["s"]
    flat = []
    for s, ib in items:
        flat += [s, ib]
    status, r = rt.shim.call("size", pack(flat))
    vcheck(status == "ok", "size-throws", status)
    texts = r[0].decode("latin-1").split("\n")
    parsed = struct.unpack("<%dQ" % (len(r[1]) // 8), r[1])
    vcheck(len(texts) == len(items) == len(parsed), "shim-protocol", "result count")
    for (s, ib), text, back in zip(items, texts, parsed):
        what = "format_size(%d, %s) = %r" % (s, bool(ib), text)
        if text in ("%d bytes" % s, "%d byte" % s):
            vcheck(back == s, "size-bytes-form", what)
            continue
        vcheck(s >= 512, "size-bytes-form", what)
        m = re.match(r"^(?:(\d+) bytes? \()?(\d{1,4})\.(\d\d) ([KMGTPE])B\)?$", text)
        vcheck(m is not None and (m.group(1) is not None) == bool(ib) and (not ib or (int(m.group(1)) == s and text.endswith(")"))), "size-form", what)
        # the unit is taken as printed (which one is chosen is the formatter's business); the value clause is applied with it
        k = UNITS.index(m.group(4))
        unit = 1 << (10 * k)
        m100 = int(m.group(2)) * 100 + int(m.group(3))
        vcheck(m100 <= 102400, "size-mantissa-range", what)
        # |m*U - s| <= 0.005 U + 2^-23 s
        vcheck(abs(Fraction(m100 * unit, 100) - s) <= Fraction(unit, 200) + Fraction(s, 1 << 23), "size-mantissa-value", what)
        if ib:
            vcheck(back == s, "size-parse-include-bytes", what + " parse_size -> %d" % back)
        elif k == 6 and m100 == 1600:
            rt.exclude("size prints as 16.00 EB (= 2^64, not representable in size_t)")
        else:
            vcheck(abs(back - s) <= Fraction(unit, 200) + Fraction(s, 1 << 23) + 1, "size-parse-roundtrip", what + " parse_size -> %d" % back)
        rt.nontrivial(("s", s, ib))
    rt.count(len(items) - 1)
    rt.cls("py_size:calls", len(items))


# ---------------------------------------------------------------- strategies

def days():
    leapish = st.builds(lambda y, off: (datetime.date(y, 2, 27) - datetime.date(1970, 1, 1)).days + off, st.integers(1970, 9999), st.integers(0, 3))
    newyear = st.builds(lambda y, off: (datetime.date(y, 1, 1) - datetime.date(1970, 1, 1)).days - off, st.integers(1971, 9999), st.integers(0, 1))
    return st.one_of(st.integers(0, LAST_DAY), leapish, newyear, st.integers(0, 25000))


timestamp = st.builds(lambda d, s, us: d * DAY_US + s * 10**6 + us, days(),
                      st.one_of(st.integers(0, 86399), st.sampled_from([0, 59, 3599, 3600, 43199, 43200, 86399])),
                      st.one_of(st.integers(0, 999999), st.sampled_from([0, 1, 999999])))
time_cases = st.builds(lambda ts: {"op": "time", "t": ts}, st.lists(timestamp, min_size=1, max_size=40))

usecs = st.one_of(
    st.integers(0, 120 * 10**6),
    st.builds(lambda k, v: v >> k, st.integers(1, 63), st.integers(0, 2**64 - 1)),
    st.builds(lambda unit, k, off: max(0, unit * k + off), st.sampled_from([10**6, 60 * 10**6, 3600 * 10**6, 86400 * 10**6]), st.integers(0, 1000), st.integers(-1000, 1000)),
    st.builds(lambda d, h, m, back: ((d * 24 + h) * 60 + m) * 60 * 10**6 + 59999999 - back, st.integers(0, 3), st.sampled_from([0, 1, 23]), st.sampled_from([0, 1, 59]), st.integers(0, 1200)),
)
duration_cases = st.builds(lambda ds: {"op": "duration", "d": [list(x) for x in ds]}, st.lists(st.tuples(usecs, st.integers(-1, 6)), min_size=1, max_size=40))

sizes = st.one_of(
    st.builds(lambda k, v: v >> k, st.integers(0, 63), st.integers(0, 2**64 - 1)),
    st.builds(lambda k, m, off: min(2**64 - 1, max(0, (m << (10 * k)) // 1000 + off)), st.integers(1, 6), st.integers(1000, 1024000), st.integers(-2, 2)),
)
size_cases = st.builds(lambda ss: {"op": "size", "s": [list(x) for x in ss]}, st.lists(st.tuples(sizes, st.integers(0, 1)), min_size=1, max_size=40))


def enum_time(rt, ex):
    stride = 7 if rt.thorough() else 37
    batch, idx = [], 0
    for d in range(0, LAST_DAY + 1, stride):
        for s in (0, 59, 86399):
            batch.append(d * DAY_US + s * 10**6 + ((d * 7919 + s) % 1000000))
        if len(batch) >= 999:
            idx += 1
            if rt.mine(idx):
                ex({"op": "time", "t": batch})
            batch = []
    if batch and rt.mine(idx + 1):
        ex({"op": "time", "t": batch})
    rt.exhaustive["py_time"] = "second 0, 59 and 86399 of every %dth day 1970-01-01..9999-12-31 against datetime" % stride


def enum_duration(rt, ex):
    idx = 0
    for b in (10**6, 60 * 10**6, 3600 * 10**6, 86400 * 10**6):
        for lo in range(b - 2000, b + 2000, 100):
            idx += 1
            if rt.mine(idx):
                ex({"op": "duration", "d": [[u, p] for u in range(lo, lo + 100) for p in range(-1, 7)]})
    rt.exhaustive["py_duration"] = "every microsecond within +-2 ms of 1 s, 60 s, 3600 s, 86400 s x precision -1..6 evaluated with fractions.Fraction"


def enum_size(rt, ex):
    vals = [0, 1, 1023]
    for k in range(1, 7):
        u = 1 << (10 * k)
        vals += [u - 1, u, u + 1, u * 1023 + u // 2 if k < 6 else u * 15, (u * 1023995) // 1000000 * 1000 if k < 6 else u]
    vals += [2**64 - 1, 2**63]
    if rt.mine(0):
        ex({"op": "size", "s": [[v, ib] for v in vals for ib in (0, 1)]})
    rt.exhaustive["py_size"] = "1024^k-1, 1024^k, 1024^k+1 for k=1..6 and unit tops x both include_bytes"


CHECKS = [
    hc.Check("py_time", run_time, time_cases, quick_cases=1500, thorough_cases=20000, enumerate=enum_time),
    hc.Check("py_duration", run_duration, duration_cases, quick_cases=800, thorough_cases=10000, enumerate=enum_duration),
    hc.Check("py_size", run_size, size_cases, quick_cases=500, thorough_cases=6000, enumerate=enum_size),
]

if __name__ == "__main__":
    sys.exit(hc.main(CHECKS))
