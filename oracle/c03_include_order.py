#!/usr/bin/env python3
"""C03, include-order stage: the wrappers hold the value in the named byte order in EVERY translation unit.

"A big-/little-endian scalar wrapper occupies exactly sizeof(T) bytes that hold the value in the named byte order" is a
claim about the templates as any client sees them, whichever phosg header the client's translation unit happens to
include first (the byte order the templates assume is decided by preprocessor tests in Platform.hh, and what those
tests see depends on what was included before). The main C03 harness is ONE translation unit with one include order.
This driver builds one small probe program per public header H of the tree under test:

    #include <phosg/H>            // the very first include of the TU, before any standard header
    #include <phosg/Encoding.hh>
    ... probe body (only now the standard headers it needs) ...

(plus the probe with Encoding.hh alone), at -O0 and -O2, runs it and compares, for all 24 wrappers x a boundary value
set: sizeof, the object bytes after construction / assignment / store(), the value read back by load() and by the
conversion operator, and load() of an object whose bytes were written with memcpy - against struct.pack in the named
order, computed here in Python.

Encoding.hh is header-only: its functions are compiled by the CONSUMER's compiler at the CONSUMER's language level, and
both are visible to the preprocessor (feature-test macros such as __cpp_lib_byteswap, __cplusplus, compiler builtins).
So the probe is also built per toolchain configuration (LEVELS: clang++ / g++ at C++20 and C++23), and besides the
wrappers it calls every bswap helper (8/16/24/24s/32/48/48s/64, the float forms, the bswap<> templates), ext24/ext48 and
sign_extend<R,S> on boundary values: byte reversal of the low N bits, involution, sign extension of the signed forms,
replication of the top bit - all expectations computed here in Python.

Same command line and result files as a harness on harness/verif.hh (oracle/hyp_common.py).
"""
import os
import shutil
import struct
import subprocess
import sys

VERIF = os.path.dirname(os.path.dirname(os.path.abspath(__file__)))
sys.path.insert(0, os.path.join(VERIF, "run"))
sys.path.insert(0, os.path.join(VERIF, "oracle"))
import buildlib  # noqa: E402
import hyp_common as hc  # noqa: E402

ENDIANS = ["le", "be", "re"]
SCALARS = [("uint16_t", 2, False), ("int16_t", 2, False), ("uint32_t", 4, False), ("int32_t", 4, False),
           ("uint64_t", 8, False), ("int64_t", 8, False), ("float", 4, True), ("double", 8, True)]

# value bit patterns per width: every byte distinct (so any permutation shows), top bit set / clear, extremes
VALUES = {
    2: [0x0000, 0x0001, 0x0102, 0x7FFF, 0x8000, 0x80FF, 0xFF00, 0xFFFE, 0xFFFF, 0xA55A],
    4: [0x00000000, 0x00000001, 0x01020304, 0x7FFFFFFF, 0x80000000, 0x800000FF, 0xFF000000, 0xFFFFFFFE, 0xFFFFFFFF,
        0xDEADBEEF, 0x00FF00FF],
    8: [0x0000000000000000, 0x0000000000000001, 0x0102030405060708, 0x7FFFFFFFFFFFFFFF, 0x8000000000000000,
        0x80000000000000FF, 0xFF00000000000000, 0xFFFFFFFFFFFFFFFE, 0xFFFFFFFFFFFFFFFF, 0xDEADBEEFCAFEF00D,
        0x00FF00FF00FF00FF],
}
# floating-point bit patterns: finite values only (their object representation survives any load/store path)
FVALUES = {
    4: [0x00000000, 0x80000000, 0x3F800000, 0xC0200000, 0x40490FDB, 0x7F7FFFFF, 0x00800000, 0x00000001, 0xC2F6E979,
        0x01020304],
    8: [0x0000000000000000, 0x8000000000000000, 0x3FF0000000000000, 0xC004000000000000, 0x400921FB54442D18,
        0x7FEFFFFFFFFFFFFF, 0x0010000000000000, 0x0000000000000001, 0xC05EDD2F1A9FBE77, 0x0102030405060708],
}
RAW = bytes([0x11, 0x22, 0x33, 0x44, 0x55, 0x66, 0x77, 0x88])

# toolchain configurations the consumer's translation unit may be compiled with: (compiler, language level).
# The first one is the configuration of the project itself and of the main harness; every public header is probed
# with it, Encoding.hh / Platform.hh / Strings.hh with all of them (thorough: every header with all of them).
DEFAULT_LEVEL = ("clang++", "c++20")
LEVELS = [DEFAULT_LEVEL, ("clang++", "c++2b"), ("g++", "c++20"), ("g++", "c++23")]
LEVEL_HEADERS = ("Encoding.hh", "Platform.hh", "Strings.hh")

M64 = (1 << 64) - 1


def _boundary(bits):
    m = (1 << bits) - 1
    vals = [0, 1, 2, 0x7F, 0x80, 0xFF, 0x100, 0x0102030405060708, 0x8090A0B0C0D0E0F0, 0xF1E2D3C4B5A69788, 0xDEADBEEFCAFEF00D,
            0x00FF00FF00FF00FF, m >> 1, (m >> 1) + 1, (m >> 1) + 2, m - 1, m]
    for k in range(bits // 8):
        vals += [1 << (8 * k), 0x80 << (8 * k), 0xFF << (8 * k), m & ~(0xFF << (8 * k))]
    out = []
    for v in vals:
        v &= m
        if v not in out:
            out.append(v)
    return out


def _rev(x, nbits):
    return int.from_bytes((x & ((1 << nbits) - 1)).to_bytes(nbits // 8, "little"), "big")


def _sx(x, from_bits, to_bits):
    x &= (1 << from_bits) - 1
    if x >> (from_bits - 1):
        x -= 1 << from_bits
    return x & ((1 << to_bits) - 1)


class Fn:
    """One function of Encoding.hh: C++ expression over `X` (unsigned long long) -> unsigned long long, the width of its
    argument type, and the Python model of its result (zero-extended bits of the result type)."""

    def __init__(self, name, expr, arg_bits, model, values, involution=None):
        self.name, self.expr, self.arg_bits, self.model, self.values, self.involution = name, expr, arg_bits, model, values, involution


def _functions():
    fns = []
    ut = {8: "uint8_t", 16: "uint16_t", 32: "uint32_t", 64: "uint64_t"}
    st = {8: "int8_t", 16: "int16_t", 32: "int32_t", 64: "int64_t"}
    # plain helpers: (name, N = bits reversed, argument/result width, signed form?)
    for name, n, width, signed in (("bswap8", 8, 8, False), ("bswap16", 16, 16, False), ("bswap24", 24, 32, False), ("bswap24s", 24, 32, True),
                                   ("bswap32", 32, 32, False), ("bswap48", 48, 64, False), ("bswap48s", 48, 64, True), ("bswap64", 64, 64, False)):
        argt = (st if signed else ut)[width]
        expr = "(unsigned long long)(%s)phosg::%s((%s)(%s)X)" % (ut[width], name, argt, ut[width])
        vals = list(_boundary(n))
        if width > n:
            # bits above the low N belong to the argument type and must be ignored
            hi = [0xA5, 0xFF, 0x80, 0x01] if width - n == 8 else [0xA5A5, 0xFFFF, 0x8000, 0x0001]
            vals += [v | (h << n) for v in _boundary(n)[3:12] for h in hi]
        model = (lambda x, n=n, width=width, signed=signed: _sx(_rev(x, n), n, width) if signed else _rev(x, n))
        # applied twice: the low N bits come back (sign-extended by the signed forms)
        invo = (lambda x, n=n, width=width, signed=signed: _sx(x, n, width) if signed else x & ((1 << n) - 1))
        fns.append(Fn(name, expr, width, model, vals, invo))
    # float forms
    fns.append(Fn("bswap32f(uint32_t)", "fbits(phosg::bswap32f((uint32_t)X))", 32, lambda x: _rev(x, 32), [_rev(v, 32) for v in FVALUES[4]] + FVALUES[4]))
    fns.append(Fn("bswap32f(float)", "(unsigned long long)phosg::bswap32f(ffrom((uint32_t)X))", 32, lambda x: _rev(x, 32), FVALUES[4]))
    fns.append(Fn("bswap64f(uint64_t)", "dbits(phosg::bswap64f((uint64_t)X))", 64, lambda x: _rev(x, 64), [_rev(v, 64) for v in FVALUES[8]] + FVALUES[8]))
    fns.append(Fn("bswap64f(double)", "(unsigned long long)phosg::bswap64f(dfrom((uint64_t)X))", 64, lambda x: _rev(x, 64), FVALUES[8]))
    # template forms
    for width in (8, 16, 32, 64):
        for tt in (ut, st):
            expr = "(unsigned long long)(%s)phosg::bswap<%s>((%s)(%s)X)" % (ut[width], tt[width], tt[width], ut[width])
            fns.append(Fn("bswap<%s>" % tt[width], expr, width, (lambda x, w=width: _rev(x, w)), _boundary(width), (lambda x, w=width: x & ((1 << w) - 1))))
    fns.append(Fn("bswap<float,uint32_t>", "(unsigned long long)phosg::bswap<float, uint32_t>(ffrom((uint32_t)X))", 32, lambda x: _rev(x, 32), FVALUES[4]))
    fns.append(Fn("bswap<uint32_t,float>", "fbits(phosg::bswap<uint32_t, float>((uint32_t)X))", 32, lambda x: _rev(x, 32), [_rev(v, 32) for v in FVALUES[4]]))
    fns.append(Fn("bswap<double,uint64_t>", "(unsigned long long)phosg::bswap<double, uint64_t>(dfrom((uint64_t)X))", 64, lambda x: _rev(x, 64), FVALUES[8]))
    fns.append(Fn("bswap<uint64_t,double>", "dbits(phosg::bswap<uint64_t, double>((uint64_t)X))", 64, lambda x: _rev(x, 64), [_rev(v, 64) for v in FVALUES[8]]))
    # ext24 / ext48: values that fit, and negative narrow values under stray upper bits (the top bit must reach ALL upper bits)
    neg24 = [v for v in _boundary(24) if v >> 23]
    neg48 = [v for v in _boundary(48) if v >> 47]
    fns.append(Fn("ext24", "(unsigned long long)(uint32_t)phosg::ext24((uint32_t)X)", 32, lambda x: _sx(x, 24, 32),
                  _boundary(24) + [v | (h << 24) for v in neg24[:8] for h in (0x01, 0x7F, 0xA5)]))
    fns.append(Fn("ext48", "(unsigned long long)phosg::ext48((uint64_t)X)", 64, lambda x: _sx(x, 48, 64),
                  _boundary(48) + [v | (h << 48) for v in neg48[:8] for h in (0x0001, 0x7FFF, 0xA5A5)]))
    # sign_extend<R, S>: every narrower -> wider pair
    for sb in (8, 16, 32):
        for stt in (ut, st):
            for rb in (16, 32, 64):
                if rb <= sb:
                    continue
                for rtt in (ut, st):
                    expr = "(unsigned long long)(%s)phosg::sign_extend<%s, %s>((%s)(%s)X)" % (ut[rb], rtt[rb], stt[sb], stt[sb], ut[sb])
                    fns.append(Fn("sign_extend<%s,%s>" % (rtt[rb], stt[sb]), expr, sb, (lambda x, sb=sb, rb=rb: _sx(x, sb, rb)), _boundary(sb)))
    return fns


# headers that are not meant to be included on their own (implementation parts of another header)
NOT_STANDALONE = ("-inl.hh",)

PROBE_BODY = r"""
#include <stdint.h>
#include <stdio.h>
#include <string.h>
#if defined(__has_include)
#if __has_include(<version>)
#include <version>
#endif
#endif

template <typename W, typename T, typename U>
static void probe(int idx, const U* vals, int n) {
  static const unsigned char raw[8] = {0x11, 0x22, 0x33, 0x44, 0x55, 0x66, 0x77, 0x88};
  for (int i = 0; i < n; i++) {
    U u = vals[i];
    T v;
    memcpy(&v, &u, sizeof(T));
    W constructed(v);
    W assigned;
    memset(&assigned, 0xEE, sizeof(assigned));
    assigned = v;
    W stored;
    memset(&stored, 0xEE, sizeof(stored));
    stored.store(v);
    W from_raw;
    memcpy(&from_raw, raw, sizeof(W) <= 8 ? sizeof(W) : 8);
    T l1 = constructed.load(), l2 = static_cast<T>(assigned), l3 = from_raw.load();
    U b1 = 0, b2 = 0, b3 = 0;
    memcpy(&b1, &l1, sizeof(T));
    memcpy(&b2, &l2, sizeof(T));
    memcpy(&b3, &l3, sizeof(T));
    printf("%d %zu %llx", idx, sizeof(W), (unsigned long long)u);
    const W* objs[3] = {&constructed, &assigned, &stored};
    for (int k = 0; k < 3; k++) {
      printf(" ");
      for (size_t z = 0; z < sizeof(W); z++) printf("%02x", reinterpret_cast<const unsigned char*>(objs[k])[z]);
    }
    printf(" %llx %llx %llx\n", (unsigned long long)b1, (unsigned long long)b2, (unsigned long long)b3);
  }
}

static unsigned long long fbits(float f) { uint32_t u; memcpy(&u, &f, 4); return u; }
static unsigned long long dbits(double d) { uint64_t u; memcpy(&u, &d, 8); return u; }
static float ffrom(uint32_t u) { float f; memcpy(&f, &u, 4); return f; }
static double dfrom(uint64_t u) { double d; memcpy(&d, &u, 8); return d; }

// the values come through a volatile so that the calls are made at run time in the code the optimiser produces,
// not folded by the front end
static unsigned long long opaque(unsigned long long v) {
  volatile unsigned long long q = v;
  return q;
}

int main() {
  using namespace phosg;
#if defined(__cpp_lib_byteswap)
  printf("M %ld %ld\n", (long)__cplusplus, (long)__cpp_lib_byteswap);
#else
  printf("M %ld 0\n", (long)__cplusplus);
#endif
@PROBES@
@FPROBES@
  return 0;
}
"""

FUNCTIONS = _functions()


def values_for(size, is_float):
    return (FVALUES if is_float else VALUES)[size]


def probe_source(first):
    lines = []
    for e, en in enumerate(ENDIANS):
        for s, (sn, size, is_float) in enumerate(SCALARS):
            idx = e * 8 + s
            ut = {2: "uint16_t", 4: "uint32_t", 8: "uint64_t"}[size]
            vals = values_for(size, is_float)
            lines.append("  { static const %s v[] = {%s}; probe<%s_%s, %s, %s>(%d, v, %d); }" % (
                ut, ", ".join("0x%XULL" % v for v in vals), en, sn, sn, ut, idx, len(vals)))
    flines = []
    for i, fn in enumerate(FUNCTIONS):
        body = "unsigned long long X = opaque(v[i]); unsigned long long R = %s; " % fn.expr
        if fn.involution is not None:
            body += "X = opaque(R); unsigned long long R2 = %s; printf(\"F %d %%llx %%llx %%llx\\n\", v[i], R, R2);" % (fn.expr, i)
        else:
            body += "printf(\"F %d %%llx %%llx -\\n\", v[i], R);" % i
        flines.append("  { static const unsigned long long v[] = {%s}; for (unsigned i = 0; i < %d; i++) { %s } }" % (
            ", ".join("0x%XULL" % v for v in fn.values), len(fn.values), body))
    head = ""
    if first != "Encoding.hh":
        head += "#include <phosg/%s>\n" % first
    head += "#include <phosg/Encoding.hh>\n"
    return head + PROBE_BODY.replace("@PROBES@", "\n".join(lines)).replace("@FPROBES@", "\n".join(flines))


def named_order(endian):
    if endian == "le":
        return "little"
    if endian == "be":
        return "big"
    return "big" if sys.byteorder == "little" else "little"


def headers():
    src = os.path.join(buildlib.REPO, "src")
    return sorted(f for f in os.listdir(src) if f.endswith(".hh"))


def run_probe(case, rt):
    first, opt = case["first"], case["opt"]
    cxx, std = case.get("cxx", DEFAULT_LEVEL[0]), case.get("std", DEFAULT_LEVEL[1])
    if "/" in first or not first.endswith(".hh") or opt not in ("-O0", "-O1", "-O2") or (cxx, std) not in LEVELS:
        raise hc.Fail("ORACLE-bad-case", repr(case))
    level = "%s -std=%s" % (cxx, std)
    compiler = buildlib.CXX if cxx == "clang++" else shutil.which(cxx)
    if not compiler:
        rt.exclude("toolchain configuration not installed on this machine: %s" % level)
        return
    tag = "%s%s-%s-%s-%d" % (first.replace(".", "_"), opt, cxx.replace("+", "x"), std.replace("+", "x"), os.getpid())
    workdir = os.path.join(buildlib.BUILD, "c03-probes" + buildlib.ALT)
    os.makedirs(workdir, exist_ok=True)
    src = os.path.join(workdir, "probe-%s.cc" % tag)
    exe = os.path.join(workdir, "probe-%s.bin" % tag)
    try:
        with open(src, "w") as f:
            f.write(probe_source(first))
        cmd = [compiler, "-std=" + std, opt, "-w", "-I", buildlib.include_dir(), src, "-o", exe]
        p = subprocess.run(cmd, stdout=subprocess.PIPE, stderr=subprocess.STDOUT)
        if p.returncode != 0:
            text = p.stdout.decode("utf-8", "replace")
            err = next((l.strip() for l in text.split("\n") if "error:" in l), text.strip()[:300])
            # whether a header can be the first include of a TU (or compiles with this toolchain at all) is not part of this
            # property: recorded, not judged
            if (cxx, std) == DEFAULT_LEVEL:
                rt.exclude("header cannot be the first include of a translation unit (probe does not compile): %s" % first)
            else:
                rt.exclude("probe does not compile with %s: first include %s" % (level, first))
            rt.notes.append("include-order probe for %s (%s) does not compile: %s" % (first, level, err[:300]))
            return
        out = subprocess.run([exe], stdout=subprocess.PIPE, stderr=subprocess.STDOUT, timeout=120)
    finally:
        for path in (src, exe):
            try:
                os.unlink(path)
            except OSError:
                pass
    hc.vcheck(out.returncode == 0, "probe-exit", "probe with %s first exited with %d: %s" % (first, out.returncode, out.stdout[-400:]))
    all_rows = [l.split() for l in out.stdout.decode("latin-1").split("\n") if l.strip()]
    rows = [r for r in all_rows if r[0] not in ("F", "M")]
    how = "first include %s, %s %s" % (first, level, opt)
    # --- functions of Encoding.hh as this translation unit compiled them
    fseen = {}
    config = None
    for r in all_rows:
        if r[0] == "M":
            hc.vcheck(len(r) == 3, "ORACLE-probe-output", "unexpected probe line %r" % (r,))
            config = "%s: __cplusplus=%s, std::byteswap %s" % (level, r[1], "available" if r[2] != "0" else "not available")
            continue
        if r[0] != "F":
            continue
        hc.vcheck(len(r) == 5 and int(r[1]) < len(FUNCTIONS), "ORACLE-probe-output", "unexpected probe line %r" % (r,))
        fn = FUNCTIONS[int(r[1])]
        x, got = int(r[2], 16), int(r[3], 16)
        k = fseen.get(int(r[1]), 0)
        hc.vcheck(k < len(fn.values) and fn.values[k] == x, "ORACLE-probe-output", "function row out of order: %r" % (r,))
        fseen[int(r[1])] = k + 1
        want = fn.model(x)
        kind = "sign_extend" if fn.name.startswith("sign_extend") else "ext" if fn.name.startswith("ext") else "bswap"
        hc.vcheck(got == want, "%s-value:%s" % (kind, fn.name), "%s(0x%x) returned 0x%x, expected 0x%x (%s)" % (fn.name, x, got, want, how))
        if fn.involution is not None:
            back, want2 = int(r[4], 16), fn.involution(x)
            hc.vcheck(back == want2, "bswap-involution:%s" % fn.name,
                      "%s applied twice to 0x%x gives 0x%x, expected 0x%x (%s)" % (fn.name, x, back, want2, how))
    for i, fn in enumerate(FUNCTIONS):
        hc.vcheck(fseen.get(i, 0) == len(fn.values), "ORACLE-probe-output", "probe printed %d rows for %s" % (fseen.get(i, 0), fn.name))
    hc.vcheck(config is not None, "ORACLE-probe-output", "probe printed no configuration line")
    rt.count(sum(len(fn.values) * (2 if fn.involution else 1) for fn in FUNCTIONS))
    rt.cls("level:" + config)
    # --- wrappers
    seen = {}
    for r in rows:
        hc.vcheck(len(r) == 9, "ORACLE-probe-output", "unexpected probe line %r" % (r,))
        idx, sz, bits = int(r[0]), int(r[1]), int(r[2], 16)
        en, (sn, size, is_float) = ENDIANS[idx // 8], SCALARS[idx % 8]
        name = "%s_%s" % (en, sn)
        order = named_order(en)
        hc.vcheck(sz == size, "sizeof:%s" % name, "sizeof(%s) is %d, expected %d (%s)" % (name, sz, size, how))
        want = bits.to_bytes(size, order).hex()
        for k, form in enumerate(("construct", "assign", "store")):
            hc.vcheck(r[3 + k] == want, "bytes:%s" % name,
                      "%s by %s of value bits 0x%x holds bytes %s, the %s-endian order is %s (%s)" % (name, form, bits, r[3 + k], order, want, how))
        for k, form in enumerate(("load()", "conversion operator")):
            hc.vcheck(int(r[6 + k], 16) == bits, "load:%s" % name,
                      "%s: %s returns bits 0x%s after storing 0x%x (%s)" % (name, form, r[6 + k], bits, how))
        want_raw = int.from_bytes(RAW[:size], order)
        hc.vcheck(int(r[8], 16) == want_raw, "load-raw-bytes:%s" % name,
                  "%s over bytes %s: load() returns bits 0x%s, the %s-endian reading is 0x%x (%s)" % (name, RAW[:size].hex(), r[8], order, want_raw, how))
        seen[idx] = seen.get(idx, 0) + 1
    for e in range(3):
        for s, (sn, size, is_float) in enumerate(SCALARS):
            hc.vcheck(seen.get(e * 8 + s, 0) == len(values_for(size, is_float)), "ORACLE-probe-output",
                      "probe printed %d rows for wrapper %d" % (seen.get(e * 8 + s, 0), e * 8 + s))
    rt.count(len(rows) * 6 - 1)
    rt.cls("include-order:%s" % ("Platform.hh before any standard header" if first in ("Platform.hh", "Process.hh") else "other first header"))
    rt.nontrivial()


def enumerate_probes(rt, exec_fn):
    i = 0
    names = []
    jobs = []
    for h in headers():
        if h.endswith(NOT_STANDALONE):
            if rt.shard == 0:
                rt.exclude("implementation part of another header, not included on its own: %s" % h)
            continue
        names.append(h)
        for opt in ("-O0", "-O2"):
            jobs.append({"first": h, "opt": opt})
    # other language levels / compilers (the default one is covered by the jobs above)
    for cxx, std in LEVELS[1:]:
        for h in names:
            if h in LEVEL_HEADERS or rt.thorough():
                for opt in ("-O0", "-O2"):
                    jobs.append({"first": h, "opt": opt, "cxx": cxx, "std": std})
    # the level jobs are the slow ones (Strings.hh): interleave so that the shards get equal shares
    for i, job in enumerate(jobs):
        if rt.mine(i):
            exec_fn(job)
    rt.exhaustive["include_order"] = ("every public header of the tree (%s) as the first include of a translation unit, followed by "
                                      "Encoding.hh, at -O0 and -O2 with %s -std=%s: 24 wrappers x 10-11 boundary values x {construct, assign, store, "
                                      "load, conversion, load of memcpy'd bytes} and %d functions (bswap8/16/24/24s/32/48/48s/64, float forms, bswap<>, "
                                      "ext24, ext48, all sign_extend pairs) x boundary values; %s also with %s"
                                      % (", ".join(names), DEFAULT_LEVEL[0], DEFAULT_LEVEL[1], len(FUNCTIONS),
                                         "every header" if rt.thorough() else "/".join(LEVEL_HEADERS),
                                         ", ".join("%s -std=%s" % l for l in LEVELS[1:])))


CHECKS = [hc.Check("include_order", run_probe, enumerate=enumerate_probes)]

if __name__ == "__main__":
    sys.exit(hc.main(CHECKS))
