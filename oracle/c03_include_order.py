#!/usr/bin/env python3
"""C03, include-order stage: the wrappers hold the value in the named byte order in EVERY translation unit.

"A big-/little-endian scalar wrapper occupies exactly sizeof(T) bytes that hold the value in the named byte order" is a
claim about the templates as any client sees them, whichever phosg header the client's translation unit happens to
include first (the byte order the templates assume is decided by preprocessor tests in Platform.hh, and what those
tests see depends on what was included before). The main C03 harness is ONE translation unit with one include order.
This driver builds one small probe program per public header H of the tree under test:

    #include <phosg/H>            // the very first include of the TU, before any standard header
    #include <phosg/Encoding.hh>
    ... probe body (only now the standard headers it needs) ...

(plus the probe with Encoding.hh alone), at -O0 and -O2, runs it and compares, for all 24 wrappers x a boundary value
set: sizeof, the object bytes after construction / assignment / store(), the value read back by load() and by the
conversion operator, and load() of an object whose bytes were written with memcpy - against struct.pack in the named
order, computed here in Python.

Same command line and result files as a harness on harness/verif.hh (oracle/hyp_common.py).
"""
import os
import struct
import subprocess
import sys

VERIF = os.path.dirname(os.path.dirname(os.path.abspath(__file__)))
sys.path.insert(0, os.path.join(VERIF, "run"))
sys.path.insert(0, os.path.join(VERIF, "oracle"))
import buildlib  # noqa: E402
import hyp_common as hc  # noqa: E402

ENDIANS = ["le", "be", "re"]
SCALARS = [("uint16_t", 2, False), ("int16_t", 2, False), ("uint32_t", 4, False), ("int32_t", 4, False),
           ("uint64_t", 8, False), ("int64_t", 8, False), ("float", 4, True), ("double", 8, True)]

# value bit patterns per width: every byte distinct (so any permutation shows), top bit set / clear, extremes
VALUES = {
    2: [0x0000, 0x0001, 0x0102, 0x7FFF, 0x8000, 0x80FF, 0xFF00, 0xFFFE, 0xFFFF, 0xA55A],
    4: [0x00000000, 0x00000001, 0x01020304, 0x7FFFFFFF, 0x80000000, 0x800000FF, 0xFF000000, 0xFFFFFFFE, 0xFFFFFFFF,
        0xDEADBEEF, 0x00FF00FF],
    8: [0x0000000000000000, 0x0000000000000001, 0x0102030405060708, 0x7FFFFFFFFFFFFFFF, 0x8000000000000000,
        0x80000000000000FF, 0xFF00000000000000, 0xFFFFFFFFFFFFFFFE, 0xFFFFFFFFFFFFFFFF, 0xDEADBEEFCAFEF00D,
        0x00FF00FF00FF00FF],
}
# floating-point bit patterns: finite values only (their object representation survives any load/store path)
FVALUES = {
    4: [0x00000000, 0x80000000, 0x3F800000, 0xC0200000, 0x40490FDB, 0x7F7FFFFF, 0x00800000, 0x00000001, 0xC2F6E979,
        0x01020304],
    8: [0x0000000000000000, 0x8000000000000000, 0x3FF0000000000000, 0xC004000000000000, 0x400921FB54442D18,
        0x7FEFFFFFFFFFFFFF, 0x0010000000000000, 0x0000000000000001, 0xC05EDD2F1A9FBE77, 0x0102030405060708],
}
RAW = bytes([0x11, 0x22, 0x33, 0x44, 0x55, 0x66, 0x77, 0x88])

# headers that are not meant to be included on their own (implementation parts of another header)
NOT_STANDALONE = ("-inl.hh",)

PROBE_BODY = r"""
#include <stdint.h>
#include <stdio.h>
#include <string.h>

template <typename W, typename T, typename U>
static void probe(int idx, const U* vals, int n) {
  static const unsigned char raw[8] = {0x11, 0x22, 0x33, 0x44, 0x55, 0x66, 0x77, 0x88};
  for (int i = 0; i < n; i++) {
    U u = vals[i];
    T v;
    memcpy(&v, &u, sizeof(T));
    W constructed(v);
    W assigned;
    memset(&assigned, 0xEE, sizeof(assigned));
    assigned = v;
    W stored;
    memset(&stored, 0xEE, sizeof(stored));
    stored.store(v);
    W from_raw;
    memcpy(&from_raw, raw, sizeof(W) <= 8 ? sizeof(W) : 8);
    T l1 = constructed.load(), l2 = static_cast<T>(assigned), l3 = from_raw.load();
    U b1 = 0, b2 = 0, b3 = 0;
    memcpy(&b1, &l1, sizeof(T));
    memcpy(&b2, &l2, sizeof(T));
    memcpy(&b3, &l3, sizeof(T));
    printf("%d %zu %llx", idx, sizeof(W), (unsigned long long)u);
    const W* objs[3] = {&constructed, &assigned, &stored};
    for (int k = 0; k < 3; k++) {
      printf(" ");
      for (size_t z = 0; z < sizeof(W); z++) printf("%02x", reinterpret_cast<const unsigned char*>(objs[k])[z]);
    }
    printf(" %llx %llx %llx\n", (unsigned long long)b1, (unsigned long long)b2, (unsigned long long)b3);
  }
}

int main() {
  using namespace phosg;
@PROBES@
  return 0;
}
"""


def values_for(size, is_float):
    return (FVALUES if is_float else VALUES)[size]


def probe_source(first):
    lines = []
    for e, en in enumerate(ENDIANS):
        for s, (sn, size, is_float) in enumerate(SCALARS):
            idx = e * 8 + s
            ut = {2: "uint16_t", 4: "uint32_t", 8: "uint64_t"}[size]
            vals = values_for(size, is_float)
            lines.append("  { static const %s v[] = {%s}; probe<%s_%s, %s, %s>(%d, v, %d); }" % (
                ut, ", ".join("0x%XULL" % v for v in vals), en, sn, sn, ut, idx, len(vals)))
    head = ""
    if first != "Encoding.hh":
        head += "#include <phosg/%s>\n" % first
    head += "#include <phosg/Encoding.hh>\n"
    return head + PROBE_BODY.replace("@PROBES@", "\n".join(lines))


def named_order(endian):
    if endian == "le":
        return "little"
    if endian == "be":
        return "big"
    return "big" if sys.byteorder == "little" else "little"


def headers():
    src = os.path.join(buildlib.REPO, "src")
    return sorted(f for f in os.listdir(src) if f.endswith(".hh"))


def run_probe(case, rt):
    first, opt = case["first"], case["opt"]
    if "/" in first or not first.endswith(".hh") or opt not in ("-O0", "-O1", "-O2"):
        raise hc.Fail("ORACLE-bad-case", repr(case))
    tag = "%s%s-%d" % (first.replace(".", "_"), opt, os.getpid())
    workdir = os.path.join(buildlib.BUILD, "c03-probes" + buildlib.ALT)
    os.makedirs(workdir, exist_ok=True)
    src = os.path.join(workdir, "probe-%s.cc" % tag)
    exe = os.path.join(workdir, "probe-%s.bin" % tag)
    try:
        with open(src, "w") as f:
            f.write(probe_source(first))
        cmd = [buildlib.CXX, "-std=c++20", opt, "-w", "-I", buildlib.include_dir(), src, "-o", exe]
        p = subprocess.run(cmd, stdout=subprocess.PIPE, stderr=subprocess.STDOUT)
        if p.returncode != 0:
            text = p.stdout.decode("utf-8", "replace")
            err = next((l.strip() for l in text.split("\n") if "error:" in l), text.strip()[:300])
            # whether a header can be the first include of a TU is not part of this property: recorded, not judged
            rt.exclude("header cannot be the first include of a translation unit (probe does not compile): %s" % first)
            rt.notes.append("include-order probe for %s does not compile: %s" % (first, err[:300]))
            return
        out = subprocess.run([exe], stdout=subprocess.PIPE, stderr=subprocess.STDOUT, timeout=120)
    finally:
        for path in (src, exe):
            try:
                os.unlink(path)
            except OSError:
                pass
    hc.vcheck(out.returncode == 0, "probe-exit", "probe with %s first exited with %d: %s" % (first, out.returncode, out.stdout[-400:]))
    rows = [l.split() for l in out.stdout.decode("latin-1").split("\n") if l.strip()]
    seen = {}
    for r in rows:
        hc.vcheck(len(r) == 9, "ORACLE-probe-output", "unexpected probe line %r" % (r,))
        idx, sz, bits = int(r[0]), int(r[1]), int(r[2], 16)
        en, (sn, size, is_float) = ENDIANS[idx // 8], SCALARS[idx % 8]
        name = "%s_%s" % (en, sn)
        order = named_order(en)
        how = "first include %s, %s" % (first, opt)
        hc.vcheck(sz == size, "sizeof:%s" % name, "sizeof(%s) is %d, expected %d (%s)" % (name, sz, size, how))
        want = bits.to_bytes(size, order).hex()
        for k, form in enumerate(("construct", "assign", "store")):
            hc.vcheck(r[3 + k] == want, "bytes:%s" % name,
                      "%s by %s of value bits 0x%x holds bytes %s, the %s-endian order is %s (%s)" % (name, form, bits, r[3 + k], order, want, how))
        for k, form in enumerate(("load()", "conversion operator")):
            hc.vcheck(int(r[6 + k], 16) == bits, "load:%s" % name,
                      "%s: %s returns bits 0x%s after storing 0x%x (%s)" % (name, form, r[6 + k], bits, how))
        want_raw = int.from_bytes(RAW[:size], order)
        hc.vcheck(int(r[8], 16) == want_raw, "load-raw-bytes:%s" % name,
                  "%s over bytes %s: load() returns bits 0x%s, the %s-endian reading is 0x%x (%s)" % (name, RAW[:size].hex(), r[8], order, want_raw, how))
        seen[idx] = seen.get(idx, 0) + 1
    for e in range(3):
        for s, (sn, size, is_float) in enumerate(SCALARS):
            hc.vcheck(seen.get(e * 8 + s, 0) == len(values_for(size, is_float)), "ORACLE-probe-output",
                      "probe printed %d rows for wrapper %d" % (seen.get(e * 8 + s, 0), e * 8 + s))
    rt.count(len(rows) * 6 - 1)
    rt.cls("include-order:%s" % ("Platform.hh before any standard header" if first in ("Platform.hh", "Process.hh") else "other first header"))
    rt.nontrivial()


def enumerate_probes(rt, exec_fn):
    i = 0
    names = []
    for h in headers():
        if h.endswith(NOT_STANDALONE):
            if rt.shard == 0:
                rt.exclude("implementation part of another header, not included on its own: %s" % h)
            continue
        names.append(h)
        for opt in ("-O0", "-O2"):
            if rt.mine(i):
                exec_fn({"first": h, "opt": opt})
            i += 1
    rt.exhaustive["include_order"] = ("every public header of the tree (%s) as the first include of a translation unit, followed by "
                                      "Encoding.hh, at -O0 and -O2: 24 wrappers x 10-11 boundary values x {construct, assign, store, load, "
                                      "conversion, load of memcpy'd bytes}" % ", ".join(names))


CHECKS = [hc.Check("include_order", run_probe, enumerate=enumerate_probes)]

if __name__ == "__main__":
    sys.exit(hc.main(CHECKS))
