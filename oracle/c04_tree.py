"""Value trees shared by the C04/C05 Python drivers.

Python form of a tree: None | bool | int | float | bytes | list | dict(bytes -> tree).
Case form (JSON-serialisable, exact): None | bool | int | {"f": float.hex()} | {"s": hex} | [..] | {"m": [[hexkey, tree], ...]}.
Wire form (shim pipe, see harness/c04/tree.hh): n | t | f | i<8> | d<8> | s<u32><bytes> | l<u32>.. | m<u32>(<u32><key>tree)*
"""
import struct


def to_case(v):
    if v is None or isinstance(v, bool):
        return v
    if isinstance(v, int):
        return v
    if isinstance(v, float):
        return {"f": v.hex()}
    if isinstance(v, (bytes, bytearray)):
        return {"s": bytes(v).hex()}
    if isinstance(v, list):
        return [to_case(x) for x in v]
    if isinstance(v, dict):
        return {"m": [[k.hex(), to_case(x)] for k, x in v.items()]}
    raise TypeError(type(v))


def from_case(c):
    if c is None or isinstance(c, bool):
        return c
    if isinstance(c, int):
        return c
    if isinstance(c, list):
        return [from_case(x) for x in c]
    if "f" in c:
        return float.fromhex(c["f"])
    if "s" in c:
        return bytes.fromhex(c["s"])
    out = {}
    for k, x in c["m"]:
        kb = bytes.fromhex(k)
        if kb not in out:
            out[kb] = from_case(x)
    return out


def wire(v):
    if v is None:
        return b"n"
    if v is True:
        return b"t"
    if v is False:
        return b"f"
    if isinstance(v, int):
        return b"i" + struct.pack("<q", v)
    if isinstance(v, float):
        return b"d" + struct.pack("<d", v)
    if isinstance(v, (bytes, bytearray)):
        return b"s" + struct.pack("<I", len(v)) + bytes(v)
    if isinstance(v, list):
        return b"l" + struct.pack("<I", len(v)) + b"".join(wire(x) for x in v)
    if isinstance(v, dict):
        return b"m" + struct.pack("<I", len(v)) + b"".join(struct.pack("<I", len(k)) + k + wire(x) for k, x in v.items())
    raise TypeError(type(v))


def unwire(b):
    """Returns the tree; dictionaries come back as Python dicts in wire order (a repeated key raises ValueError)."""
    pos = 0

    def node():
        nonlocal pos
        t = b[pos:pos + 1]
        pos += 1
        if t == b"n":
            return None
        if t == b"t":
            return True
        if t == b"f":
            return False
        if t == b"i":
            (v,) = struct.unpack_from("<q", b, pos)
            pos += 8
            return v
        if t == b"d":
            (v,) = struct.unpack_from("<d", b, pos)
            pos += 8
            return v
        if t == b"s":
            (n,) = struct.unpack_from("<I", b, pos)
            pos += 4
            v = bytes(b[pos:pos + n])
            pos += n
            return v
        if t == b"l":
            (n,) = struct.unpack_from("<I", b, pos)
            pos += 4
            return [node() for _ in range(n)]
        if t == b"m":
            (n,) = struct.unpack_from("<I", b, pos)
            pos += 4
            out = {}
            for _ in range(n):
                (kl,) = struct.unpack_from("<I", b, pos)
                pos += 4
                k = bytes(b[pos:pos + kl])
                pos += kl
                v = node()
                if k in out:
                    raise ValueError("duplicate key on the wire")
                out[k] = v
            return out
        raise ValueError("bad wire tag %r at %d" % (t, pos - 1))

    v = node()
    if pos != len(b):
        raise ValueError("trailing wire bytes")
    return v


def g6(x):
    return "%.6g" % x


def stats(v, depth=1, acc=None):
    """containers, empty containers, float printed with an exponent by %g, byte outside 0x20..0x7E, depth."""
    if acc is None:
        acc = {"containers": 0, "empty": 0, "exp_float": False, "odd_byte": False, "depth": 0, "float": False}
    acc["depth"] = max(acc["depth"], depth)
    if isinstance(v, float):
        acc["float"] = True
        if "e" in ("%g" % v):
            acc["exp_float"] = True
    elif isinstance(v, (bytes, bytearray)):
        if any(c < 0x20 or c > 0x7E for c in v):
            acc["odd_byte"] = True
    elif isinstance(v, list):
        acc["containers"] += 1
        if not v:
            acc["empty"] += 1
        for x in v:
            stats(x, depth + 1, acc)
    elif isinstance(v, dict):
        acc["containers"] += 1
        if not v:
            acc["empty"] += 1
        for k, x in v.items():
            if any(c < 0x20 or c > 0x7E for c in k):
                acc["odd_byte"] = True
            stats(x, depth + 1, acc)
    return acc
