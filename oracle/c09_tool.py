#!/usr/bin/env python3
"""C09, tool stage: the `parse-data` program (src/ParseData.cc, one of the property's anchored files) must output
exactly the bytes the data-string syntax defines for its input text - however the text is delivered.

src/ParseData.cc has its own main(), so it is not part of the library objects and no in-process harness can reach it.
This driver speaks the harness protocol (same command line and result files as a binary built on harness/verif.hh):

  1. it builds the tool from the tree under test: <tree>/src/ParseData.cc + the library objects of the same tree
     (ASan/UBSan flavour, content-hashed cache under build/bin like every other binary);
  2. it builds harness/c09_tool.cc (generated texts of 0..1 MB with parser state that lives across line boundaries,
     expected bytes by construction + the reference interpreter of harness/c09/ref.hh; the text goes to the tool as a file
     argument, on redirected stdin and through a pipe) and replaces itself with that binary, passing the tool's path in
     the environment variable C09_PARSE_DATA.
"""
import os
import sys

VERIF = os.path.dirname(os.path.dirname(os.path.abspath(__file__)))
sys.path.insert(0, os.path.join(VERIF, "run"))
import buildlib  # noqa: E402

HARNESS = "harness/c09_tool.cc"
DEPS = ("harness/c09/ref.hh",)
FLAVOR = "asan"
TOOL_SRC = "src/ParseData.cc"


def build_tool():
    src = os.path.join(buildlib.REPO, TOOL_SRC)
    flags = buildlib.FLAVORS[FLAVOR]
    objs = buildlib.build_lib(FLAVOR)
    key = buildlib.sha(" ".join(flags), buildlib.headers_digest(), buildlib.read(src), " ".join(objs))
    bindir = os.path.join(buildlib.BUILD, "bin")
    os.makedirs(bindir, exist_ok=True)
    exe = os.path.join(bindir, "c09_parse_data-%s-%s" % (FLAVOR, key))
    if os.path.exists(exe):
        try:
            os.utime(exe, None)
        except OSError:
            pass
        return exe
    with buildlib.Lock("h-c09_parse_data"):
        if os.path.exists(exe):
            return exe
        buildlib.log("compiling the parse-data tool from %s (%s)" % (src, FLAVOR))
        tmp = exe + ".tmp%d" % os.getpid()
        cmd = [buildlib.CXX] + flags + ["-I", buildlib.include_dir(), "-I", os.path.join(buildlib.REPO, "src"), src]
        cmd += objs + buildlib.LINK[FLAVOR] + ["-lz", "-lpthread", "-o", tmp]
        buildlib._run(cmd, TOOL_SRC)
        os.rename(tmp, exe)
    return exe


def main(argv):
    try:
        tool = build_tool()
        exe = buildlib.build_harness(HARNESS, FLAVOR, (), (), (), DEPS)
    except RuntimeError as e:
        # the driver (run/check.py) builds C++ harnesses itself and reports a failed build as INFRA-ERROR; a build that
        # fails here must not look like a finished shard either
        sys.stderr.write("c09_tool: %s\n" % e)
        if "--replay" in argv:
            return 2
        import json

        def arg(name, default):
            return argv[argv.index(name) + 1] if name in argv and argv.index(name) + 1 < len(argv) else default
        shard, out = int(arg("--shard", "0")), arg("--out", ".")
        os.makedirs(out, exist_ok=True)
        data = {"shard": shard, "nshards": int(arg("--nshards", "1")), "tier": arg("--tier", "quick"), "seed": int(arg("--seed", "0")),
                "evaluations": 0, "distinct_nontrivial": 0, "distinct_capped": False, "classes": {}, "excluded": {},
                "per_check_evaluations": {}, "exhaustive": {}, "samples": [], "notes": [],
                "failures": [{"sig": "INFRA/c09_tool/build", "msg": str(e)[:2000], "case": "", "count": 1}]}
        with open(os.path.join(out, "shard%d.json" % shard), "w") as f:
            json.dump(data, f)
        open(os.path.join(out, "shard%d.hashes" % shard), "wb").close()
        return 0
    os.environ["C09_PARSE_DATA"] = tool
    if "--replay" in argv:
        # a replay starts in the directory of the case file (corpus/, replays/): the harness's scratch files go elsewhere
        i = argv.index("--replay") + 1
        if i < len(argv):
            argv[i] = os.path.abspath(argv[i])
        scratch = os.path.join(buildlib.BUILD, "c09-tool-scratch" + buildlib.ALT)
        os.makedirs(scratch, exist_ok=True)
        os.chdir(scratch)
    sys.stdout.flush()
    sys.stderr.flush()
    os.execv(exe, [exe] + argv)


if __name__ == "__main__":
    sys.exit(main(sys.argv[1:]))
