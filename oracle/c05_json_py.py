#!/usr/bin/env python3
"""C05 against Python's json module (the independent reference parser the property names).

  py_grammar  Hypothesis grammar of standard-compliant documents (arbitrary inter-token whitespace, every escape incl. \\/ and
              \\u0000..\\u00ff in both hex cases, raw ASCII 0x20..0x7F, number forms -0, 0.5, 1e5, 1E+2, 5e-1, 1.25E-3, integers
              up to the int64 boundaries, integer parts of 1..25 digits for non-integers, exponents within double range (a quarter
              of them spelled with up to 20 leading zeros), strings holding hundreds to thousands of structural characters and
              ending in escaped backslashes (documents of more than 1000 bytes),
              un-normalised mantissas 1e-36..1e38 whose exponent alone runs to +-327 while the value stays within
              1e-290..1e291, unique keys, empty containers anywhere, occasional nesting up to 500). For the three entry points
              x {default, strict}:
                rejects-standard-document:<mode>   phosg throws
                exception-type:<type>              ... something other than parse_error / out_of_range
                value:<class>:<mode>               value differs from json.loads (ints exact, other numbers 1e-9 relative)
                reader-extent:<mode>               reader entry point does not stop exactly after the value (followed by a
                                                   non-extending byte)
                trailing-garbage-accepted:<mode>   string entry points accept a trailing non-whitespace byte
                trailing-whitespace-rejected
              a quarter of the documents are also followed by 1..3 complete // comment lines (ended by \n, \r or \r\n):
                trailing-comment-rejected / ext-default-meaning:comment:trailing   default mode, string entry points: accepted
                                                   with json.loads(document)
                ext-strict-accepts:comment:trailing                                strict mode: rejected
                trailing-garbage-accepted:after-comment:<mode>   non-whitespace after the line break that ends the last
                                                   comment is trailing data: rejected in both modes
  py_ext      one documented extension injected into a valid document (trailing comma, hex integer, n/t/f, // comment):
                ext-default-rejects / ext-default-meaning:<ext>   default mode must give json.loads(original)
                ext-strict-accepts:<ext>                          strict mode must throw
  py_edits    every proper prefix and single-byte edit of a generated document: the C++ oracle (harness/c05/oracle.hh) runs
              them inside the shim (totality, exception types, entry-point agreement, reference differential), and the
              harness's own RFC 8259 reader is compared with json.loads on every one of those texts
                harness-refjson-vs-python           (a bug in the checking machinery, not in phosg)
"""
import json
import os
import re
import struct
import sys

sys.path.insert(0, os.path.dirname(os.path.abspath(__file__)))
import hyp_common as hc  # noqa: E402
import c04_tree as T  # noqa: E402
from hypothesis import strategies as st  # noqa: E402

sys.setrecursionlimit(20000)

READER, PTR, STRING = 0, 1, 2
ENTRY_NAMES = {READER: "reader", PTR: "ptr+size", STRING: "string"}
PERMITTED = ("N5phosg4JSON11parse_errorE", "St12out_of_range")


class Pairs(list):
    pass


def _bad_constant(name):
    raise ValueError("non-standard constant " + name)


def py_convert(v):
    """json.loads result (object_pairs_hook=Pairs) -> c04_tree form (str -> latin-1 bytes); ValueError on a repeated key or a
    character above U+00FF."""
    if isinstance(v, Pairs):
        out = {}
        for k, x in v:
            kb = k.encode("latin-1")
            if kb in out:
                raise ValueError("duplicate key")
            out[kb] = py_convert(x)
        return out
    if isinstance(v, list):
        return [py_convert(x) for x in v]
    if isinstance(v, str):
        return v.encode("latin-1")
    return v


def py_load(text):
    return py_convert(json.loads(text, object_pairs_hook=Pairs, parse_constant=_bad_constant))


def compare(got, want, path="$"):
    """got: tree read by phosg, want: json.loads. None or (class, message)."""
    num = lambda v: isinstance(v, (int, float)) and not isinstance(v, bool)
    if num(got) and num(want):
        if isinstance(got, int) and isinstance(want, int):
            return None if got == want else ("int", "%s: %d vs %d" % (path, got, want))
        x, y = float(got), float(want)
        if x == y or abs(x - y) <= 1e-9 * max(abs(x), abs(y)):
            return None
        return ("number:%s-vs-%s" % (type(got).__name__, type(want).__name__), "%s: %r vs %r" % (path, got, want))
    if type(got) is not type(want):
        return ("kind", "%s: %s vs %s" % (path, type(got).__name__, type(want).__name__))
    if isinstance(want, list):
        if len(got) != len(want):
            return ("list-size", "%s: %d vs %d items" % (path, len(got), len(want)))
        for k, (a, b) in enumerate(zip(got, want)):
            r = compare(a, b, "%s[%d]" % (path, k))
            if r:
                return r
        return None
    if isinstance(want, dict):
        if set(got) != set(want):
            return ("dict-key", "%s: keys %r vs %r" % (path, sorted(got)[:5], sorted(want)[:5]))
        for k in want:
            r = compare(got[k], want[k], "%s{%r}" % (path, k))
            if r:
                return r
        return None
    return None if got == want else (type(want).__name__, "%s: %r vs %r" % (path, got, want))


def call_parse(rt, text, strict, entry):
    """-> ("ok", tree, where) | ("reject", typeid, what) | raises Fail for a non-permitted exception type."""
    status, blobs = rt.shim.call("parse", text, struct.pack("<Q", (1 if strict else 0) | (entry << 1)))
    if status == "ok":
        return ("ok", T.unwire(blobs[0]), struct.unpack("<Q", blobs[1])[0])
    _, typeid, what = (status.split(":", 2) + ["", ""])[:3]
    if typeid not in PERMITTED:
        raise hc.Fail("exception-type:" + typeid, "%s escaped from JSON::parse(%s, %s) on %r: %s" % (typeid, ENTRY_NAMES[entry], "strict" if strict else "default", text[:200], what))
    return ("reject", typeid, what)


def ref_many(rt, texts):
    status, blobs = rt.shim.call("ref", *texts)
    hc.vcheck(status == "ok", "harness-refjson-crashed", status)
    out = []
    for k in range(len(texts)):
        flags = struct.unpack("<Q", blobs[3 * k])[0]
        out.append((bool(flags & 1), bool(flags & 2), T.unwire(blobs[3 * k + 1]) if flags & 1 else None, struct.unpack("<Q", blobs[3 * k + 2])[0]))
    return out


def num_class(text):
    return "%s:%s" % ("frac" if "." in text else "nofrac", ("negexp" if ("e-" in text.lower()) else "posexp") if "e" in text.lower() else "noexp")


# ---------------------------------------------------------------- grammar (token lists)
# a token is [kind, text] with kind in ws, punct, lit, int, num, str; close tokens carry "]+"/"}+" when the container is non-empty

WS = st.one_of(st.just(""), st.just(""), st.text(alphabet=" \t\n\r", min_size=1, max_size=3))
_SIMPLE_ESC = ['\\"', "\\\\", "\\/", "\\b", "\\f", "\\n", "\\r", "\\t"]


@st.composite
def string_body(draw):
    parts = []
    for _ in range(draw(st.integers(0, 8))):
        k = draw(st.integers(0, 4))
        if k == 0:
            parts.append(draw(st.sampled_from(_SIMPLE_ESC)))
        elif k == 1:
            v = draw(st.one_of(st.sampled_from([0, 0x22, 0x5C, 0x7F, 0x80, 0xFF, 0x1F, 0xE9, 0x0A]), st.integers(0, 255)))
            parts.append(("\\u%04x" if draw(st.booleans()) else "\\u%04X") % v)
        else:
            c = chr(draw(st.integers(0x20, 0x7F)))
            parts.append("/" if c in '"\\' else c)
    return "".join(parts)


_SPECIAL_NUMS = ["-0", "0.5", "1e5", "1E+2", "5e-1", "25e-1", "1.25E-3", "-0.0", "0e0", "12345678901234567890.5", "1e22", "123e20", "100e-2",
                 "9223372036854775807e0", "9223372036854775808.0", "1e19", "1.0", "0.1e1", "1e300", "1e-300", "10e-1", "4e18", "92233720368547758e2",
                 "1234567890123456789012345.5", "18446744073709551616.0"]


@st.composite
def exp_spelling(draw, magnitude):
    """exp = e [+-] 1*DIGIT puts no bound on the number of digits: e0000000002 is the exponent 2. A quarter of the exponents
    carry 1..3 or 0..20 leading zeros."""
    if draw(st.integers(0, 3)) == 0:
        return "0" * draw(st.one_of(st.integers(1, 3), st.integers(0, 20))) + str(magnitude)
    return str(magnitude)


_BULK_ELEMS = ["[", "{", "]", "}", ",", ":", "/", " ", '\\"', "\\\\"]
_BULK_TAILS = ["", "\\\\", "\\\\" * 2, "\\\\" * 3, '\\"', ""]


@st.composite
def bulk_string_body(draw):
    """Structural characters in bulk (hundreds to thousands of brackets, braces, commas, colons, escaped quotes and escaped
    backslashes) inside a string, which may end in 1..3 escaped backslashes or an escaped quote."""
    theme = draw(st.integers(0, 3))
    n = draw(st.one_of(st.integers(0, 299), st.integers(300, 2600), st.integers(300, 2600)))
    if theme == 0:
        body = draw(st.sampled_from(_BULK_ELEMS)) * n
    else:
        rnd = draw(st.randoms(use_true_random=False))
        if theme == 1:
            body = "".join(rnd.choice("[{") if rnd.random() < 0.875 else rnd.choice(_BULK_ELEMS) for _ in range(n))
        elif theme == 2:
            body = "".join(rnd.choice(_BULK_ELEMS) for _ in range(n))
        else:
            body = "".join(rnd.choice("[{") for _ in range(n // 2)) + "".join(rnd.choice("]}") for _ in range(n - n // 2))
    return body + draw(st.sampled_from(_BULK_TAILS))


@st.composite
def bulk_doc_tokens(draw):
    """a few strings (keys and values) with bulk structural content, small strings with the same endings and small values"""
    is_dict = draw(st.booleans())
    n = draw(st.integers(2, 4))
    toks = [["punct", "{" if is_dict else "["]]
    small = st.builds(lambda b, t: b + t, string_body(), st.sampled_from(_BULK_TAILS))
    for j in range(n):
        if j:
            toks.append(["punct", ","])
        toks.append(["ws", draw(WS)])
        if is_dict:
            toks.append(["str", '"' + str(j) + draw(st.one_of(bulk_string_body(), small)) + '"'])  # unique: the key starts with the entry index
            toks += [["ws", draw(WS)], ["punct", ":"], ["ws", draw(WS)]]
        k = draw(st.integers(0, 3))
        if k == 0:
            toks.append(["str", '"' + draw(small) + '"'])
        elif k == 1:
            toks += draw(value_tokens(1))
        else:
            toks.append(["str", '"' + draw(bulk_string_body()) + '"'])
        toks.append(["ws", draw(WS)])
    toks.append(["close+", "}" if is_dict else "]"])
    return toks


@st.composite
def int_token(draw):
    v = draw(st.one_of(st.sampled_from([-2**63, 2**63 - 1, 0, 1, -1, -2**63 + 1, 2**63 - 2, 2**53 + 1]), st.integers(-2**63, 2**63 - 1), st.integers(-100, 100)))
    return ["int", str(v)]


@st.composite
def unnormalised_num(draw):
    """JSON does not require 1 <= mantissa < 10: 0.001e310 (= 1e307) or 12345678901234567890e-325 (= 1.2e-306) lie within double
    range although the exponent alone does not. At most 40 digits, a 3-digit exponent, value within 1e-290..1e291."""
    s = "-" if draw(st.integers(0, 2)) == 0 else ""
    if draw(st.booleans()):
        nd = draw(st.integers(2, 38))
        s += str(draw(st.integers(1, 9))) + "".join(str(draw(st.integers(0, 9))) for _ in range(nd - 1))
        mag = nd - 1
        if draw(st.integers(0, 2)) == 0:
            s += "." + "".join(str(draw(st.integers(0, 9))) for _ in range(draw(st.integers(1, 2))))
    else:
        z = draw(st.integers(0, 35))
        s += "0." + "0" * z + str(draw(st.integers(1, 9))) + "".join(str(draw(st.integers(0, 9))) for _ in range(draw(st.integers(0, 3))))
        mag = -z - 1
    lo, hi = -290 - mag, 290 - mag
    e = draw(st.one_of(st.integers(lo, min(hi, lo + 44)), st.integers(max(lo, hi - 44), hi), st.integers(-mag - 3, -mag + 3), st.integers(lo, hi)))
    s += draw(st.sampled_from("eE"))
    s += "-" if e < 0 else draw(st.sampled_from(["", "+"]))
    return ["num", s + draw(exp_spelling(abs(e)))]


@st.composite
def num_token(draw):
    if draw(st.integers(0, 5)) == 0:
        return draw(unnormalised_num())
    if draw(st.integers(0, 2)) == 0:
        return ["num", draw(st.sampled_from(_SPECIAL_NUMS))]
    s = "-" if draw(st.integers(0, 2)) == 0 else ""
    nd = draw(st.one_of(st.integers(1, 8), st.integers(19, 25)))
    ip = "0" if draw(st.integers(0, 3)) == 0 else (str(draw(st.integers(1, 9))) + "".join(str(draw(st.integers(0, 9))) for _ in range(nd - 1)))
    s += ip
    frac = draw(st.booleans())
    fd = 0
    if frac:
        fd = draw(st.integers(1, 12))
        s += "." + "".join(str(draw(st.integers(0, 9))) for _ in range(fd))
    if not frac or draw(st.booleans()):
        mag = len(ip) - 1
        lo, hi = -290 - mag + (fd if ip == "0" else 0), 290 - mag
        e = draw(st.one_of(st.integers(-12, 12), st.integers(lo, hi)))
        e = max(lo, min(hi, e))
        s += draw(st.sampled_from("eE"))
        s += "-" if e < 0 else draw(st.sampled_from(["", "+"]))
        s += draw(exp_spelling(abs(e)))
    return ["num", s]


def leaf_tokens():
    return st.one_of(
        st.sampled_from(["null", "true", "false"]).map(lambda t: [["lit", t]]),
        int_token().map(lambda t: [t]),
        num_token().map(lambda t: [t]),
        num_token().map(lambda t: [t]),
        string_body().map(lambda b: [["str", '"' + b + '"']]),
    )


@st.composite
def container_tokens(draw, depth):
    is_dict = draw(st.booleans())
    n = draw(st.sampled_from([0, 1, 2, 2, 3, 4]))
    toks = [["punct", "{" if is_dict else "["]]
    for j in range(n):
        if j:
            toks.append(["punct", ","])
        toks.append(["ws", draw(WS)])
        if is_dict:
            toks.append(["str", '"' + draw(string_body()) + str(j) + '"'])  # unique: the key ends in the entry index
            toks.append(["ws", draw(WS)])
            toks.append(["punct", ":"])
            toks.append(["ws", draw(WS)])
        toks += draw(value_tokens(depth - 1))
        toks.append(["ws", draw(WS)])
    if n == 0:
        toks.append(["ws", draw(WS)])
    toks.append(["close+" if n else "close", "}" if is_dict else "]"])
    return toks


def value_tokens(depth):
    if depth <= 0:
        return leaf_tokens()
    return st.one_of(leaf_tokens(), container_tokens(depth), container_tokens(depth))


@st.composite
def nested_tokens(draw):
    depth = draw(st.one_of(st.just(500), st.integers(2, 499)))
    kinds = draw(st.lists(st.booleans(), min_size=depth, max_size=depth))
    opens = "".join('{"k":' if d else "[" for d in kinds)
    closes = "".join("}" if d else "]" for d in reversed(kinds))
    inner = draw(st.sampled_from(["[]", "{}", "1", '"x"', "5e-1", "null"]))
    return [["num", opens + inner + closes]]


def render(toks):
    return "".join(t[1] for t in toks)


_NON_EXT = list(b" ,]}:\"\n#@!z[{-/*\x00\xff")
_GARBAGE_FIRST = list(b",]}:\"#@!z[{-*\x00\xff\x80")

_COMMENT_LINE = st.tuples(WS, st.text(alphabet='abc \t"[]{},:/\\019*#-ntfx', max_size=11), st.sampled_from(["\n", "\n", "\r", "\r\n"])).map(lambda p: p[0] + "//" + p[1] + p[2])
# whitespace and 1..3 complete // comment lines; "" = the document is not followed by comments
COMMENT_TAIL = st.one_of(st.just(""), st.just(""), st.just(""),
                         st.tuples(st.lists(_COMMENT_LINE, min_size=1, max_size=3), WS).map(lambda p: "".join(p[0]) + p[1]))
# what stands after the comment tail (after a line break nothing extends the document): bytes, a numeral, a literal, a second document
AFTER_COMMENT = st.one_of(
    st.tuples(st.sampled_from(_GARBAGE_FIRST), st.binary(max_size=3)).map(lambda p: (bytes([p[0]]) + p[1]).hex()),
    st.sampled_from(["2", "0", "-1", "null", "true", "x", "}", "]", ",", '"a"', "[]", "{}", "/", "/ /", "/*", "*/", "#", "\\"]).map(lambda t: t.encode().hex()),
    st.deferred(lambda: value_tokens(1)).map(lambda toks: render(toks).encode("ascii").hex()),
)
_TAIL_RE = re.compile(r"(?:[ \t\n\r]*//[^\n\r]*[\n\r])+[ \t\n\r]*\Z")

grammar_cases = st.fixed_dictionaries({
    "toks": st.one_of(container_tokens(4), container_tokens(3), container_tokens(2), leaf_tokens(), nested_tokens(), bulk_doc_tokens()),
    "lead": WS, "trail": WS,
    "suffix": st.tuples(st.sampled_from(_NON_EXT), st.binary(max_size=4)).map(lambda p: (bytes([p[0]]) + p[1]).hex()),
    "garbage": st.tuples(st.sampled_from(_GARBAGE_FIRST), st.binary(max_size=3)).map(lambda p: (bytes([p[0]]) + p[1]).hex()),
    "ctail": COMMENT_TAIL, "after": AFTER_COMMENT,
})


def run_grammar(case, rt):
    core = render(case["toks"])
    lead, trail = case["lead"], case["trail"]
    suffix, garbage = bytes.fromhex(case["suffix"]), bytes.fromhex(case["garbage"])
    doc = lead + core + trail
    try:
        want = py_load(doc)
    except (ValueError, RecursionError) as e:
        raise hc.Fail("harness-generator-not-standard", "json.loads refuses the generated document %r: %s" % (doc[:200], e))
    docb = doc.encode("ascii")
    (ok, dom, rtree, vend), = ref_many(rt, [docb])
    hc.vcheck(ok and dom, "harness-refjson-vs-python", "the harness reader refuses / excludes %r which json.loads reads" % doc[:200])
    r = compare(rtree, want)
    hc.vcheck(r is None, "harness-refjson-vs-python", "harness reader and json.loads differ on %r: %s" % (doc[:200], r))
    hc.vcheck(vend == len(lead + core), "harness-refjson-vs-python", "harness reader reports value end %d, expected %d" % (vend, len(lead + core)))
    for strict in (False, True):
        mode = "strict" if strict else "default"
        for entry in (READER, PTR, STRING):
            res = call_parse(rt, docb, strict, entry)
            if res[0] != "ok":
                raise hc.Fail("rejects-standard-document:%s" % mode, "JSON::parse(%s, %s) throws %s (%s) on %r" % (ENTRY_NAMES[entry], mode, res[1], res[2], doc[:200]))
            r = compare(res[1], want)
            if r:
                raise hc.Fail("value:%s:%s" % (r[0], mode), "JSON::parse(%s, %s) on %r: %s" % (ENTRY_NAMES[entry], mode, doc[:200], r[1]))
            if entry == READER:
                hc.vcheck(res[2] == len(lead + core), "reader-extent:%s" % mode, "reader stopped at %d, value ends at %d in %r" % (res[2], len(lead + core), doc[:200]))
        # reader entry point followed by a non-extending byte
        t = (lead + core).encode("ascii") + suffix
        res = call_parse(rt, t, strict, READER)
        hc.vcheck(res[0] == "ok", "reader-extent:%s" % mode, "reader entry point throws on %r" % t[:200])
        r = compare(res[1], want)
        hc.vcheck(r is None, "reader-extent:%s" % mode, "value differs when followed by %r: %s" % (suffix, r))
        hc.vcheck(res[2] == len(lead + core), "reader-extent:%s" % mode, "reader stopped at %d, value ends at %d in %r" % (res[2], len(lead + core), t[:200]))
        # string entry points: trailing whitespace accepted (above), anything else rejected
        t = docb + garbage
        for entry in (PTR, STRING):
            res = call_parse(rt, t, strict, entry)
            hc.vcheck(res[0] == "reject", "trailing-garbage-accepted:%s" % mode, "JSON::parse(%s) accepted %r" % (ENTRY_NAMES[entry], t[:200]))
    ctail = case.get("ctail", "")
    if ctail:
        # whitespace + complete // comment lines after the document, then data after the last comment's line break
        after = bytes.fromhex(case["after"])
        if not _TAIL_RE.match(ctail) or not after or after[:1] in b" \t\n\r" or after[:2] == b"//":
            raise hc.Fail("harness-generator-not-standard", "bad comment tail %r / data %r" % (ctail, after))
        t = docb + ctail.encode("ascii")
        for strict in (False, True):
            mode = "strict" if strict else "default"
            for entry in (PTR, STRING):
                res = call_parse(rt, t, strict, entry)
                if strict:
                    hc.vcheck(res[0] == "reject", "ext-strict-accepts:comment:trailing", "strict mode (%s) accepts the // comment after the document in %r" % (ENTRY_NAMES[entry], t[-200:]))
                else:
                    hc.vcheck(res[0] == "ok", "trailing-comment-rejected", "default mode (%s) rejects a document followed by whitespace and // comment lines only: %r: %s" % (ENTRY_NAMES[entry], t[-200:], res[1:]))
                    r = compare(res[1], want)
                    hc.vcheck(r is None, "ext-default-meaning:comment:trailing", "default mode value differs when // comment lines follow the document %r: %s" % (t[-200:], r))
                res = call_parse(rt, t + after, strict, entry)
                hc.vcheck(res[0] == "reject", "trailing-garbage-accepted:after-comment:%s" % mode,
                          "JSON::parse(%s) accepted the data %r that stands after the line break ending the // comment: %r" % (ENTRY_NAMES[entry], after[:40], (t + after)[-200:]))
        rt.cls("py:followed by // comment lines (then by data)")
    depth = max_depth(want)
    if depth >= 2 and any(k in core for k in (".", "e", "E", "\\")):
        rt.nontrivial()
    rt.cls("py:depth>=100" if depth >= 100 else "py:depth 2-99" if depth >= 2 else "py:depth<2")
    if len(doc) > 1000 and depth < 100:
        rt.cls("py:>1000 bytes with bulk structural characters inside strings")
    if any(t[0] == "num" and re.search(r"[0-9][eE][+-]?0[0-9]", t[1]) for t in case["toks"]):
        rt.cls("py:exponent spelled with leading zeros")
    rt.count(15)


def max_depth(v):
    # iterative (documents nest up to 500)
    best, stack = 0, [(v, 0)]
    while stack:
        x, d = stack.pop()
        if isinstance(x, list):
            best = max(best, d + 1)
            stack += [(y, d + 1) for y in x]
        elif isinstance(x, dict):
            best = max(best, d + 1)
            stack += [(y, d + 1) for y in x.values()]
    return best


# ---------------------------------------------------------------- extensions

EXT_NAMES = ["trailing-comma", "hex-integer", "one-letter-constant", "comment"]


@st.composite
def ext_cases(draw):
    is_dict = draw(st.booleans())
    n = draw(st.integers(2, 5))
    int_at = draw(st.integers(0, n - 1))
    lit_at = (int_at + 1 + draw(st.integers(0, n - 2))) % n
    toks = [["punct", "{" if is_dict else "["]]
    for j in range(n):
        if j:
            toks.append(["punct", ","])
        toks.append(["ws", draw(WS)])
        if is_dict:
            toks += [["str", '"' + draw(string_body()) + str(j) + '"'], ["ws", draw(WS)], ["punct", ":"], ["ws", draw(WS)]]
        if j == int_at:
            toks.append(draw(int_token()))
        elif j == lit_at:
            toks.append(["lit", draw(st.sampled_from(["null", "true", "false"]))])
        else:
            toks += draw(value_tokens(2))
        toks.append(["ws", draw(WS)])
    toks.append(["close+", "}" if is_dict else "]"])
    ext = draw(st.sampled_from([0, 1, 2, 3]))
    if ext == 0:
        cand = [k for k, t in enumerate(toks) if t[0] == "close+"]
    elif ext == 1:
        cand = [k for k, t in enumerate(toks) if t[0] == "int"]
    elif ext == 2:
        cand = [k for k, t in enumerate(toks) if t[0] == "lit"]
    else:
        cand = list(range(len(toks) + 1))
    at = draw(st.sampled_from(cand))
    out = [list(t) for t in toks]
    inside = True
    if ext == 0:
        out.insert(at, ["punct", "," + draw(WS)])
    elif ext == 1:
        v = int(toks[at][1])
        h = "%x" % abs(v)
        h = "".join(c.upper() if draw(st.booleans()) else c for c in h)
        out[at][1] = ("-" if v < 0 else "") + "0x" + h
    elif ext == 2:
        out[at][1] = toks[at][1][0]
    else:
        body = draw(st.text(alphabet='abc \t"[]{},:/\\019*#', max_size=8))
        at_end = at == len(toks)
        term = "" if (at_end and draw(st.booleans())) else draw(st.sampled_from(["\n", "\r"]))
        out.insert(at, ["ws", "//" + body + term])
        inside = 0 < at < len(toks)
    return {"ext": ext, "inside": inside, "original": render(toks), "injected": render(out)}


def run_ext(case, rt):
    name = EXT_NAMES[case["ext"]]
    original, injected = case["original"], case["injected"]
    want = py_load(original)
    try:
        py_load(injected)
        raise hc.Fail("harness-generator-not-standard", "the injected document %r is still standard JSON" % injected[:200])
    except ValueError:
        pass
    inj = injected.encode("ascii")
    for entry in (READER, PTR, STRING):
        res = call_parse(rt, inj, False, entry)
        hc.vcheck(res[0] == "ok", "ext-default-rejects:" + name, "default mode (%s) rejects %r: %s" % (ENTRY_NAMES[entry], injected[:200], res[1:]))
        r = compare(res[1], want)
        hc.vcheck(r is None, "ext-default-meaning:" + name, "default mode reads %r differently from %r: %s" % (injected[:200], original[:200], r))
    for entry in (READER, PTR, STRING):
        if entry == READER and not case["inside"]:
            continue
        res = call_parse(rt, inj, True, entry)
        hc.vcheck(res[0] == "reject", "ext-strict-accepts:" + name, "strict mode (%s) accepts %r" % (ENTRY_NAMES[entry], injected[:200]))
    rt.nontrivial()
    rt.cls("py:ext:" + name)
    rt.count(5)


# ---------------------------------------------------------------- prefixes and single-byte edits

EDIT_ALPHABET = b"{}[],:\"\\/019-+.eExntfu a\n\x00\x80\xff"   # = c5::edit_alphabet()


def all_edits(doc):
    out = [doc[:n] for n in range(len(doc))]
    out += [doc[:k] + doc[k + 1:] for k in range(len(doc))]
    for k in range(len(doc)):
        for c in EDIT_ALPHABET:
            if doc[k] != c:
                out.append(doc[:k] + bytes([c]) + doc[k + 1:])
    for k in range(len(doc) + 1):
        for c in EDIT_ALPHABET:
            out.append(doc[:k] + bytes([c]) + doc[k:])
    return out


def run_edits(case, rt):
    doc = render(case["toks"]).encode("ascii")
    if len(doc) > 160:
        doc = doc[:160]          # a prefix is an edit too; keeps the cost per case bounded
    status, blobs = rt.shim.call("edits", doc)
    hc.vcheck(status == "ok", "harness-edit-oracle-crashed", status)
    if blobs[0]:
        raise hc.Fail(blobs[0].decode("latin-1"), blobs[1].decode("latin-1"))
    n_texts = struct.unpack("<Q", blobs[2])[0]
    # the reference reader used by that oracle against json.loads, on every one of those texts
    texts = all_edits(doc)
    std = 0
    for base in range(0, len(texts), 512):
        chunk = texts[base:base + 512]
        for t, (ok, dom, rtree, vend) in zip(chunk, ref_many(rt, chunk)):
            try:
                raw = json.loads(t.decode("latin-1"), object_pairs_hook=Pairs, parse_constant=_bad_constant)
                py_ok = True
            except (ValueError, RecursionError):
                py_ok = False
            if py_ok != ok:
                raise hc.Fail("harness-refjson-vs-python", "harness reader %s, json.loads %s: %r" % ("accepts" if ok else "rejects", "accepts" if py_ok else "rejects", t[:200]))
            if ok and dom:
                # inside the domain there are no duplicate keys and no characters above U+00FF
                std += 1
                r = compare(rtree, py_convert(raw))
                if r:
                    raise hc.Fail("harness-refjson-vs-python", "harness reader and json.loads differ on %r: %s" % (t[:200], r))
    rt.cls("py:edit-texts", len(texts))
    rt.cls("py:edit-texts-that-are-standard-documents", std)
    if len(doc) >= 6 and doc[:1] in (b"[", b"{"):
        rt.nontrivial()
    rt.count(max(0, n_texts - 1))


edit_cases = st.fixed_dictionaries({"toks": st.one_of(container_tokens(2), container_tokens(1), value_tokens(1), value_tokens(0))})

CHECKS = [
    hc.Check("py_grammar", run_grammar, grammar_cases, quick_cases=3000, thorough_cases=60000),
    hc.Check("py_ext", run_ext, ext_cases(), quick_cases=1600, thorough_cases=40000),
    hc.Check("py_edits", run_edits, edit_cases, quick_cases=160, thorough_cases=2400),
]

if __name__ == "__main__":
    sys.exit(hc.main(CHECKS))
