"""Runtime for Python-side property drivers (Hypothesis + a reference implementation in Python).

A driver implements the same command line and result-file protocol as the C++ harnesses
(harness/verif.hh), so run/check.py treats both alike:

    driver.py [--shim EXE] --tier quick|thorough --seed N --shard K --nshards M --out DIR --known-file F [--only NAME]
    driver.py [--shim EXE] --replay FILE       -> prints REPLAY-PASS / REPLAY-FAIL sig=... ; exit 0 / 1

A case is any JSON-serialisable value (bytes are carried as {"hex": "..."} - use enc()/dec()).
Replay/journal text:  "check=<name>\n<json>\n".
"""
import argparse
import hashlib
import json
import os
import re
import struct
import subprocess
import sys
import time

from hypothesis import HealthCheck, Phase, Verbosity, given, seed, settings


class Fail(Exception):
    def __init__(self, sig, msg=""):
        Exception.__init__(self, "%s: %s" % (sig, msg))
        self.sig = sig
        self.msg = msg


class ShimCrash(Exception):
    pass


def enc(b):
    return {"hex": bytes(b).hex()}


def dec(o):
    return bytes.fromhex(o["hex"])


def vcheck(cond, sig, msg=""):
    if not cond:
        raise Fail(sig, msg)


class Shim:
    """C++ serve shim: length-prefixed blobs over a pipe. request = [op, blob...]; response = [status, blob...]
    with status b"ok" or b"exc:<typeid name>:<what>"."""

    def __init__(self, exe, logdir, tag):
        self.exe = exe
        self.log_path = os.path.join(logdir, "shim-%s.log" % tag)
        self.p = None
        self.restarts = 0

    def start(self):
        env = dict(os.environ)
        self.log = open(self.log_path, "ab")
        self.p = subprocess.Popen([self.exe], stdin=subprocess.PIPE, stdout=subprocess.PIPE, stderr=self.log, env=env)

    def stop(self):
        if self.p:
            try:
                self.p.stdin.close()
                self.p.wait(timeout=20)
            except Exception:
                self.p.kill()
            self.p = None

    def _read(self, n):
        # a shim that does not answer within 300 s is treated as hung: it is killed and the request reported
        import select
        buf = b""
        fd = self.p.stdout.fileno()
        while len(buf) < n:
            r, _, _ = select.select([fd], [], [], 300)
            if not r:
                self.p.kill()
                self.log.write(b"\nVERIF-ABORT: shim-hang (no answer within 300 s)\n")
                raise EOFError()
            chunk = os.read(fd, n - len(buf))
            if not chunk:
                raise EOFError()
            buf += chunk
        return buf

    def call(self, op, *blobs):
        """Returns (status:str, [blobs]). Raises ShimCrash when the shim dies (sanitizer abort...)."""
        if self.p is None:
            self.start()
        parts = [op.encode() if isinstance(op, str) else op] + [bytes(b) for b in blobs]
        msg = struct.pack("<I", len(parts)) + b"".join(struct.pack("<I", len(b)) + b for b in parts)
        try:
            self.p.stdin.write(msg)
            self.p.stdin.flush()
            (n,) = struct.unpack("<I", self._read(4))
            out = []
            for _ in range(n):
                (ln,) = struct.unpack("<I", self._read(4))
                out.append(self._read(ln))
        except (EOFError, BrokenPipeError, OSError):
            rc = None
            try:
                rc = self.p.wait(timeout=30)
            except Exception:
                self.p.kill()
            self.p = None
            self.restarts += 1
            self.log.flush()
            try:
                with open(self.log_path, "rb") as f:
                    tail = f.read()[-6000:].decode("latin-1")
            except OSError:
                tail = ""
            raise ShimCrash("shim exited with %s\n%s" % (rc, tail))
        return out[0].decode("latin-1"), out[1:]


def sanitizer_summary(text):
    m = re.search(r"VERIF-ABORT: ([\w-]+)", text)
    if m:
        return "abort:" + m.group(1)
    m = re.search(r"SUMMARY: (\w+Sanitizer): ([\w-]+)", text)
    if m:
        return "%s:%s" % (m.group(1), m.group(2))
    m = re.search(r"runtime error: ([^\n]{0,80})", text)
    if m:
        return "UBSan:" + re.sub(r"[^A-Za-z0-9_.-]+", "_", m.group(1))[:60]
    return "exit"


class Check:
    def __init__(self, name, run, strategy=None, quick_cases=0, thorough_cases=0, enumerate=None):
        self.name = name
        self.run = run                # run(case, rt) -> None, raises Fail
        self.strategy = strategy      # hypothesis strategy producing JSON-serialisable cases
        self.quick_cases = quick_cases
        self.thorough_cases = thorough_cases
        self.enumerate = enumerate    # enumerate(rt, exec_fn) for exhaustive parts


class Runtime:
    def __init__(self):
        self.tier = "quick"
        self.seed = 0
        self.shard = 0
        self.nshards = 1
        self.out = "."
        self.known = set()
        self.only = None
        self.shim = None
        self.evaluations = 0
        self.nontrivial_set = set()
        self.classes = {}
        self.excluded = {}
        self.per_check = {}
        self.exhaustive = {}
        self.samples = []
        self.notes = []
        self.failures = {}
        self.last_case = None
        self._cur_text = None
        self._journal = None

    # ---- bookkeeping used by run() functions
    def thorough(self):
        return self.tier == "thorough"

    def mine(self, i):
        return i % self.nshards == self.shard

    def cls(self, label, k=1):
        self.classes[label] = self.classes.get(label, 0) + k

    def exclude(self, why, k=1):
        self.excluded[why] = self.excluded.get(why, 0) + k

    def nontrivial(self, key=None):
        """Mark the current case (or an explicit key) as non-trivial; distinctness by 64-bit hash."""
        text = self._cur_text if key is None else repr(key)
        h = int.from_bytes(hashlib.blake2b(text.encode("latin-1", "replace"), digest_size=8).digest(), "little")
        if len(self.nontrivial_set) < 3000000:
            self.nontrivial_set.add(h)

    def count(self, k):
        self.evaluations += k

    def journal(self, text):
        if self._journal is None:
            return
        data = text.encode("latin-1", "replace")
        self._journal.seek(0)
        self._journal.write(b"%010d\n" % len(data) + data)
        self._journal.flush()

    # ---- executing one case
    def exec(self, chk, case):
        text = "check=%s\n%s\n" % (chk.name, json.dumps(case, sort_keys=True))
        self.journal(text)
        self._cur_text = text
        self.evaluations += 1
        n = self.per_check[chk.name] = self.per_check.get(chk.name, 0) + 1
        if n <= 2 or (n & (n - 1)) == 0:
            if len(self.samples) < 40:
                self.samples.append(text[:600])
        self.last_case = text
        sig = msg = None
        try:
            chk.run(case, self)
        except Fail as f:
            sig, msg = "%s/%s" % (chk.name, f.sig), f.msg
        except ShimCrash as e:
            sig, msg = "%s/crash:%s" % (chk.name, sanitizer_summary(str(e))), str(e)[-3000:]
        if sig is None:
            return True
        if sig in self.known:
            self.exclude("known-finding:" + sig)
            return True
        fr = self.failures.setdefault(sig, {"sig": sig, "msg": "", "case": "", "count": 0})
        fr["msg"] = msg[:2000]
        fr["case"] = text
        fr["count"] += 1
        return False

    def write_results(self):
        data = {
            "shard": self.shard, "nshards": self.nshards, "tier": self.tier, "seed": self.seed,
            "evaluations": self.evaluations, "distinct_nontrivial": len(self.nontrivial_set),
            "distinct_capped": len(self.nontrivial_set) >= 3000000,
            "classes": self.classes, "excluded": self.excluded, "per_check_evaluations": self.per_check,
            "exhaustive": self.exhaustive, "samples": self.samples + ([self.last_case[:600]] if self.last_case else []),
            "notes": self.notes, "failures": list(self.failures.values()),
        }
        path = os.path.join(self.out, "shard%d.json" % self.shard)
        with open(path + ".tmp", "w") as f:
            json.dump(data, f)
        os.rename(path + ".tmp", path)
        with open(os.path.join(self.out, "shard%d.hashes" % self.shard), "wb") as f:
            f.write(b"".join(struct.pack("<Q", h) for h in self.nontrivial_set))


def random_search(rt, chk, cases):
    if chk.strategy is None or cases <= 0:
        return
    s = int.from_bytes(hashlib.blake2b(("%d/%d/%s" % (rt.seed, rt.shard, chk.name)).encode(), digest_size=8).digest(), "little")

    @settings(max_examples=cases, database=None, deadline=None, report_multiple_bugs=False,
              suppress_health_check=list(HealthCheck), verbosity=Verbosity.quiet,
              phases=[Phase.generate, Phase.shrink])
    @seed(s)
    @given(chk.strategy)
    def prop(case):
        ok = rt.exec(chk, case)
        assert ok, "oracle failure"

    try:
        prop()
    except AssertionError:
        pass  # recorded by rt.exec; the last failing execution is the shrunk example
    except Exception as e:  # generator / infrastructure problem
        if "oracle failure" in str(e):
            return
        rt.failures["INFRA/%s/hypothesis" % chk.name] = {"sig": "INFRA/%s/hypothesis" % chk.name, "msg": repr(e)[:2000], "case": "", "count": 1}


def main(checks, argv=None):
    ap = argparse.ArgumentParser()
    ap.add_argument("--shim")
    ap.add_argument("--tier", default="quick")
    ap.add_argument("--seed", type=int, default=0)
    ap.add_argument("--shard", type=int, default=0)
    ap.add_argument("--nshards", type=int, default=1)
    ap.add_argument("--out", default=".")
    ap.add_argument("--known-file")
    ap.add_argument("--only")
    ap.add_argument("--cases", type=int, default=-1)
    ap.add_argument("--replay")
    a = ap.parse_args(argv)
    rt = Runtime()
    rt.tier, rt.seed, rt.shard, rt.nshards, rt.out, rt.only = a.tier, a.seed, a.shard, a.nshards, a.out, a.only
    os.makedirs(rt.out, exist_ok=True)
    if a.shim:
        rt.shim = Shim(a.shim, rt.out if not a.replay else os.path.dirname(os.path.abspath(a.replay)), "%d" % a.shard if not a.replay else "replay")
    if a.known_file and os.path.exists(a.known_file):
        rt.known = {l.strip() for l in open(a.known_file) if l.strip()}

    if a.replay:
        lines = [l for l in open(a.replay, encoding="latin-1").read().split("\n") if l and not l.startswith("#")]
        name = lines[0][len("check="):]
        case = json.loads("\n".join(lines[1:]))
        rt.known = set()
        for chk in checks:
            if chk.name == name:
                ok = rt.exec(chk, case)
                if rt.shim:
                    rt.shim.stop()
                if ok:
                    print("REPLAY-PASS check=%s" % name)
                    return 0
                for fr in rt.failures.values():
                    print("REPLAY-FAIL sig=%s msg=%s" % (fr["sig"], fr["msg"].replace("\n", " | ")[:1500]))
                return 1
        sys.stderr.write("replay: no check named %r\n" % name)
        return 2

    rt._journal = open(os.path.join(rt.out, "shard%d.current" % rt.shard), "wb")
    for chk in checks:
        if rt.only and not chk.name.startswith(rt.only):
            continue
        if chk.enumerate:
            chk.enumerate(rt, lambda case, _c=chk: rt.exec(_c, case))
            rt.write_results()
        if chk.strategy is not None:
            total = a.cases if a.cases >= 0 else (chk.thorough_cases if rt.thorough() else chk.quick_cases)
            mine = total // rt.nshards + (1 if (total % rt.nshards) > rt.shard else 0)
            random_search(rt, chk, mine)
            rt.write_results()
    rt.journal("")
    rt.write_results()
    if rt.shim:
        rt.shim.stop()
    return 0
