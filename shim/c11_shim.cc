// Serve shim for oracle/c11_text.py: exposes the C11 text-encoding functions of phosg over the blob protocol.
//   b64enc  <alphabet kind: 1 byte '0' default | '1' DEFAULT_ALPHABET | '2' URLSAFE_ALPHABET> <data>   -> <text>
//   b64dec  <alphabet kind> <text>                                                                       -> <data>   (or exc:)
//   rot13   <data>                                                                                       -> <data>
//   escurl  <flag '0'|'1'> <data>                                                                        -> <text>
//   escctl  <flag '0'|'1'> <data>                                                                        -> <text>
//   escquo  <data>                                                                                       -> <text>
//   netloc  <host> <port u64> <default u64>                              -> <rendered text> <parsed host> <parsed port u64>
#include <phosg/Encoding.hh>
#include <phosg/Network.hh>
#include <phosg/Strings.hh>

#include "shim.hh"

static const char* alphabet(const std::string& k) {
  if (k == "0") return nullptr;
  if (k == "1") return phosg::DEFAULT_ALPHABET;
  if (k == "2") return phosg::URLSAFE_ALPHABET;
  throw std::logic_error("shim: bad alphabet kind");
}

int main() {
  // "decoding throws invalid_argument": a type derived from it is an invalid_argument
  shim::exception_namer() = [](const std::exception& e) -> std::string {
    if (dynamic_cast<const std::invalid_argument*>(&e)) return typeid(std::invalid_argument).name();
    return typeid(e).name();
  };
  return shim::serve([](const shim::Blobs& req) -> shim::Blobs {
    const std::string& op = req.at(0);
    if (op == "b64enc") return {phosg::base64_encode(req.at(2), alphabet(req.at(1)))};
    if (op == "b64dec") return {phosg::base64_decode(req.at(2), alphabet(req.at(1)))};
    if (op == "rot13") return {phosg::rot13(req.at(1).data(), req.at(1).size())};
    if (op == "escurl") return {phosg::escape_url(req.at(2), req.at(1) == "1")};
    if (op == "escctl") return {phosg::escape_controls(req.at(2), req.at(1) == "1")};
    if (op == "escquo") return {phosg::escape_quotes(req.at(1))};
    if (op == "netloc") {
      std::string text = phosg::render_netloc(req.at(1), static_cast<int>(shim::get_u64(req.at(2))));
      auto p = phosg::parse_netloc(text, static_cast<int>(shim::get_u64(req.at(3))));
      return {text, p.first, shim::put_u64(p.second)};
    }
    throw std::logic_error("shim: unknown operation " + op);
  });
}
