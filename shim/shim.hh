// shim.hh - serve loop for C++ shims driven by the Python (Hypothesis) drivers.
// Wire format (both directions): u32 count, then `count` blobs each as u32 length + bytes (little endian).
// Request blob 0 is the operation name. Response blob 0 is "ok" or "exc:<typeid name>:<what>".
#pragma once
#include <stdint.h>
#include <stdio.h>
#include <string.h>
#include <unistd.h>

#include <functional>
#include <stdexcept>
#include <string>
#include <typeinfo>
#include <vector>

namespace shim {

typedef std::vector<std::string> Blobs;

inline bool read_exact(int fd, void* p, size_t n) {
  char* c = static_cast<char*>(p);
  while (n) {
    ssize_t r = ::read(fd, c, n);
    if (r <= 0) return false;
    c += r;
    n -= r;
  }
  return true;
}
inline void write_all(int fd, const void* p, size_t n) {
  const char* c = static_cast<const char*>(p);
  while (n) {
    ssize_t r = ::write(fd, c, n);
    if (r <= 0) _exit(3);
    c += r;
    n -= r;
  }
}

inline uint64_t get_u64(const std::string& s) {
  uint64_t v = 0;
  memcpy(&v, s.data(), s.size() < 8 ? s.size() : 8);
  return v;
}
inline std::string put_u64(uint64_t v) { return std::string(reinterpret_cast<const char*>(&v), 8); }

// handler: (request blobs) -> response blobs (without the status blob). Exceptions derived from
// std::exception are reported as "exc:<typeid>:<what>"; anything else is reported as "exc:unknown:".
// How an exception is named in the status. A property that says "throws X" is satisfied by any type derived from X:
// a shim whose Python side compares the name installs a function here that maps every exception that IS-A X to X's
// name (the default is the dynamic type's own name).
inline std::function<std::string(const std::exception&)>& exception_namer() {
  static std::function<std::string(const std::exception&)> f = [](const std::exception& e) { return std::string(typeid(e).name()); };
  return f;
}

inline int serve(const std::function<Blobs(const Blobs&)>& handler) {
  // keep the protocol on private descriptors so that code under test printing to stdout cannot corrupt it
  int in = dup(0), out = dup(1);
  dup2(2, 1);
  while (true) {
    uint32_t n;
    if (!read_exact(in, &n, 4)) return 0;
    Blobs req(n);
    for (uint32_t i = 0; i < n; i++) {
      uint32_t len;
      if (!read_exact(in, &len, 4)) return 0;
      req[i].resize(len);
      if (len && !read_exact(in, req[i].data(), len)) return 0;
    }
    Blobs resp;
    std::string status = "ok";
    try {
      resp = handler(req);
    } catch (const std::exception& e) {
      status = std::string("exc:") + exception_namer()(e) + ":" + e.what();
      resp.clear();
    } catch (...) {
      status = "exc:unknown:";
      resp.clear();
    }
    std::string buf;
    uint32_t cnt = static_cast<uint32_t>(resp.size() + 1);
    buf.append(reinterpret_cast<const char*>(&cnt), 4);
    uint32_t sl = static_cast<uint32_t>(status.size());
    buf.append(reinterpret_cast<const char*>(&sl), 4);
    buf += status;
    for (const auto& b : resp) {
      uint32_t bl = static_cast<uint32_t>(b.size());
      buf.append(reinterpret_cast<const char*>(&bl), 4);
      buf += b;
    }
    write_all(out, buf.data(), buf.size());
  }
}

} // namespace shim
