// C04 serve shim: builds a phosg::JSON value from a wire-encoded tree (public constructors only) and serializes it.
//   ser   [wire tree, u64 option mask]            -> [text]
//   rt    [wire tree, u64 option mask, u64 strict] -> [wire tree of JSON::parse(serialize(v, mask), strict)]
#include <phosg/JSON.hh>

#include "c04/tree.hh"
#include "shim.hh"

int main() {
  return shim::serve([](const shim::Blobs& req) -> shim::Blobs {
    const std::string& op = req.at(0);
    if (op == "ser") {
      jt::Node n = jt::unwire(req.at(1));
      phosg::JSON v = jt::build(n);
      return {v.serialize(static_cast<uint32_t>(shim::get_u64(req.at(2))))};
    }
    if (op == "rt") {
      jt::Node n = jt::unwire(req.at(1));
      phosg::JSON v = jt::build(n);
      std::string t = v.serialize(static_cast<uint32_t>(shim::get_u64(req.at(2))));
      phosg::JSON p = phosg::JSON::parse(t, shim::get_u64(req.at(3)) != 0);
      return {jt::wire(jt::from_json(p))};
    }
    throw std::logic_error("c04_shim: unknown op " + op);
  });
}
