// C10 serve shim: computes every phosg hash of the request so that oracle/c10_hashes.py can compare with hashlib / zlib.
//   "hash"  data, seeds(crc u32 | fnv32 u32 | fnv64 u64 = 16 bytes) [, ambient u64: process state in force while phosg computes
//           and renders, see harness/c10/ambient.hh]
//           -> md5.bin md5.hex sha1.bin sha1.hex sha256.bin sha256.hex  u64{crc32, fnv1a32, fnv1a64, crc32(seed), fnv1a32(seed), fnv1a64(seed)}
//   "chain" a, b -> u64{crc32(b, crc32(a)), fnv1a32(b, fnv1a32(a)), fnv1a64(b, fnv1a64(a))}
#include <phosg/Hash.hh>

#include "../harness/c10/ambient.hh"
#include "../shim/shim.hh"

using namespace shim;

int main() {
  return serve([](const Blobs& req) -> Blobs {
    if (req.empty()) throw std::logic_error("empty request");
    const std::string& op = req[0];
    Blobs out;
    if (op == "hash") {
      const std::string& d = req.at(1);
      const std::string& seeds = req.at(2);
      if (seeds.size() != 16) throw std::logic_error("bad seeds blob");
      uint32_t cs, s32;
      uint64_t s64;
      memcpy(&cs, seeds.data(), 4);
      memcpy(&s32, seeds.data() + 4, 4);
      memcpy(&s64, seeds.data() + 8, 8);
      uint64_t ambient = req.size() > 3 ? get_u64(req[3]) : 0;
      // exactly sized heap copy: ASan sees an over-read
      std::vector<char> copy(d.begin(), d.end());
      c10::Ambient guard(ambient); // restored before the reply is written
      phosg::MD5 m(copy.data(), copy.size());
      phosg::SHA1 s1(copy.data(), copy.size());
      phosg::SHA256 s2(copy.data(), copy.size());
      out.push_back(m.bin());
      out.push_back(m.hex());
      out.push_back(s1.bin());
      out.push_back(s1.hex());
      out.push_back(s2.bin());
      out.push_back(s2.hex());
      out.push_back(put_u64(phosg::crc32(copy.data(), copy.size())));
      out.push_back(put_u64(phosg::fnv1a32(copy.data(), copy.size())));
      out.push_back(put_u64(phosg::fnv1a64(copy.data(), copy.size())));
      out.push_back(put_u64(phosg::crc32(copy.data(), copy.size(), cs)));
      out.push_back(put_u64(phosg::fnv1a32(d, s32)));
      out.push_back(put_u64(phosg::fnv1a64(d, s64)));
    } else if (op == "chain") {
      const std::string& a = req.at(1);
      const std::string& b = req.at(2);
      out.push_back(put_u64(phosg::crc32(b.data(), b.size(), phosg::crc32(a.data(), a.size()))));
      out.push_back(put_u64(phosg::fnv1a32(b, phosg::fnv1a32(a))));
      out.push_back(put_u64(phosg::fnv1a64(b, phosg::fnv1a64(a))));
    } else {
      throw std::logic_error("unknown op");
    }
    return out;
  });
}
