// C18 serve shim: batches of format_time / format_duration / format_size calls for oracle/c18_time.py.
//   "time"     blob of u64 timestamps                      -> one blob: results joined by '\n'
//   "duration" blob of (u64 usecs, u64 precision) pairs    -> one blob: results joined by '\n' ("!exc:<type>:<what>" per throwing call)
//   "size"     blob of (u64 size, u64 include_bytes) pairs -> two blobs: texts joined by '\n', parse_size(text) as u64 array
#include <phosg/Strings.hh>
#include <phosg/Time.hh>

#include "../shim/shim.hh"

using namespace shim;

static std::vector<uint64_t> words(const std::string& b) {
  std::vector<uint64_t> v(b.size() / 8);
  if (!v.empty()) memcpy(v.data(), b.data(), v.size() * 8);
  return v;
}

int main() {
  return serve([](const Blobs& req) -> Blobs {
    if (req.size() < 2) throw std::logic_error("bad request");
    const std::string& op = req[0];
    std::vector<uint64_t> w = words(req[1]);
    Blobs out;
    std::string joined;
    if (op == "time") {
      for (size_t i = 0; i < w.size(); i++) {
        if (i) joined += '\n';
        joined += phosg::format_time(w[i]);
      }
      out.push_back(joined);
    } else if (op == "duration") {
      for (size_t i = 0; i + 1 < w.size(); i += 2) {
        if (i) joined += '\n';
        try {
          joined += phosg::format_duration(w[i], static_cast<int8_t>(static_cast<int64_t>(w[i + 1])));
        } catch (const std::exception& e) {
          joined += std::string("!exc:") + typeid(e).name() + ":" + e.what();
        }
      }
      out.push_back(joined);
    } else if (op == "size") {
      std::string parsed;
      for (size_t i = 0; i + 1 < w.size(); i += 2) {
        if (i) joined += '\n';
        std::string t = phosg::format_size(w[i], w[i + 1] != 0);
        joined += t;
        parsed += put_u64(phosg::parse_size(t.c_str()));
      }
      out.push_back(joined);
      out.push_back(parsed);
    } else {
      throw std::logic_error("unknown op");
    }
    return out;
  });
}
