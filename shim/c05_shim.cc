// C05 serve shim.
//   parse   [text, u64 flags: bit0 strict, bits1-2 entry (0 reader, 1 ptr+size, 2 string)] -> [wire tree, u64 where()]
//           (exceptions are reported by shim::serve as exc:<typeid>:<what>)
//   ref     [text...] -> per text [u64 flags: bit0 standard document, bit1 inside the C05 domain; wire tree or ""; u64 value_end]
//           (the harness's own RFC 8259 reader, so that the Python driver can check it against json.loads)
//   check   [text] -> [sig, msg]      the complete oracle of harness/c05/oracle.hh for one text ("" = holds)
//   edits   [doc]  -> [sig, msg, u64 texts]   ... for every proper prefix and single-byte edit of doc
#include <phosg/JSON.hh>
#include <phosg/Strings.hh>

#include "c05/oracle.hh"
#include "shim.hh"

int main() {
  // "throws only the documented parse_error or out_of_range": a type derived from one of them is one of them
  shim::exception_namer() = [](const std::exception& e) -> std::string {
    if (dynamic_cast<const phosg::JSON::parse_error*>(&e)) return typeid(phosg::JSON::parse_error).name();
    if (dynamic_cast<const std::out_of_range*>(&e)) return typeid(std::out_of_range).name();
    return typeid(e).name();
  };
  return shim::serve([](const shim::Blobs& req) -> shim::Blobs {
    const std::string& op = req.at(0);
    if (op == "parse") {
      const std::string& text = req.at(1);
      uint64_t flags = shim::get_u64(req.at(2));
      bool strict = flags & 1;
      unsigned entry = (flags >> 1) & 3;
      std::unique_ptr<char[]> exact(new char[text.size()]);
      if (!text.empty()) memcpy(exact.get(), text.data(), text.size());
      phosg::StringReader rd(exact.get(), text.size());
      phosg::JSON j;
      if (entry == 0) j = phosg::JSON::parse(rd, strict);
      else if (entry == 1) j = phosg::JSON::parse(exact.get(), text.size(), strict);
      else j = phosg::JSON::parse(text, strict);
      return {jt::wire(jt::from_json(j)), shim::put_u64(entry == 0 ? rd.where() : text.size())};
    }
    if (op == "ref") {
      shim::Blobs out;
      for (size_t k = 1; k < req.size(); k++) {
        rj::Result r = rj::parse_document(req[k], 600);
        out.push_back(shim::put_u64((r.ok ? 1 : 0) | (r.in_domain() ? 2 : 0)));
        out.push_back(r.ok ? jt::wire(r.value) : std::string());
        out.push_back(shim::put_u64(r.value_end));
      }
      return out;
    }
    if (op == "check") {
      c5::Finding f = c5::check_text(req.at(1));
      return {f.sig, f.msg};
    }
    if (op == "edits") {
      c5::Tally t;
      c5::Finding f = c5::check_edits(req.at(1), &t);
      return {f.sig, f.msg, shim::put_u64(t.texts)};
    }
    throw std::logic_error("c05_shim: unknown op " + op);
  });
}
