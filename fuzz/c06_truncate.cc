// C06 - structure-aware truncation target: the fuzzer's bytes select (container variant, sub-variant,
// size, pixel content, cut point, entry point); the target builds the file with the independent
// encoders of harness/c06/codecs.hh, cuts it, loads it through phosg and applies the C06 oracle:
// the whole file decodes to the format-defined pixels, a proper prefix throws a std::exception or
// decodes identically, nothing stays allocated afterwards; ASan/UBSan/LSan watch the load.
#include <phosg/Image.hh>

#include "c06/codecs.hh"
#include "fuzz_common.hh"

using namespace c06;

static MemFile& memfile() {
  static MemFile* m = new MemFile();
  return *m;
}

static bool accounting_bad(const Loaded& r) {
  if (!__sanitizer_get_current_allocated_bytes) return false;
  return r.ok ? (r.held_after_load != r.expected_held || r.held_after_destroy != 0) : (r.held_after_load != 0);
}

extern "C" int LLVMFuzzerTestOneInput(const uint8_t* data, size_t size) {
  vfuzz::begin(data, size);
  uint8_t b[24] = {0};
  memcpy(b, data, size < sizeof(b) ? size : sizeof(b));
  int variant = b[0] % V_COUNT;
  uint64_t vp = (static_cast<uint64_t>(b[1]) | (b[2] << 8) | (b[3] << 16)) % (variant_space(variant) * 2);
  size_t w = 1 + b[4] % 64, h = 1 + b[5] % 64;
  if (b[6] & 0x80) {
    w = 1 + w % 9;
    h = 1 + h % 4;
  }
  unsigned style = b[6] % 5;
  uint64_t seed = 0;
  memcpy(&seed, b + 7, 8);
  uint32_t cutsel = 0;
  memcpy(&cutsel, b + 15, 4);
  int via = b[19] % 3;

  FileSpec fs = build_variant(variant, vp, seed, w, h, style);
  size_t n = fs.bytes.size();
  // bias the cut towards the header and the tail
  size_t cut;
  switch (b[20] % 4) {
    case 0: cut = cutsel % (n + 1); break;
    case 1: cut = cutsel % (fs.header_len + 3 < n ? fs.header_len + 3 : n + 1); break;
    case 2: cut = n - (cutsel % (n < 40 ? n + 1 : 40)); break;
    default: {
      size_t row = fs.row_starts[cutsel % fs.row_starts.size()];
      cut = row + ((cutsel >> 16) % 3) - 1;
      if (cut > n) cut = n;
    }
  }
  vfuzz::cls(variant_name(variant));
  if ((w % 4) || fs.expect.alpha || fs.expect.cw > 8 || fs.nondefault) {
    uint64_t key[5] = {static_cast<uint64_t>(variant), vp, w * 100 + h, cut, style};
    vfuzz::nontrivial(vfuzz::hash(key, sizeof(key)));
  }

  MemFile& mf = memfile();
  mf.set(fs.bytes.data(), n);
  Loaded full = load_current(mf, 0);
  char msg[600];
  if (!full.ok) {
    snprintf(msg, sizeof(msg), "a valid %s %zux%zu file was rejected with %s: %s", fs.label.c_str(), w, h, full.exc_type, full.exc_what);
    vfuzz::fail(std::string("variant-rejected:") + variant_name(variant), msg);
    return 0;
  }
  bool match = full.pix.same_pixels(fs.expect) || (fs.wide && full.pix.same_pixels(fs.expect_swapped));
  if (!match) {
    snprintf(msg, sizeof(msg), "%s %zux%zu: %s", fs.label.c_str(), w, h, full.pix.first_difference(fs.expect).c_str());
    vfuzz::fail(std::string("variant-pixels:") + variant_name(variant), msg);
    return 0;
  }
  mf.cut(cut);
  Loaded r = load_current(mf, via);
  if (accounting_bad(r)) {
    load_current(mf, via);
    Loaded r3 = load_current(mf, via);
    if (accounting_bad(r3)) {
      snprintf(msg, sizeof(msg), "%s %zux%zu cut at %zu/%zu: %ld bytes held after the load (expected %ld), %ld after destroying the image; exception %s",
          fs.label.c_str(), w, h, cut, n, r3.held_after_load, r3.expected_held, r3.held_after_destroy, r3.exc_type);
      vfuzz::fail(r3.ok ? "leak:successful-load" : "leak:exception-path", msg);
      return 0;
    }
  }
  if (r.ok) {
    if (!r.pix.same_pixels(full.pix)) {
      snprintf(msg, sizeof(msg), "%s %zux%zu cut at %zu/%zu loads without an exception but differs: %s", fs.label.c_str(), w, h, cut, n, r.pix.first_difference(full.pix).c_str());
      vfuzz::fail("truncated-decodes-differently", msg);
    }
    vfuzz::cls(cut == n ? "cut:none" : "cut:decoded-identically");
  } else if (!r.std_exception) {
    snprintf(msg, sizeof(msg), "%s %zux%zu cut at %zu/%zu threw something that is not a std::exception", fs.label.c_str(), w, h, cut, n);
    vfuzz::fail("truncated-non-std-exception", msg);
  } else if (cut == n) {
    snprintf(msg, sizeof(msg), "%s %zux%zu: the complete file was rejected through entry point %d: %s", fs.label.c_str(), w, h, via, r.exc_what);
    vfuzz::fail(std::string("variant-rejected:") + variant_name(variant), msg);
  } else {
    vfuzz::cls("cut:exception");
  }
  return 0;
}
