// C05 libFuzzer target: any byte string through the three JSON::parse entry points in default and strict mode.
// The oracle (harness/c05/oracle.hh, check_text) lives in the target: only parse_error / out_of_range may escape, the
// reader stays inside its buffer (exactly sized heap copies under ASan), the entry points agree with each other, and
// every input that the independent RFC 8259 reader recognises as a standard document inside the stated domain must be
// read as that reader reads it, in both modes. Inputs with more than 500 opening brackets or an exponent above 999 (more
// than three digits after its leading zeros; e0000000002 is the exponent 2 and is checked) are outside the stated domain
// (the latter only make the scanner loop) and are skipped and counted.
#include "fuzz_common.hh"

#include "c05/oracle.hh"

extern "C" int LLVMFuzzerTestOneInput(const uint8_t* data, size_t size) {
  vfuzz::begin(data, size);
  const char* why = nullptr;
  if (c5::out_of_scope(data, size, &why)) {
    vfuzz::exclude(why);
    return 0;
  }
  std::string text(reinterpret_cast<const char*>(data), size);
  c5::Tally t;
  c5::Finding f = c5::check_text(text, &t);
  if (!f.none()) {
    vfuzz::fail(f.sig, f.msg);
    return 0;
  }
  if (t.standard_in_domain) vfuzz::cls("fuzz:standard-document (value compared with the reference)");
  else if (t.standard_out_of_domain) vfuzz::cls("fuzz:standard-but-out-of-domain (totality only)");
  else if (t.rejected_both) vfuzz::cls("fuzz:rejected-in-both-modes");
  else vfuzz::cls("fuzz:non-standard-text-accepted (totality only)");
  size_t k = 0;
  while (k < size && c5::is_ws(static_cast<char>(data[k]))) k++;
  if (k < size && (data[k] == '[' || data[k] == '{' || data[k] == '"')) vfuzz::nontrivial(vfuzz::hash(data, size));
  return 0;
}
