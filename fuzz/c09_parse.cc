// C09 (b) - libFuzzer target: parse_data_string accepts any text without crashing, hanging or reading out of
// bounds, keeps mask and data the same length, does not depend on whether a mask is requested, and - whenever
// the text stays inside the documented syntax (decided by the independent reference interpreter in
// harness/c09/ref.hh) - produces exactly the bytes and mask that syntax defines. format_data_string of the
// result must parse back to the same bytes/mask (losslessness on parser-produced data).
#include <phosg/Strings.hh>

#include "c09/ref.hh"
#include "fuzz_common.hh"

static std::string hexs(const std::string& b, size_t max = 96) {
  static const char* hx = "0123456789abcdef";
  std::string r;
  for (size_t i = 0; i < b.size() && i < max; i++) {
    r += hx[(unsigned char)b[i] >> 4];
    r += hx[(unsigned char)b[i] & 15];
  }
  if (b.size() > max) r += "...";
  return r;
}

extern "C" int LLVMFuzzerTestOneInput(const uint8_t* bytes, size_t size) {
  vfuzz::begin(bytes, size);
  // exactly-sized copy so that reads past the end of the text are visible to ASan
  std::string text(reinterpret_cast<const char*>(bytes), size);

  std::string mask;
  std::string data = phosg::parse_data_string(text, &mask);
  if (mask.size() != data.size()) {
    vfuzz::fail("parse-mask-size", "data " + std::to_string(data.size()) + " bytes, mask " + std::to_string(mask.size()));
    return 0;
  }
  std::string data2 = phosg::parse_data_string(text);
  if (data2 != data) {
    vfuzz::fail("parse-mask-dependence", "different data with and without a mask pointer");
    return 0;
  }

  c09ref::Parsed ref = c09ref::ref_parse(text);
  if (ref.documented) {
    vfuzz::cls("documented-syntax(compared with the reference interpreter)");
    if (ref.constructs > 0) vfuzz::nontrivial(vfuzz::hash(bytes, size));
    if (data != ref.data) {
      vfuzz::fail("parse-data", "parse_data_string gives " + hexs(data) + ", the documented syntax defines " + hexs(ref.data));
      return 0;
    }
    for (size_t k = 0; k < mask.size(); k++) {
      if ((mask[k] != 0) != (ref.mask[k] != 0)) {
        vfuzz::fail("parse-mask", "mask byte " + std::to_string(k) + " differs from the documented syntax");
        return 0;
      }
    }
  } else {
    vfuzz::cls("outside-documented-syntax(totality only)");
  }

  // whatever came out must survive the compact rendering in both forms
  if (data.size() <= 4096) {
    for (uint64_t flags = 0; flags < 2; flags++) {
      std::string text2 = phosg::format_data_string(data, &mask, flags);
      std::string mask3;
      std::string data3 = phosg::parse_data_string(text2, &mask3);
      if (data3 != data) {
        vfuzz::fail(flags ? "reformat-data:hex" : "reformat-data:quoted", "bytes " + hexs(data) + " render as " + text2.substr(0, 96) + " and re-parse as " + hexs(data3));
        return 0;
      }
      if (mask3.size() != mask.size()) {
        vfuzz::fail("reformat-mask", "mask size changed");
        return 0;
      }
      for (size_t k = 0; k < mask.size(); k++) {
        if ((mask3[k] != 0) != (mask[k] != 0)) {
          vfuzz::fail("reformat-mask", "mask byte " + std::to_string(k) + " changed");
          return 0;
        }
      }
    }
  }
  return 0;
}
