// fuzz_common.hh - bookkeeping for libFuzzer targets whose semantic oracle lives inside the target.
// The driver (run/stages.py) sets VERIF_FUZZ_OUT (directory for statistics) and VERIF_KNOWN (file with
// known-finding signatures, one per line). Oracle failures call vfuzz::fail(sig, msg): the line
// "VERIF-FAIL sig=<sig> msg=<msg>" goes to stderr, counters are flushed, and the target traps so that
// libFuzzer saves the input as a crash artifact (= the replay file).
#pragma once
#include <stdint.h>
#include <stdio.h>
#include <stdlib.h>
#include <string.h>
#include <unistd.h>

#include <map>
#include <set>
#include <string>
#include <unordered_set>
#include <vector>

namespace vfuzz {

struct State {
  uint64_t execs = 0;
  std::unordered_set<uint64_t> nontrivial;
  std::map<std::string, uint64_t> classes, excluded;
  std::set<std::string> known;
  std::vector<std::string> samples;
  std::string out;
  bool inited = false;
};
inline State& st() {
  static State* s = new State(); // leaked on purpose: must outlive atexit handlers
  return *s;
}

inline uint64_t hash(const void* p, size_t n, uint64_t h = 0xcbf29ce484222325ULL) {
  const uint8_t* b = static_cast<const uint8_t*>(p);
  for (size_t i = 0; i < n; i++) {
    h ^= b[i];
    h *= 0x100000001b3ULL;
  }
  h ^= h >> 33;
  h *= 0xff51afd7ed558ccdULL;
  h ^= h >> 33;
  return h;
}

inline std::string jesc(const std::string& s) {
  std::string r;
  for (unsigned char c : s) {
    char b[8];
    if (c == '"' || c == '\\') {
      r += '\\';
      r += static_cast<char>(c);
    } else if (c < 0x20 || c >= 0x7f) {
      snprintf(b, sizeof(b), "\\u%04x", c);
      r += b;
    } else r += static_cast<char>(c);
  }
  return r;
}

inline void flush() {
  State& s = st();
  if (s.out.empty()) return;
  char path[4096];
  snprintf(path, sizeof(path), "%s/stats.%d.json", s.out.c_str(), getpid());
  std::string tmp = std::string(path) + ".tmp";
  FILE* f = fopen(tmp.c_str(), "w");
  if (!f) return;
  fprintf(f, "{\"evaluations\": %llu, \"classes\": {", (unsigned long long)s.execs);
  bool first = true;
  for (auto& it : s.classes) {
    fprintf(f, "%s\"%s\": %llu", first ? "" : ", ", jesc(it.first).c_str(), (unsigned long long)it.second);
    first = false;
  }
  fprintf(f, "}, \"excluded\": {");
  first = true;
  for (auto& it : s.excluded) {
    fprintf(f, "%s\"%s\": %llu", first ? "" : ", ", jesc(it.first).c_str(), (unsigned long long)it.second);
    first = false;
  }
  fprintf(f, "}, \"samples\": [");
  for (size_t i = 0; i < s.samples.size(); i++) fprintf(f, "%s\"%s\"", i ? ", " : "", jesc(s.samples[i]).c_str());
  fprintf(f, "]}\n");
  fclose(f);
  rename(tmp.c_str(), path);
  snprintf(path, sizeof(path), "%s/hashes.%d.bin", s.out.c_str(), getpid());
  FILE* h = fopen(path, "wb");
  if (h) {
    std::vector<uint64_t> v(s.nontrivial.begin(), s.nontrivial.end());
    if (!v.empty()) fwrite(v.data(), 8, v.size(), h);
    fclose(h);
  }
}

inline void init() {
  State& s = st();
  if (s.inited) return;
  s.inited = true;
  const char* o = getenv("VERIF_FUZZ_OUT");
  if (o) s.out = o;
  const char* k = getenv("VERIF_KNOWN");
  if (k) {
    FILE* f = fopen(k, "r");
    if (f) {
      char line[1024];
      while (fgets(line, sizeof(line), f)) {
        std::string l = line;
        while (!l.empty() && (l.back() == '\n' || l.back() == '\r')) l.pop_back();
        if (!l.empty()) s.known.insert(l);
      }
      fclose(f);
    }
  }
  atexit(flush);
}

// call at the top of LLVMFuzzerTestOneInput
inline void begin(const uint8_t* data, size_t size) {
  init();
  State& s = st();
  s.execs++;
  if (s.execs <= 3 || ((s.execs & (s.execs - 1)) == 0 && s.samples.size() < 24)) {
    static const char* hx = "0123456789abcdef";
    std::string h;
    for (size_t i = 0; i < size && i < 200; i++) {
      h += hx[data[i] >> 4];
      h += hx[data[i] & 15];
    }
    s.samples.push_back("hex:" + h + (size > 200 ? "..." : ""));
  }
  if ((s.execs & 0x3FFF) == 0) flush();
}
inline void nontrivial(uint64_t h) {
  State& s = st();
  if (s.nontrivial.size() < 2000000) s.nontrivial.insert(h);
}
inline void cls(const char* label) { st().classes[label]++; }
inline void exclude(const char* why) { st().excluded[why]++; }

// Oracle failure. Returns (having counted the case as excluded) when sig is a known finding.
inline void fail(const std::string& sig, const std::string& msg) {
  State& s = st();
  if (s.known.count(sig)) {
    s.excluded["known-finding:" + sig]++;
    return;
  }
  fprintf(stderr, "\nVERIF-FAIL sig=%s msg=%s\n", sig.c_str(), msg.c_str());
  fflush(stderr);
  flush();
  __builtin_trap();
}

} // namespace vfuzz
