"""C02 - bounds-checked readers/writers never touch memory outside their buffer."""

PROP = dict(
    level="exploration",
    stages=[dict(name="c02_bounds", src="harness/c02_bounds.cc", deps=["harness/c01/codec.hh"], shards_quick=8, shards_thorough=16,
                 timeout_quick=400, timeout_thorough=1500)],
    rule=("pos: one accessor call on a StringReader over an exactly-sized heap block of n bytes (ASan sees the first byte past the "
          "end); exhaustive grid n in 0..8 (thorough: 0..16, 63, 64) x every accessor (pgetv, pget<T>, the 26 typed pget_*/get_* incl. "
          "24/48-bit, peek, getv, read/readx/pread/preadx in string and buffer forms, sub/subx, sub_bits/subx_bits, skip, skip_if, "
          "get_line, get_cstr, pget_cstr, truncate) x all (offset, size) pairs of the boundary set {0,1,2,3,4,6,8,n-2..n+2,2^31,2^32-1,"
          "2^32,2^63-1,2^63,2^63+1,2^64-9..2^64-1}, plus rapidcheck cases with n in 0..64 and random/wrapping arguments. Readers are built "
          "by any of the six constructor forms ((pointer, size), const std::string&, shared_ptr<string>, each with and without the initial-offset "
          "argument): the grid above uses (pointer, size); a second grid runs n in 0..8 x the five other forms x every accessor x all pairs of "
          "{0,1,n-1,n,n+1,2^64-1}; random cases draw the form. Sub-readers of sub-readers (\"sub-readers never extend beyond their parent\" for a "
          "parent that is itself a sub-reader): a case may step into the reader that sub/subx just returned, the model then tracks the absolute "
          "window inside the original data; exhaustive for n in 0..4 x three constructors x every pair of the four sub/subx forms x every "
          "(offset, size) in 0..n+1 at both levels, random in pos (accessor called on a sub-reader of depth 1..2) and hist. hist: cursor "
          "histories of 1..30 such calls incl. go(), truncate() and steps into sub-readers, with a model of cursor, length and window. "
          "Several live views of one storage (pos grid, random pos and hist alike): besides the reader the calls are made on, every case keeps a by-value "
          "copy of the root reader made before the first call, a second reader constructed over the same block / string / shared_ptr<string>, and every "
          "reader the history stepped out of when it went into a sub-reader; after EVERY call each of these other views must still have its size and "
          "cursor and read exactly its whole window of the original bytes (a reader over n bytes returns exactly the requested slice whatever was done "
          "through another reader), and the storage the caller handed over (heap block, std::string, the string behind the shared_ptr: size, buffer address "
          "and every byte) must be unchanged - a reader never writes, inside or outside its buffer. bw: BufferWriter over a guarded "
          "buffer of capacity 0..64 (pwrite/write/put_*/pput_*, grid + random). sw: StringWriter appends and pput_* at offsets <= 4096 "
          "or >= 2^63. Non-trivial: a call whose offset or size lies within +-2 of n, 2^63 or 2^64, whose end lies within +-2 of n, whose "
          "offset+size wraps, a get_line on an unterminated last line, or a sub-reader taken from a sub-reader whose window does not start at the "
          "first byte of the original data; distinct by (constructor, accessor(s), n, offset, size) for pos and by case "
          "encoding (hash) for the others."),
    assumptions=["go(offset) and a constructor offset beyond the data may park the cursor there or clamp it to the end; after a sequential BufferWriter write that did not fit, later sequential writes may be refused as well (counted)",
                 "StringWriter::pput offsets are <= 4160 or >= 2^63: offsets in between would really allocate up to 2^63 bytes, which ASan's operator new answers by aborting (an artefact of the sanitizer build, not of phosg); the design's lower limit 2^62 was raised to 2^63 because std::string::max_size() is 2^63-1 here",
                 "BitReader reads are unchecked by design: only the extent (size) and content of bit sub-readers is checked",
                 "get<T>(advance, size) / pget<T>(offset, size) are called with size >= sizeof(T) only",
                 "destination buffers handed to the clamping read/pread(void*, size) are `size` bytes large (the caller owns what it announces; sizes above 1 MiB are not passed to these two forms - counted as excluded - offsets are unrestricted), what the call leaves in the part it does not fill is not judged; those handed to readx/preadx(void*) and the source handed to pwrite/write/skip_if hold min(size, n+1) bytes when the request is out of range (a correct implementation validates before copying)",
                 "where the empty reader that a clamping sub() returns points to is not specified (pointer identity of pgetv/getv/peek is not checked inside it)",
                 "the const std::string& and shared_ptr<string> constructors read a std::string's buffer, which ASan guards less exactly than the exactly-sized heap block of the (pointer, size) form; values, exceptions and extents are compared all the same",
                 "where the cursor is after truncate() is not stated: truncate() below the cursor may leave it (it then counts, like go(), as an explicit way of placing the cursor beyond the end) or pull it back into the shortened data; the model continues from the reported position"],
    min_evaluations_quick=1000000, min_evaluations_thorough=3000000,
    technique=("property-based testing: exhaustive boundary grid + rapidcheck cursor histories against a 128-bit-arithmetic slice model, "
               "on exactly-sized heap blocks under AddressSanitizer / UBSan(pointer-overflow, bounds)"),
    level_text=("Exploration: every case calls the real accessors (ASan+UBSan build of the working tree) and compares returned bytes, "
                "exception type, sub-reader extent, written bytes, guard bytes and the cursor with a reference computed in 128-bit "
                "arithmetic; the boundary grid named in the property is enumerated completely for small buffers, histories and larger "
                "buffers are sampled. It finds any out-of-range access or wrong accept/reject decision with a witness in that space; it "
                "is not a proof over all 2^128 (offset, size) pairs."),
    level_note="Trusts AddressSanitizer's redzones for detecting reads past an exactly-sized heap block and the harness's 128-bit reference arithmetic.",
    engine="rapidcheck + exhaustive enumerators",
)
