"""C01 - typed binary writer/reader round-trip, exact big/little-endian byte layout."""

PROP = dict(
    level="exploration",
    stages=[dict(name="c01_rw", src="harness/c01_rw.cc", deps=["harness/c01/codec.hh"], shards_quick=8, shards_thorough=16,
                 timeout_quick=400, timeout_thorough=1500)],
    rule=("seq: rapidcheck-generated sequences of 1..48 writer operations (every put_*/pput_* of StringWriter and BufferWriter in "
          "native/r/b/l form for u8..s64, f32, f64; positional offsets inside, straddling the end, at the end and up to 64 bytes past "
          "it; raw blocks, NUL-terminated strings, text lines with LF/CRLF, extend_by/extend_to) with values drawn from type extremes, "
          "single-bit and inverted single-bit patterns, 0x80../0x7F.. byte patterns, uniform bits and float specials (quiet and "
          "signalling NaNs with random payloads, +-0, +-inf, denormals); each sequence is read back sequentially with the matching "
          "get_* (plus advance=false peeks and the opposite byte order), and positionally in a seed-derived permutation with every "
          "pget_* of the field's width and the 24/48-bit accessors. Exhaustive: every value of every 8/16-bit put form, boundary bit "
          "patterns of the wider forms; g2448: all 2^24 three-byte buffers through the 24-bit accessors, all six-byte buffers over "
          "{00,01,7F,80,FF} and random buffers at every offset through the 24/48-bit accessors; bits: every bit string up to 12 bits "
          "and generated write/truncate/reset histories with read plans of sizes 0..64. "
          "alias: the value handed to a writer is the one the argument had when the call was made, also when the argument refers INTO the "
          "writer's own buffer: StringWriter::put<T>(const T&) / pput<T>(off, const T&) with T over {u8 s8 u16 u32 u64 float double, le_/be_/re_ "
          "wrappers, packed structs of 3, 12 and 40 bytes}, write(ptr, n) and write(const string&) with the writer's own str(), BufferWriter "
          "put<T>/write/pput<T>/pwrite between disjoint places of its buffer; 1..4 such calls per case on a prefix of 1..2000 bytes built in four "
          "ways (one write, byte by byte, chunks of 7, into spare capacity - i.e. every capacity state of the underlying string, including the "
          "inline-storage limit and each doubling step); exhaustive: every prefix length 1..600 x every type x source offsets 0, 3, 8, last. "
          "Oracle: bytes of the argument read before the call, then read back through StringReader. "
          "big: a StringReader over a sparse anonymous mapping of k*2^32 + extra bytes (k = 1..3): all sixteen 24/48-bit accessors (get/pget, u/s, "
          "b/l, advance on/off) and, as controls, every ordinary accessor and raw reads, at offsets at, just below, straddling and above a "
          "multiple of 2^32 and at the end of the data; the bytes at the same offset minus every multiple of 2^32 hold the complemented pattern. "
          "nest: 'all read orders' - a stream of 1..16 appended fields (scalars of every type and form, raw blocks, C strings) decoded the way nested "
          "formats are decoded: the parent reader is built by each of the six constructor forms ((pointer, size), const string&, shared_ptr<string>, each "
          "with and without an initial offset placed at a field boundary), its cursor is moved by earlier reads, and any field may start a sub-reader "
          "(sub(o), sub(o,n), subx(o), subx(o,n), covering 1..8 fields, up to three levels deep) whose where()/size()/remaining()/eof() must be those of "
          "a fresh reader over exactly that range and through which the covered fields are read with the cursor-relative accessors (get_*, read, readx, "
          "getv, peek+skip, get_cstr) and compared with the independent decoder and the values written; the parent's cursor must not move, and the parent "
          "then skips or re-reads the fields. Any field may instead be read with the templated get<T>(advance, size) with an explicit encoded width that "
          "covers the value and the 0..7 fields after it (T a packed byte record, le_/be_ wrapper of the field's width or uint8_t; with and without an "
          "advance=false peek): value by the independent decoder, cursor = previous + size. Exhaustive: three 6-field layouts x six constructors x one such "
          "action at every field in every form, alone and followed by a second one at the next field. "
          "Non-trivial: a sequence using >= 2 distinct operation kinds of which at least one is a multi-byte endian-explicit "
          "(r/b/l) scalar; a 24/48-bit buffer of >= 6 bytes with a sign bit set; a bit history of >= 9 bits with >= 2 multi-bit reads; "
          "an aliased write on a prefix of >= 4 bytes; a nest case with a sub-reader taken from a reader whose cursor is not 0 or an "
          "explicit-width get<T> with size > sizeof(T); a >4 GiB case with a 24/48-bit read ending above 2^32. "
          "Distinct = distinct case encodings (hash)."),
    assumptions=["which exception class reports truncate() beyond the size (BitWriter, BitReader) or a read of more than 64 bits is not judged - only that the call throws",
                 "little-endian host only: 'regardless of host byte order' is checked by an independent shift/multiply decoder, not by running on a big-endian host",
                 "BitReader reads are generated inside its length only (BitReader is unchecked by design)",
                 "positional writes land at most 64 bytes past the end of the buffer",
                 "BufferWriter is given a buffer of exactly the model's final size (bounds behaviour is C02)",
                 "alias: pput<T> from an argument inside the writer is generated only with a destination inside the data that is disjoint from "
                 "or identical to the argument; a destination that makes the writer grow is a reported defect of the unchanged tree (pput resizes "
                 "before it copies; corpus/c01/alias_pput_grow.case.reported) and a partly overlapping one is a memcpy overlap - both are counted "
                 "under `excluded`",
                 "nest: get<T>(advance, size) is called with size >= sizeof(T) only and with T of alignment 1 (a reference to a native integer at an odd "
                 "offset would be the caller's undefined behaviour); size is taken as the encoded width of the value, as getv(size) and pget<T>(offset, size) take it",
                 "big: needs 4..12 GiB of address space (not memory); where the mapping fails the case is counted under `excluded`"],
    min_evaluations_quick=17000000, min_evaluations_thorough=18000000,
    technique=("property-based testing: rapidcheck operation sequences + exhaustive small-scope enumeration against an independent "
               "encoder/decoder (multiplication/division byte assembly, arithmetic sign extension, bit-list packing)"),
    level_text=("Exploration: every case drives the real StringWriter/BufferWriter/BitWriter and StringReader/BitReader (ASan+UBSan "
                "build of the working tree) and compares the produced bytes, the decoded values and the cursor after every read with "
                "an independent model; 8/16/24-bit value spaces are enumerated completely, everything else is sampled with "
                "boundary-biased generators. A defect with a witness in the explored space is found with a replayable case; it is "
                "not a proof for all 2^64 values of the wide accessors or for all interleavings."),
    level_note="Trusts the compiler, 128-bit integer arithmetic of the harness and memcpy-based float bit access.",
    engine="rapidcheck + exhaustive enumerators",
)
