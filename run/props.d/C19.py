"""C19 - unit-test expectation helpers."""

PROP = dict(
    level="exploration",
    all_exhaustive=True,
    stages=[dict(name="c19_expect", src="harness/c19_expect.cc", shards_quick=4, shards_thorough=8,
                 timeout_quick=300, timeout_thorough=900)],
    rule=("finite matrices enumerated completely: (a) 8 helpers (expect_eq/ne/gt/ge/lt/le, expect, expect_msg) x all operand "
          "pairs over {INT64_MIN,-1,0,1,INT64_MAX}, {\"\",\"a\",\"b\",\"aa\"} and {-inf,-0.0,0.0,1.5,inf,NaN}; (b) expect_raises<E>(fn) for E over "
          "15 exception types (the ten of the std / phosg tree plus a type with two std::exception subobjects [runtime_error + out_of_range], a "
          "virtual-inheritance diamond and one of its arms, a type with a private runtime_error base, a plain struct) x fn in {returns, throws each of "
          "the 15 types, throws int} x {macro, expect_raises_fn} = 510 cells; (c) truth: expect / expect_msg on a RAW predicate (not a bool) of 15 "
          "arithmetic / enumeration types (bool, char..unsigned long long, signed and unsigned __int128, float, double, long double, unscoped enum) x "
          "24 x 8 boundary bit patterns - the relation of these two macros is 'the predicate converts to true'; (d) retain: sequences of failing calls; "
          "every cell of (a)-(c) and every step of (d) under 5 ambient states of the C++ runtime: plain call, call from a destructor that runs during "
          "stack unwinding (inside a try/catch in the destructor, so nothing leaves it), call inside a catch handler, destructor unwinding inside a "
          "handler, freshly started thread; plus rapidcheck-generated cases (boundary-biased int64, arbitrary double bit patterns, short byte strings, "
          "equal / adjacent pairs forced in 1/3-1/2 of the cases; raw predicates: zero, boundary, arbitrary, integers whose low 8/16/32/48/63 bits are "
          "zero, 128-bit values decided by the high word only, float/double dyadic fractions down to the subnormal range, NaN/inf, long double from "
          "significand x 2^exponent; ambient state plain in 1/2 of the cases). Non-trivial: every relation / truth cell (each decides one relation on "
          "one operand pair / one conversion on one value); expect_raises cells where fn returns normally, or E is a base of expectation_failed "
          "(std::exception, std::logic_error, expectation_failed), or E / the thrown type is one of the five non-tree types, or the ambient state is "
          "not plain. Distinct = distinct case encodings (hash)."),
    assumptions=["expectation_failed::msg is only read when the message is a string literal (macro-generated); in the wrong-type arm of "
                 "expect_raises it points into a destroyed std::string and only what() is inspected",
                 "the expected verdict of expect_raises<E> for a thrown T is std::is_convertible<const T*, const E*> (public unambiguous base), i.e. "
                 "exactly what a `catch (const E&)` handler matches; cells where T derives from E only through an ambiguous or inaccessible base "
                 "(E = std::exception with the two-subobject type; E = std::exception / runtime_error with the private-base type) are left open: "
                 "either verdict is accepted, a failure must still be the helper's own expectation_failed with the call site (counted as excluded)",
                 "the expected verdict of expect(v) / expect_msg(v, m) for a raw arithmetic v is computed on the representation (any value bit set; "
                 "for float/double any bit besides the sign), cross-checked against static_cast<bool>(v)",
                 "a helper called from a destructor during unwinding is wrapped in try/catch inside that destructor (legal C++: the exception does "
                 "not leave the destructor); the property does not make the verdict depend on std::uncaught_exceptions()"],
    min_evaluations_quick=600,
    engine="rapidcheck + exhaustive enumerators",
    technique="exhaustive enumeration of a finite relation x operand matrix, of a predicate-type x bit-pattern matrix and of an exception-type x behaviour matrix generated from a compile-time type list, each crossed with five ambient runtime states (incl. call from a destructor during unwinding), plus rapidcheck-generated operand pairs; oracle = the native C++ relation, the value representation, and std::is_convertible on the exception hierarchy",
    level_text=("Exploration, complete inside the stated matrices: every cell calls the real macro / template (ASan+UBSan build of the working "
                "tree), observes whether and what it throws, and compares with the native relation or the is-base-of fact; file, line and "
                "message of every failure are compared with the call site. Outside the matrices (other operand types such as user-defined "
                "classes with operator bool, other exception hierarchies, other ambient states) nothing is claimed."),
    level_note="Trusts the compiler's exception matching for the harness's own observation (catch of expectation_failed / std::exception / ...) and std::is_convertible.",
)
