"""C19 - unit-test expectation helpers."""

PROP = dict(
    level="exploration",
    all_exhaustive=True,
    stages=[dict(name="c19_expect", src="harness/c19_expect.cc", extra_srcs=["harness/c19/other_tu.cc"], deps=["harness/c19/tu_local.hh"], shards_quick=4, shards_thorough=8,
                 timeout_quick=300, timeout_thorough=900),
            # expect_raises over two translation units with same-named file-local exception types, probe built with g++ and clang++
            dict(name="c19_two_tu", kind="pydriver", driver="oracle/c19_two_tu.py",
                 shards_quick=4, shards_thorough=4, timeout_quick=300, timeout_thorough=600)],
    rule=("finite matrices enumerated completely: (a) 8 helpers (expect_eq/ne/gt/ge/lt/le, expect, expect_msg) x all operand "
          "pairs over {INT64_MIN,-1,0,1,INT64_MAX}, {\"\",\"a\",\"b\",\"aa\"} and {-inf,-0.0,0.0,1.5,inf,NaN}; (b) expect_raises<E>(fn) for E over "
          "15 exception types (the ten of the std / phosg tree plus a type with two std::exception subobjects [runtime_error + out_of_range], a "
          "virtual-inheritance diamond and one of its arms, a type with a private runtime_error base, a plain struct) x fn in {returns, throws each of "
          "the 15 types, throws int} x {macro, expect_raises_fn} = 510 cells; (c) truth: expect / expect_msg on a RAW predicate (not a bool) of 15 "
          "arithmetic / enumeration types (bool, char..unsigned long long, signed and unsigned __int128, float, double, long double, unscoped enum) x "
          "24 x 8 boundary bit patterns - the relation of these two macros is 'the predicate converts to true'; (d) retain: sequences of failing calls; "
          "every cell of (a)-(c) and every step of (d) under 5 ambient states of the C++ runtime: plain call, call from a destructor that runs during "
          "stack unwinding (inside a try/catch in the destructor, so nothing leaves it), call inside a catch handler, destructor unwinding inside a "
          "handler, freshly started thread; (e) once: every helper with operand EXPRESSIONS that have a side effect - a source that counts its "
          "evaluations and yields one value the first time, another one afterwards (n++, queue.pop(), toggle()) - 8 helpers x {int64, string} x "
          "(first, later) values over {0,1,2}^2 per side x 5 ambient states, and expect_raises on a function with state (4 x 4 behaviours at the "
          "first / later calls x 2 entry points): the verdict is the relation on the values of the FIRST evaluation, each operand expression is "
          "evaluated exactly once whether the expectation holds or fails (clause operand-evaluations), the message expression of expect_msg at most "
          "once, fn exactly once; (f) raises_tu: expect_raises over TWO translation units (harness/c19/other_tu.cc is linked in; both include "
          "harness/c19/tu_local.hh and so each own same-named file-local ParseError / ParseDetail / NotFound / LocalError / function-local class): "
          "2 files owning E x 9 expected types (5 file-local, 4 standard bases) x 2 files owning fn x {throws each of the 5, returns} x 2 entry "
          "points x 5 ambient states; pass iff the thrown type is E or derives from it and, for a file-local E, belongs to the same file; stage "
          "c19_two_tu (oracle/c19_two_tu.py) builds the same matrix as a stand-alone probe with g++ and clang++ at -O0 / -O2 (expect_raises_fn is a "
          "template: the consumer's compiler compiles it) and decides it against the hierarchy written down in Python; "
          "(g) raises_nested: expect_raises on thrown objects that CARRY another exception - std::throw_with_nested(outer) called while `inner` is "
          "being handled, or an own class deriving from the outer type and std::nested_exception: 16 expected types (the 15 of (b) + "
          "std::nested_exception) x 2 ways of building the object x 15 outer types x carried {each of the 15 types, an int, nothing (null nested "
          "pointer, or the exception the ambient state has in flight)} x 2 entry points x 5 ambient states, and nested-in-nested (every outer layer "
          "x a std::throw_with_nested middle layer of each type x 3 carried kinds); generated: 1..4 layers, something carried inside forced to be "
          "exactly E in half of the cases; the verdict is decided by the OUTER type alone (the thrown object's type derives from it and from "
          "std::nested_exception; what it carries is not the type of what fn throws), fn is called once; "
          "plus rapidcheck-generated cases (boundary-biased int64, arbitrary double bit patterns, short byte strings, "
          "equal / adjacent pairs forced in 1/3-1/2 of the cases; raw predicates: zero, boundary, arbitrary, integers whose low 8/16/32/48/63 bits are "
          "zero, 128-bit values decided by the high word only, float/double dyadic fractions down to the subnormal range, NaN/inf, long double from "
          "significand x 2^exponent; ambient state plain in 1/2 of the cases; once: boundary-biased first values, the later value the same / a neighbour / the other side's "
          "value / zero-nonzero flipped / arbitrary). Non-trivial: every relation / truth cell (each decides one relation on "
          "one operand pair / one conversion on one value); expect_raises cells where fn returns normally, or E is a base of expectation_failed "
          "(std::exception, std::logic_error, expectation_failed), or E / the thrown type is one of the five non-tree types, or the ambient state is "
          "not plain; every once cell; raises_tu / two_tu cells where E is file-local or the thrown object comes from the other file; raises_nested "
          "cells where what is carried inside would give the other verdict, or nothing is carried, or E / the outer type is one of the special types "
          "above (std::nested_exception included), or the ambient state is not plain. "
          "Distinct = distinct case encodings (hash)."),
    assumptions=["toolchain limit: every harness is built with clang 14 / libstdc++ 12; a tree that needs std::source_location does not build with it (INFRA-ERROR, never a VIOLATION)",
                 "the wording of the message a comparison macro makes up itself (expect_eq(a, b): \"a != b\" in /repo) is not judged - only that msg is non-empty, that what() shows it and that a retained failure keeps saying what it said when it was caught; the message given to expect_msg is compared exactly",
                 "expectation_failed::msg is copied inside the catch handler (while the exception object is alive) and only for the comparison macros, "
                 "whose message the statement promises; in the wrong-type arm of expect_raises it points (in /repo) into a destroyed std::string and only "
                 "what() is inspected",
                 "'throws / fails with expectation_failed' is satisfied by a class derived from expectation_failed (counted as "
                 "failure-is-a-class-derived-from-expectation_failed)",
                 "the expected verdict of expect_raises<E> for a thrown T is std::is_convertible<const T*, const E*> (public unambiguous base), i.e. "
                 "exactly what a `catch (const E&)` handler matches; cells where T derives from E only through an ambiguous or inaccessible base "
                 "(E = std::exception with the two-subobject type; E = std::exception / runtime_error with the private-base type) are left open: "
                 "either verdict is accepted, a failure must still be the helper's own expectation_failed with the call site (counted as excluded)",
                 "the object std::throw_with_nested(T) throws has an unspecified type publicly derived from both T and std::nested_exception "
                 "([except.nested]); its verdict for E is modelled as std::is_convertible<const W*, const E*> for an own class W deriving publicly from "
                 "exactly T and std::nested_exception, and confirmed per case by a catch (const E&) handler of the harness (clause ORACLE-handler-disagrees); "
                 "the exception carried inside never contributes to the verdict: it is not the type of what fn throws",
                 "the expected verdict of expect(v) / expect_msg(v, m) for a raw arithmetic v is computed on the representation (any value bit set; "
                 "for float/double any bit besides the sign), cross-checked against static_cast<bool>(v)",
                 "clang++ with libstdc++ (the main harness's toolchain) compares type_info names of internal-linkage types as strings, so its own "
                 "catch (const E&) matches a same-named file-local type of another translation unit; under a toolchain that does this the "
                 "cross-file cells of raises_tu / two_tu whose thrown type would match within one file are left open (counted as excluded, a "
                 "failure must still be the helper's own); the g++ configurations of c19_two_tu decide them",
                 "evaluating an operand expression exactly once is taken as part of 'throws exactly when the stated relation is false and does "
                 "nothing otherwise' (the relation is the one between the values the operands have at the call); the message expression of "
                 "expect_msg may be evaluated lazily (0 or 1 times)",
                 "a helper called from a destructor during unwinding is wrapped in try/catch inside that destructor (legal C++: the exception does "
                 "not leave the destructor); the property does not make the verdict depend on std::uncaught_exceptions()"],
    min_evaluations_quick=600,
    engine="rapidcheck + exhaustive enumerators + a two-translation-unit probe built per toolchain",
    technique="exhaustive enumeration of a finite relation x operand matrix, of a predicate-type x bit-pattern matrix and of an exception-type x behaviour matrix generated from a compile-time type list, each crossed with five ambient runtime states (incl. call from a destructor during unwinding), plus rapidcheck-generated operand pairs; oracle = the native C++ relation, the value representation, and std::is_convertible on the exception hierarchy",
    level_text=("Exploration, complete inside the stated matrices: every cell calls the real macro / template (ASan+UBSan build of the working "
                "tree), observes whether and what it throws, and compares with the native relation or the is-base-of fact; file, line and "
                "message of every failure are compared with the call site. Outside the matrices (other operand types such as user-defined "
                "classes with operator bool, other exception hierarchies, other ambient states) nothing is claimed."),
    level_note="Trusts the compiler's exception matching for the harness's own observation (catch of expectation_failed / std::exception / ...) and std::is_convertible.",
)
