"""C19 - unit-test expectation helpers."""

PROP = dict(
    level="exploration",
    all_exhaustive=True,
    stages=[dict(name="c19_expect", src="harness/c19_expect.cc", shards_quick=4, shards_thorough=8,
                 timeout_quick=300, timeout_thorough=900)],
    rule=("two finite matrices enumerated completely: (a) 8 helpers (expect_eq/ne/gt/ge/lt/le, expect, expect_msg) x all operand "
          "pairs over {INT64_MIN,-1,0,1,INT64_MAX}, {\"\",\"a\",\"b\",\"aa\"} and {-inf,-0.0,0.0,1.5,inf,NaN}; (b) expect_raises<E>(fn) for E over "
          "10 exception types x fn in {returns, throws each of the 10 types, throws int} x {macro, expect_raises_fn} = 240 cells; plus "
          "rapidcheck-generated operand pairs (boundary-biased int64, arbitrary double bit patterns, short byte strings, equal / adjacent pairs "
          "forced in 1/3-1/2 of the cases). Non-trivial: every relation cell (each decides one relation on one operand pair); expect_raises cells "
          "where fn returns normally or E is a base of expectation_failed (std::exception, std::logic_error, expectation_failed). "
          "Distinct = distinct case encodings (hash)."),
    assumptions=["expectation_failed::msg is only read when the message is a string literal (macro-generated); in the wrong-type arm of "
                 "expect_raises it points into a destroyed std::string and only what() is inspected",
                 "the expected verdict of expect_raises<E> for a thrown T is std::is_convertible<const T*, const E*> (public unambiguous base)"],
    min_evaluations_quick=600,
    engine="rapidcheck + exhaustive enumerators",
    technique="exhaustive enumeration of a finite relation x operand matrix and of an exception-type x behaviour matrix generated from a compile-time type list, plus rapidcheck-generated operand pairs; oracle = the native C++ relation and std::is_convertible on the exception hierarchy",
    level_text=("Exploration, complete inside the stated matrices: every cell calls the real macro / template (ASan+UBSan build of the working "
                "tree), observes whether and what it throws, and compares with the native relation or the is-base-of fact; file, line and "
                "message of every failure are compared with the call site. Outside the matrices (other operand types, other exception "
                "hierarchies such as virtual or private bases) nothing is claimed."),
    level_note="Trusts the compiler's exception matching for the harness's own observation (catch of expectation_failed / std::exception / ...) and std::is_convertible.",
)
