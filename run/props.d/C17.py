"""C17 - command-line arguments are classified and type-checked exactly."""

PROP = dict(
    level="exploration",
    stages=[dict(name="c17_arguments", src="harness/c17_arguments.cc", deps=["harness/c17/ref.hh"],
                 shards_quick=8, shards_thorough=16, timeout_quick=400, timeout_thorough=1500)],
    rule=("exhaustive enumeration (all token lists of <= 5 tokens over the 12-token alphabet of DESIGN C17 through the vector, vector&& and argv constructors (quick tier: 5-token lists through one constructor each, rotating); the same "
          "lists without empty tokens joined into one command line with generated quoting; every integer of [-4000,4000] (quick) / "
          "[-70000,70000] (thorough) in decimal, 0x-hex and 0-octal against the 8/16/32-bit getters and all four IntFormats; boundary "
          "numerals 2^k+-2, 2^64-2^k+-2 and beyond 2^64 with signs, blanks and trailing garbage against all eight integer types; all short "
          "strings over {space,+,-,0,1,8,f,x,e,.}; float literals over {1,5,.,e,-,+,space,0} plus inf/nan/hex-float specials; every "
          "subset of read handles before assert_none_unused for all lists of <= 3 (quick) / 4 (thorough) tokens) plus rapidcheck-generated "
          "token lists from a richer grammar, command lines with mixed quoting, numerals and float literals with garbage. "
          "Bytes: command lines range over all 255 non-NUL byte values - every byte value 1..255 is enumerated at the start, in the middle and at the end of a word, "
          "of an option name and of an option value (8 token lists x 2 separator styles), standing unquoted and unescaped unless the shell itself treats it specially "
          "(the 'raw' quoting style, also drawn at random per token segment), and generated tokens include words over any byte, over 0x80..0xFF only and well-formed UTF-8; "
          "the reference tokeniser treats space and tab as the only blanks. Padded numerals: a numeral stays complete (and its value the same) behind any run of the blanks "
          "strtoull skips and any run of leading zeros - 13 values (0, 1, 7, 93, tops of the widths) x 4 renderings behind every run of 0..200 zeros / spaces / tabs / newlines / "
          "mixed blanks / blanks+zeros are enumerated (sign, type, format, getter form rotating), random numerals get runs of up to 200 blanks (1 in 10) and up to 200 zeros (1 in 12), "
          "random float literals likewise. "
          "seq: sequences of getter calls on ONE object (what a getter answers is a function of the token list and the getter alone, so each call "
          "must answer as on a fresh object): every ordered pair of {10 getter forms: get_multi<string/int32/double>, get<string> with/without flag, "
          "get<bool>, get<int32>/get<double> with/without default} x {every supplied name, 3 names not supplied, every positional index up to 2 "
          "past the end} plus assert_none_unused on 11 token lists (4 of them with an option repeated 2..3 times whose first / middle / last value is not an integer), every ordered triple of the getter forms on an absent name / an index past the "
          "end, and rapidcheck sequences of 1..10 calls (all 8 integer types, 4 formats) on generated token lists, against the classifier, the "
          "numeral/float references and a three-state used-flag model kept PER INSTANCE of a repeated option (a value whose conversion failed, and the values before it in the same failed "
          "typed get_multi call, may or may not count as read; the instances behind the first value that must be rejected were never looked at by that call and stay unread, so assert_none_unused "
          "must still throw unless something else read them). A quarter of the random sequences use an option repeated 2..5 times with numerals mixed with texts a typed getter rejects "
          "(or that fit only some integer types), other tokens in between, and address a typed get_multi to it before the other calls. "
          "Non-trivial: a token list that mixes named and positional arguments, a command line with quoting and >= 2 tokens, a numeral within 2 of "
          "a type boundary (or of 2^64 - 2^k) or with garbage, a float text with a fraction/exponent or garbage, every absent-argument case, a "
          "used-subset case with >= 2 handles and a non-empty read set, a getter sequence that addresses some name or index at least twice or in which a typed get_multi failed before the last instance of a repeated option. Distinct = distinct case encodings (hash)."),
    assumptions=["seq: a typed get_multi that throws has read nothing behind the instance whose conversion failed (it cannot know those texts are fine without converting them, and it returned none of them)",
                 "seq: a scalar getter addressed to an option that was given several times is executed as the get_multi of the same type (the statement does not say what a scalar getter does with a repeated option)",
                 "no NUL bytes in tokens or command lines; no stand-alone empty quoted token on a command line (DESIGN section 6 item 5)",
                 "command lines use the quoting subset on which the POSIX shell and phosg agree (no backslash inside '...'; inside \"...\" a backslash only before \" \\ $ `)",
                 "a complete numeral is what strtoull/strtod accept (leading blanks and '+' included, DESIGN section 6 item 7); 0b-prefixed texts are excluded for IntFormat::DEFAULT",
                 "64-bit targets: only numerals of magnitude < 2^63 have an asserted result; beyond that returning or invalid_argument are both accepted",
                 "floating-point literals outside the double range (from_chars reports overflow/underflow) may return or throw invalid_argument"],
    min_evaluations_quick=100000,
    technique=("property-based testing: exhaustive small-scope enumeration + rapidcheck generation against references written in the harness "
               "(token classifier from the statement, portable shell tokeniser, 128-bit numeral parser per the strtoull subject-sequence grammar, "
               "strtod grammar matcher with std::from_chars for the value, used-flag model)"),
    level_text=("Exploration: every case runs the real Arguments class (ASan+UBSan build of the working tree) and compares every observable getter "
                "result/exception with an independent reference. The scopes named in the property (token lists up to 5 tokens, integer texts of the "
                "window in three bases against the 8/16/32-bit types, type boundaries, garbage, getter subsets) are enumerated completely; larger "
                "token grammars, quoting mixes and 128-bit numerals are sampled. A defect with a witness in those scopes is found; it is not a proof "
                "for all strings."),
    level_note="Trusts the compiler, libstdc++'s std::from_chars for the value of a floating-point literal, and the harness's own 128-bit arithmetic.",
    engine="rapidcheck + exhaustive enumerators",
)
