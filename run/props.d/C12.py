"""C12 - LRUSet / LRUMap vs a reference recency list."""

# the driver's sanitizer options plus a bounded quarantine: a LeakSanitizer pass walks every chunk the allocator still
# holds, and with the default 256 MB quarantine such a pass grows to ~0.4 s in a long-running shard
_ASAN = ("abort_on_error=0:exitcode=97:detect_leaks=1:allocator_may_return_null=1:detect_stack_use_after_return=0:"
         "handle_abort=1:symbolize=1:max_allocation_size_mb=4096:quarantine_size_mb=16")
_DEPS = ["harness/c12/lru_harness.hh", "harness/c12/alloc_balance.hh"]

PROP = dict(
    level="exploration",
    stages=[
        # LRUSet<int64|string|PathKey|shared_ptr>, LRUMap<int64,int64 | string,string | PathKey,string | shared_ptr,int64>:
        # exhaustive short histories (int64 keys: full plan, PathKey keys: reduced plan) + rapidcheck
        dict(name="c12_lru", src="harness/c12_lru.cc", deps=_DEPS, env={"ASAN_OPTIONS": _ASAN},
             shards_quick=8, shards_thorough=16, timeout_quick=400, timeout_thorough=2400),
        # compile probes for LRUMap::insert(const K&, const V&) / at() const (a probe that does not compile is a
        # violation `compile/<member>`), then the same harness with those members in the operation alphabet
        dict(name="c12_gated", kind="pydriver", driver="oracle/c12_gated.py", env={"ASAN_OPTIONS": _ASAN},
             shards_quick=8, shards_thorough=16, timeout_quick=400, timeout_thorough=2400),
        # the same harness compiled the way a release consumer compiles the header-only templates: -DNDEBUG -O2 (still with
        # ASan+UBSan; the library objects are the shared ones). Subchecks *_nd: random histories on every key type + a
        # reduced exhaustive plan.
        dict(name="c12_ndebug", src="harness/c12_lru_ndebug.cc", deps=_DEPS + ["harness/c12_lru.cc"], flags=["-DNDEBUG", "-O2"],
             env={"ASAN_OPTIONS": _ASAN}, shards_quick=8, shards_thorough=16, timeout_quick=400, timeout_thorough=2400),
    ],
    rule=("Container types: LRUSet<K> for K = int64, std::string, PathKey, shared_ptr<const string> and LRUMap<int64,int64>, "
          "LRUMap<string,string>, LRUMap<PathKey,string>, LRUMap<shared_ptr<const string>,int64>. PathKey = struct {std::string path; uint32 gen} "
          "with operator== and a user-written noexcept std::hash over the path only (short paths in the small-string buffer, long ones "
          "on the heap; keys differing only in gen collide): a key that owns a resource, whose moved-from state is another key, and whose "
          "hash libstdc++ does not cache in the node (it recomputes it from the stored key on rehash / erase(iterator)), unlike std::string. "
          "The shared_ptr key has identity equality and the standard library's own hash; its 200 key objects live in a table and must have "
          "no other owner once the containers of a history are destroyed (clause key-copy-outlives-container). "
          "Build configurations: stage c12_lru = assertions on (-O1); stage c12_ndebug = the same harness source compiled with -DNDEBUG -O2 "
          "(subchecks *_nd), the configuration of a release consumer of these header-only templates - same oracle (neither verif.hh nor the "
          "harness uses assert()), random histories on all eight container types (quick 12000 int / 6000 string, PathKey (map 4000) / 3000 shared_ptr "
          "per type; plain build: 40000 int / 20000 string / 15000 set, 12000 map PathKey / 6000 shared_ptr) + a reduced exhaustive plan (int keys: complete to L=3 core / 2 extended, to 5 / 4 (map 3) without interior no-ops, "
          "extreme-sizes to 2 / 3; PathKey keys: 3 / 2, 4 / 2); the gated stage adds LRUMap<PathKey,string> (random histories). "
          "A case is a whole operation history on two instances (A, B) of one container type; after every operation both "
          "instances are compared with two std::list recency models (return value new/existing, size() = sum of sizes, count(), "
          "peek()/item_size()/at() values, a read-only walk of head/tail/prev/next/key against the model order) and at the end "
          "both are drained by evict_object(), which must replay the model order. Exhaustive: every history of length 1..L over "
          "an operation alphabet on 3 keys (insert/emplace/erase/touch/evict/swap [+ at, change_size without touch for the map]; "
          "extended alphabet adds size-0 inserts, touch with a new size, change_size, clear), complete up to L=4 (quick) / 5 "
          "(thorough) and up to L=6/7 minus the histories that hold a throwing no-op (absent-key touch/change_size/lookup, evict "
          "on empty) before their last operation, which are state-equivalent to a shorter enumerated history (counted under "
          "`excluded`) - that plan on the int64-keyed containers, a reduced one (complete to L=3 core / 2 extended, to 5 / 3 without interior "
          "no-ops, extreme-sizes to 2 / 3; thorough 4 / 3, 6 / 4, 3 / 4) on the PathKey-keyed containers; on the int64-keyed ones plus every history of length 1..3 (thorough 4; 1..4/5 minus interior no-ops) over the 'extreme-sizes' alphabet (sizes "
          "1, 2, 2^63, 2^63+1, SIZE_MAX on new and existing keys through insert/emplace/change_size, touch with SSIZE_MAX, evict, clear). "
          "Random: rapidcheck histories of 1..400 operations over 1..8 (sometimes 40) keys, sizes {0,1,2,7}, "
          "new_size {-1,0,1,2,7}, operations on both instances and swaps between them; a quarter of the histories draw a fifth of their "
          "sizes from the corners of size_t / ssize_t (2^63, 2^63+1, 2^63+2^32, 3*2^62, SIZE_MAX-7..SIZE_MAX, 2^63-1, 2^63-2, 2^62, 2^32, "
          "2^32-1, 2^31; touch: SSIZE_MAX, SSIZE_MAX-1, 2^62, 2^32, 2^31) on insert/emplace/touch/change_size of new and existing keys; "
          "one history in 40 runs over a universe of 60..200 keys: a build-up phase puts 60..150 distinct keys into one instance (several "
          "rehashes of the hash table, nothing removed), then the usual mix with clear() twice as likely continues for up to 150 operations. "
          "Arguments that refer into the container (all parameters are references): about one random operation in 14 passes the stored key object "
          "itself as the key of insert / erase / touch (both containers), or - gated build, insert(const K&, const V&, size) - the value stored "
          "under the same key (m.insert(k, m.at(k), n)) or under another key as the value; an absent entry falls back to a fresh argument. "
          "Large populations (mode 2, int64 and PathKey keys, plain / NDEBUG / gated builds): one random history in 600 and three fixed ones per "
          "container type (N = 2600, 5400, 11000; thorough also 2358, 7000, 16000) put N = 2,400..12,000 distinct keys into one container (a touch / "
          "re-insert / erase of an earlier key after every 8th insertion; the hash table rehashes 9..11 times), drain it by evict_object() to a rest of "
          "{0, 1, 2, 17, N/64, N/32, N/20, N/10, N/3} entries with a touch / insert / erase every 16th step, use it on for 24 operations and drain it "
          "to empty: every eviction is compared with the model's least recently used entry (key, size, value), peek() (set) / item_size of the LRU key "
          "and empty() (map), size() and count() after every operation, the link walk at the phase boundaries and every 2048 operations. "
          "Non-trivial: every large-population history; otherwise a history in which, with >= 2 "
          "live keys, an operation moved an existing key to the front from a non-front position and a later erase or eviction "
          "succeeded. Distinct = distinct histories (hash of the operation words per container type)."),
    assumptions=["single-threaded use",
                 "the structural link walk and the operations that pass the stored key object back in read protected members (items, head, tail, "
                 "Item::prev/next/key/size[/value]); on a tree that stores the recency order differently they are compiled out (class "
                 "links:layout-differs-walk-compiled-out) and the public-interface oracle, the heap balance and the sanitizers decide alone",
                 "key types: hashable (std::hash specialisation, noexcept or not), equality comparable, copy- and move-constructible; the hash and "
                 "operator== of a key do not change while it is stored; nothing is assumed about the state of a key object after it was passed "
                 "to emplace(K&&)/insert(K&&) (it is not looked at again)",
                 "build configurations checked: assertions on at -O1 and -DNDEBUG at -O2, both under ASan+UBSan with libstdc++; the library's "
                 "compiled objects are the same in both (LRUSet/LRUMap are header-only)",
                 "sizes are arbitrary size_t values (ssize_t >= -1 for touch's new_size; what other negative values mean is not documented and "
                 "they are not generated); size() is compared with the model's sum in every state in which that sum is representable in "
                 "size_t, and is not compared in states where it is not (counted under the class 'states-with-unrepresentable-sum'); item sizes, "
                 "peek/evict sizes and everything else are compared in every state",
                 "evict_object()/peek() on an empty container and at()/item_size() of an absent key throw std::out_of_range (what the code documents); no other behaviour is specified for them",
                 "an argument may refer to an object inside the container (the stored value of the same or of another key, the stored key object): "
                 "the call behaves as if it had been given a copy taken before the call",
                 "emplace on an existing key changes nothing (value, size and recency stay), like std::unordered_map::emplace",
                 "the exhaustive enumerator compares the full state only after the last operation of each history: the state after "
                 "every proper prefix is compared when that shorter history is enumerated (deterministic container); return values "
                 "are compared at every step"],
    min_evaluations_quick=200000,
    engine="rapidcheck + exhaustive enumerators",
    technique=("model-based stateful testing: exhaustive small-scope enumeration of operation histories + rapidcheck random "
               "histories against a std::list recency model, with structural link walk, ASan/UBSan and per-history heap-block "
               "balance + LeakSanitizer; compile probes for never-instantiated members; the templates instantiated over four key types "
               "(integer, std::string with cached hash, resource-owning struct with uncached user hash, shared_ptr) and compiled in two "
               "configurations (assertions on / -DNDEBUG -O2)"),
    level_text=("Exploration: every history runs the real templates (ASan+UBSan build of the working tree) side by side with a "
                "reference recency list; all histories up to the stated lengths over 3 keys are enumerated, longer ones over up to "
                "40 keys are sampled. It finds any mis-linked pointer, stale tail, wrong size accounting, wrong recency rule, "
                "use-after-free or leak that has a witness in those scopes, for the four key types and the two build configurations "
                "(assertions on, -DNDEBUG -O2) it instantiates; it is not a proof for arbitrary lengths, key types or compilers."),
    level_note=("Trusts the compiler, libstdc++ (std::list model, std::unordered_map under the containers), AddressSanitizer/LeakSanitizer "
                "and the harness's reading of which operations refresh recency (LRUSet: insert/emplace/touch; LRUMap: insert, "
                "emplace of a new key, at, touch, change_size(touch=true)). Whether libstdc++ caches a key's hash code in the node "
                "(std::string: yes; PathKey/shared_ptr/int64: no) is an implementation detail the key-type choice leans on; with another "
                "standard library the PathKey/shared_ptr instantiations are still valid checks but may exercise different paths."),
)
