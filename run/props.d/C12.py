"""C12 - LRUSet / LRUMap vs a reference recency list."""

# the driver's sanitizer options plus a bounded quarantine: the per-block LeakSanitizer pass walks every chunk the
# allocator still holds, and with the default 256 MB quarantine that pass grows to ~0.4 s
_ASAN = ("abort_on_error=0:exitcode=97:detect_leaks=1:allocator_may_return_null=1:detect_stack_use_after_return=0:"
         "handle_abort=1:symbolize=1:max_allocation_size_mb=4096:quarantine_size_mb=16")

PROP = dict(
    level="exploration",
    stages=[
        dict(name="c12_lru", src="harness/c12_lru.cc", deps=["harness/c12/lru_harness.hh"], env={"ASAN_OPTIONS": _ASAN},
             shards_quick=8, shards_thorough=16, timeout_quick=400, timeout_thorough=2400),
    ],
    rule="tbd", assumptions=[], min_evaluations_quick=1000, technique="tbd", level_text="tbd", level_note="tbd",
)
