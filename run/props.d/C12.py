"""C12 - LRUSet / LRUMap vs a reference recency list."""

PROP = dict(
    level="exploration",
    stages=[
        dict(name="c12_lru", src="harness/c12_lru.cc", deps=["harness/c12/lru_harness.hh"],
             shards_quick=8, shards_thorough=16, timeout_quick=400, timeout_thorough=2400),
    ],
    rule="tbd", assumptions=[], min_evaluations_quick=1000, technique="tbd", level_text="tbd", level_note="tbd",
)
