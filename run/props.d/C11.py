"""C11 - text encodings."""

# ASan keeps the allocation stack of every malloc in a depot that never shrinks; librapidcheck is built without frame
# pointers, so the fast unwinder records garbage frames that differ from case to case below depth ~8 and the depot grows by
# 4-20 KB per rapidcheck case (3 GB per shard at 10^5 cases). Short allocation contexts keep the shards at ~100 MB; the
# stack of the *faulting* access in a report is not affected. (Same option string as run/check.py SAN_ENV otherwise.)
ASAN_OPTIONS = ("abort_on_error=0:exitcode=97:detect_leaks=1:allocator_may_return_null=1:detect_stack_use_after_return=0:"
                "handle_abort=1:symbolize=1:max_allocation_size_mb=4096:malloc_context_size=6:quarantine_size_mb=64")

PROP = dict(
    level="exploration",
    stages=[
        dict(name="c11_text", src="harness/c11_text.cc", env={"ASAN_OPTIONS": ASAN_OPTIONS}, shards_quick=8, shards_thorough=16, timeout_quick=400, timeout_thorough=1500),
        dict(name="c11_py", kind="pydriver", driver="oracle/c11_text.py", shim="shim/c11_shim.cc", deps=["shim/shim.hh"],
             shards_quick=8, shards_thorough=16, timeout_quick=400, timeout_thorough=1500),
    ],
    rule="",
    assumptions=[],
    min_evaluations_quick=100000,
)
