"""C11 - text encodings (base64, rot13, URL/control/quote escapers, netloc)."""

PROP = dict(
    level="exploration",
    stages=[
        # exhaustive small scopes + rapidcheck against an in-harness reference written from RFC 4648 / RFC 3986 / the C escape syntax
        dict(name="c11_text", src="harness/c11_text.cc", deps=["harness/c11/ambient.hh"], shards_quick=8, shards_thorough=16, timeout_quick=400, timeout_thorough=1500),
        # Hypothesis cross-check against Python's base64 / binascii / codecs / urllib.parse through a serve shim
        dict(name="c11_py", kind="pydriver", driver="oracle/c11_text.py", shim="shim/c11_shim.cc", deps=["shim/shim.hh"],
             shards_quick=8, shards_thorough=16, timeout_quick=400, timeout_thorough=1500),
    ],
    rule=("exhaustive: every byte string of length 0..3 through base64_encode/base64_decode for the default and the URL-safe alphabet "
          "(lengths 0..2 also with DEFAULT_ALPHABET passed explicitly; the quick tier sweeps one quarter of the 3-byte strings for the URL-safe "
          "alphabet); every 4- and 8-character text over {A,Q,=,*,-,/} through base64_decode for both alphabets (quick tier: 8-character texts "
          "over {A,=,*,-,/}); every single-character substitution (256 values x every position), truncation and one-character extension of "
          "valid encodings of 0..48 bytes; every byte string of length 0..3 through rot13, escape_url (both flags), escape_controls (both "
          "modes), escape_quotes (lengths 0..2 case by case, the 2^24 three-byte strings per function/flag in a hot loop over the same clauses; the quick tier sweeps the "
          "quarter of them whose first two bytes sum to a multiple of 4, the thorough tier all); "
          "ports 0..65535 for eight hosts. Dictionary: about 115 well-known multi-byte sequences (UTF-8/16/32/7 byte order marks, U+2028/2029, NEL, "
          "NBSP, zero-width and bidi marks, U+FFFD and non-characters, overlong / surrogate / truncated / beyond-U+10FFFF UTF-8, the first and last "
          "character of each UTF-8 length, CRLF and controls, ANSI/OSC terminal sequences, percent / backslash / entity escape syntaxes, quotes, "
          "URL pieces) enumerated alone, at the start / middle / end of six short texts, tripled and in every ordered pair through every function "
          "(base64 with the three alphabet arguments, rot13, the escapers with both flags, and as hosts x ports {0,1,80,65535}), and spliced (1..3 "
          "of them, at the start / end / inside) into a third of the random inputs of every function. Netloc feedback (netloc_fb): the host of "
          "the pair under test is derived from what render_netloc itself prints for a first pair - half of the time the degenerate empty host, "
          "where it prints a placeholder or the bare port - by 8 derivations (part before / after the colon, whole text, substring, one byte "
          "replaced or inserted, upper case, doubled); enumerated for the empty host and 3 regular hosts x 10 port classes x 8 derivations x 10 "
          "port classes x default port {0, 8080}. Random (rapidcheck + Hypothesis): byte strings up to 2 KiB (uniform, "
          "special-character alphabets, xorshift filler), base64 texts built from valid encodings with 0..3 edits biased to the last quad, "
          "alphabet-only texts with 0..2 trailing '=' (non-zero trailing bits), mixed-alphabet texts; hosts up to 200 colon-free bytes. "
          "Concurrent callers: 2..6 threads, each calling every function of the property (base64 encode/decode both alphabets incl. one "
          "invalid text, rot13, escape_url both flags, escape_controls both modes, escape_quotes, render/parse_netloc) 100 (inputs up to 64 "
          "bytes, mostly) or 10 times on its own input (uniform bytes, special-character alphabet, or three byte values of the thread's own) "
          "and comparing with results fixed before the threads start. "
          "Sub-ranges (placed): the (pointer, size) overloads of rot13 / base64_encode / base64_decode on ranges of every size 0..40 at every "
          "misalignment 0..15 (enumerated for four contents x two alphabets; random sizes 0..24 mostly, up to 300), each both as a slice of a larger "
          "buffer whose neighbouring bytes are letters / alphabet characters (a result that depends on bytes outside the range fails a value clause) "
          "and in an exactly sized heap block (ASan reports any read past the range); the range is also taken as a base64 text (valid or not) and a "
          "valid encoding placed the same way must decode back. Ambient state (ambient): everything phosg returns for one (text, host, port) - base64 "
          "encode / decode (three alphabet arguments, the text itself as an encoding), rot13, the escapers with both flags, render_netloc / parse_netloc - "
          "collected under (1) a global C++ locale whose numpunct groups digits by 3 with ',', (2) one grouping by 1-2 with '.' and errno = ERANGE, "
          "(3) the C.UTF-8 C locale with errno = EINVAL, and compared with the references (base64, rot13, netloc) or with the call under untouched "
          "state that first passed the complete oracle (escapers); enumerated for 14 port classes x 4 hosts x 5 texts x 3 states, random otherwise; the "
          "previous locales are restored after every case. "
          "Non-trivial: every concurrent-callers case; placed cases with a letter in the range at an address that is not 8-byte aligned; ambient cases with a port >= 1000; decode inputs containing padding or a character outside the alphabet; encode inputs with length mod 3 != 0; "
          "rot13 inputs containing an ASCII letter; escaper inputs in which at least one byte must be escaped; netloc pairs with port != 0; "
          "netloc_fb cases whose first stage has the empty host. "
          "Distinct = distinct case encodings; the hot loops (2^24 three-byte strings per function, 6^8 eight-character texts) register one entry "
          "per block, so the distinct count is a lower bound."),
    assumptions=["the spelling of render_netloc's text is the library's (host, host:port, host:0 ...): only the round trip through parse_netloc is judged; a port 0 that is written out parses back as 0 or as the default port",
                 "base64 validity predicate (RFC 4648 + the property statement): length % 4 == 0, every character in the alphabet, '=' only in "
                 "the last position or in the last two positions; a text of that shape with non-zero unused trailing bits (which no encoder produces) may be "
                 "decoded (bits dropped, as /repo and Python do) or refused with invalid_argument as non-canonical - both are within the statement",
                 "hosts are non-empty and colon-free, ports and default ports are in 0..65535; port 0 renders without ':' and parses back "
                 "to the default port",
                 "escape_url: which of the permitted characters (unreserved, '=', '&', '/' unless escape_slash) are left literal is the escaper's "
                 "policy - the statement asks for permitted output characters and an exact inverse; escaping more than RFC 3986 requires is counted "
                 "(classes esc_url:* / escurl:*), not reported",
                 "'throws invalid_argument' is satisfied by any type derived from std::invalid_argument (C++ handlers; the Python stage is given the base name)",
                 "escape_quotes: only 'no raw quote, no non-printable byte' is stated; whether its output decodes back through a \\\" / \\xHH reader is counted, not judged",
                 "netloc_fb: what render_netloc prints for the empty host is outside the round-trip clause and is not asserted; it is only used, made colon-free, as a host "
                 "like any other non-empty colon-free string (an empty derivation falls back to the whole text)",
                 "the functions are pure functions of their arguments, hence reentrant: concurrent calls on different inputs each return the "
                 "single-threaded result for their own input (expected values: the in-harness references for base64/rot13/netloc; for the escapers "
                 "a single-threaded call that first passed the complete single-threaded oracle, so no particular hex-digit case is demanded)",
                 "the results do not depend on process-wide state that is not an argument: the global C++ locale, the C locale (only C / C.UTF-8 / POSIX "
                 "are installed here) and errno; a (pointer, size) range may sit at any address, have any length including 0, and nothing outside it is read",
                 "glibc isalnum() in the C locale for bytes >= 0x80 passed as negative char (escape_url)"],
    min_evaluations_quick=1000000,
    engine="rapidcheck + exhaustive enumerators; Hypothesis + serve shim",
    technique=("differential and inverse-function property testing: phosg's encoders/decoders against an independent in-harness RFC 4648 "
               "encoder, decoder and validity predicate, table-driven rot13, exactly-two-hex-digit unescapers, and against Python's base64 "
               "(validate=True), codecs rot13, urllib.parse.unquote_to_bytes/quote through a C++ serve shim; exhaustive small-scope "
               "enumeration + rapidcheck + Hypothesis"),
    level_text=("Exploration: the real functions (ASan+UBSan build of the working tree) are run on every input of the small scopes named in the "
                "property (3-byte strings for base64, rot13 and the escapers, 4/8-character texts over a 6-symbol alphabet, single-character "
                "corruptions, all ports) and on ~10^5..10^6 generated inputs; each result is compared with an independent implementation. "
                "Finds any defect with a witness in those scopes; not a proof for longer inputs."),
    level_note="Trusts the in-harness reference (cross-checked against Python by the second stage), Python's base64/binascii/codecs/urllib, and glibc's C-locale isalnum.",
)
