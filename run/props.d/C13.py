"""C13 - KDTree vs a brute-force multiset."""

_ASAN = ("abort_on_error=0:exitcode=97:detect_leaks=1:allocator_may_return_null=1:detect_stack_use_after_return=0:"
         "handle_abort=1:symbolize=1:max_allocation_size_mb=4096:quarantine_size_mb=16")
_DEPS = ["harness/c13/kd_harness.hh", "harness/c12/alloc_balance.hh"]

PROP = dict(
    level="exploration",
    stages=[
        # KDTree<Vector2<int64>, int64> and KDTree<Vector3<int64>, int64>: exhaustive 3x3 histories + rapidcheck
        dict(name="c13_kdtree", src="harness/c13_kdtree.cc", deps=_DEPS, env={"ASAN_OPTIONS": _ASAN},
             shards_quick=8, shards_thorough=16, timeout_quick=400, timeout_thorough=2400),
        # compile probe for KDTree::emplace (a probe that does not compile is a violation `compile/kdtree-emplace`),
        # then the same harness with emplace among the insertion operations
        dict(name="c13_gated", kind="pydriver", driver="oracle/c13_gated.py", env={"ASAN_OPTIONS": _ASAN},
             shards_quick=8, shards_thorough=16, timeout_quick=400, timeout_thorough=2400),
        # the same source without sanitizers: the deepest exhaustive level only (k=5 quick, k=6 thorough; ~5 us per
        # history instead of ~90 us under ASan, where every query and deletion allocates a std::deque)
        dict(name="c13_kdtree_o2", src="harness/c13_kdtree.cc", deps=_DEPS, flavor="o2",
             shards_quick=8, shards_thorough=16, timeout_quick=400, timeout_thorough=2400),
    ],
    rule=("A case is a whole history on one tree next to a std::vector<(point,value)>: insert / emplace, insert at the point of a "
          "live entry (duplicates, values 0..2 so equal values occur), erase(point,value) of a live or of an absent entry, and "
          "erase_advance sweeps with a hash predicate; after every mutation size(), the iteration multiset, at()/exists() of every "
          "live point and of absent points, within()/exists(low,high) of the single-cell box of every live point, of the whole grid "
          "and of all boxes with corners on the grid lines (2-D side <= 4: every box after every step; larger / 3-D: 10 sampled boxes "
          "per step) are compared with linear scans; the tree is destroyed at the end of the case in whatever state it is. "
          "Exhaustive: every insertion sequence of k cells of the 3x3 grid (repeats allowed) x every erase order, k <= 4 quick / "
          "<= 5 thorough under ASan (distinct and equal values), k = 5 / 6 in the unsanitized build. Random: rapidcheck histories of "
          "0..60 (quick) / 0..300 (thorough) operations on 2-D grids of side 2..12 and 3-D grids of side 2..4. Non-trivial: a "
          "history that erases an entry while at least two other entries are live and one of them shares a coordinate with it on "
          "some axis. Subchecks kdq2 / kdq3 (query-interleaved histories): the same operations plus generated lookups BETWEEN the "
          "mutations - probe(point), probe of a live entry's point, box query, battery with the live points visited in a rotated "
          "order - and a per-case policy of what is asked after a mutation: first the points that were looked up before it (most "
          "recent one / last three, newest or oldest first / none), then size() only, size + iteration, or the light battery (every "
          "mutation / every 8th); the battery always runs at the end of the history. Coordinate ranges 2..97; the tree is instantiated "
          "for Vector2/Vector3<int64_t>, Vector2/Vector3<double> (grid coordinate g -> (g - shift) * scale, scale in {0.25, 0.5, 0.125, 0.75, "
          "0.1, 1/3, 1, 2.5}: fractional coordinates sharing integer parts, partly negative) and Vector2<uint64_t> (around 2^63, from 0, "
          "just below 2^64); the model stays on the integer grid and the maps are strictly increasing. A quarter of the cases start "
          "with insertions that realise a chosen tree shape by construction: a spine of up to 115 levels turning before / after by a "
          "pattern (always after, always before, alternating, random, by axis, runs) with a 1-2 entry subtree on the other side of a "
          "level with probability 0, 1/4, 1/2 or 1 (comb-shaped trees), side subtrees inserted at once or after the spine. Exhaustive "
          "(kdq2): every insertion sequence of k <= 3 (quick) / 4 (thorough) cells of the 3x3 grid x every one of the 25 points of the "
          "grid and its ring looked up, then every single mutation (erase_advance of every non-empty subset of the entries while "
          "iterating, erase of each entry, insert at each cell), then the same lookup first and the lookups of all cells. "
          "Distinct = distinct case encodings (hash)."),
    assumptions=["single-threaded use", "at() of an absent point throws std::out_of_range",
                 "in the exhaustive blocks the full battery runs after the insertions and after those erases that reach a state for "
                 "the first time in lexicographic order of the erase orders (the same tree is rebuilt for every order)",
                 "k=6 (thorough) and k=5 (quick) exhaustive levels run without sanitizers: functional equality only",
                 "the tree is a template over the point type; besides the int64_t grids the property names it is instantiated for double and "
                 "uint64_t coordinates obtained from the integer grid through a strictly increasing map (order, ties and half-open boxes carry "
                 "over exactly; double coordinates are finite, |x| < 250; no NaN)",
                 "lookups are const operations: a history may interleave them with the mutations in any order and every answer must agree "
                 "with the linear scan at that moment"],
    min_evaluations_quick=100000,
    min_per_check_quick={"kdq2": 100000, "kdq3": 3000},
    engine="rapidcheck + exhaustive enumerators",
    technique=("model-based stateful testing: exhaustive enumeration of insertion sequences x erase orders on a 3x3 grid + rapidcheck "
               "random histories against a brute-force multiset with a full query battery after every mutation, plus histories whose lookups "
               "are generated operations themselves (order and subset vary), tree shapes built by construction (deep combs) and double / "
               "uint64_t coordinate instantiations; ASan/UBSan at "
               "destruction, per-history heap-block balance + LeakSanitizer; compile probe for the never-instantiated emplace"),
    level_text=("Exploration: every history runs the real template (ASan+UBSan build of the working tree) next to a plain vector and "
                "asks every kind of query after every mutation; all histories of the stated shape on the 3x3 grid are enumerated, "
                "larger grids, 3-D points and interleaved insert/erase/sweep histories are sampled. It finds any lost, duplicated or "
                "phantom entry, wrong erase result, skipped or repeated entry of an erase_advance sweep, unsafe destruction or leak "
                "with a witness in those scopes; it is not a proof for arbitrary point sets."),
    level_note=("Trusts the compiler, libstdc++, the sanitizers and phosg::Vector2/Vector3 (at(), ==) as coordinate carriers; "
                "the non-trivial rule is measured from the model (coordinate sharing), not from the tree's actual shape."),
)
