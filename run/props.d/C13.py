"""C13 - KDTree vs a brute-force multiset."""

_ASAN = ("abort_on_error=0:exitcode=97:detect_leaks=1:allocator_may_return_null=1:detect_stack_use_after_return=0:"
         "handle_abort=1:symbolize=1:max_allocation_size_mb=4096:quarantine_size_mb=16")
_DEPS = ["harness/c13/kd_harness.hh", "harness/c12/alloc_balance.hh"]

PROP = dict(
    level="exploration",
    stages=[
        # KDTree<Vector2<int64>, int64> and KDTree<Vector3<int64>, int64>: exhaustive 3x3 histories + rapidcheck
        dict(name="c13_kdtree", src="harness/c13_kdtree.cc", deps=_DEPS, env={"ASAN_OPTIONS": _ASAN},
             shards_quick=8, shards_thorough=16, timeout_quick=400, timeout_thorough=2400),
        # compile probe for KDTree::emplace (a probe that does not compile is a violation `compile/kdtree-emplace`),
        # then the same harness with emplace among the insertion operations
        dict(name="c13_gated", kind="pydriver", driver="oracle/c13_gated.py", env={"ASAN_OPTIONS": _ASAN},
             shards_quick=8, shards_thorough=16, timeout_quick=400, timeout_thorough=2400),
        # the same source without sanitizers: the deepest exhaustive level only (k=5 quick, k=6 thorough; ~5 us per
        # history instead of ~90 us under ASan, where every query and deletion allocates a std::deque) + the tallest chains (kdchain_o2)
        dict(name="c13_kdtree_o2", src="harness/c13_kdtree.cc", deps=_DEPS, flavor="o2",
             shards_quick=8, shards_thorough=16, timeout_quick=400, timeout_thorough=2400),
    ],
    rule=("A case is a whole history on one tree next to a std::vector<(point,value)>: insert / emplace, insert at the point of a "
          "live entry (duplicates, values 0..2 so equal values occur), erase(point,value) of a live or of an absent entry, and "
          "erase_advance sweeps with a hash predicate; after every mutation size(), the iteration multiset, at()/exists() of every "
          "live point and of absent points, within()/exists(low,high) of the single-cell box of every live point, of the whole grid "
          "and of all boxes with corners on the grid lines (2-D side <= 4: every box after every step; larger / 3-D: 10 sampled boxes "
          "per step) are compared with linear scans; the tree is destroyed at the end of the case in whatever state it is. "
          "Exhaustive: every insertion sequence of k cells of the 3x3 grid (repeats allowed) x every erase order, k <= 4 quick / "
          "<= 5 thorough under ASan (distinct and equal values), k = 5 / 6 in the unsanitized build. Random: rapidcheck histories of "
          "0..60 (quick) / 0..300 (thorough) operations on 2-D grids of side 2..12 and 3-D grids of side 2..4. Non-trivial: a "
          "history that erases an entry while at least two other entries are live and one of them shares a coordinate with it on "
          "some axis. Subchecks kdq2 / kdq3 (query-interleaved histories): the same operations plus generated lookups BETWEEN the "
          "mutations - probe(point), probe of a live entry's point, box query, battery with the live points visited in a rotated "
          "order - and a per-case policy of what is asked after a mutation: first the points that were looked up before it (most "
          "recent one / last three, newest or oldest first / none), then size() only, size + iteration, or the light battery (every "
          "mutation / every 8th); the battery always runs at the end of the history. Coordinate ranges 2..97; the tree is instantiated "
          "for Vector2/Vector3<int64_t>, Vector2/Vector3<double> (grid coordinate g -> (g - shift) * scale, scale in {0.25, 0.5, 0.125, 0.75, "
          "0.1, 1/3, 1, 2.5}: fractional coordinates sharing integer parts, partly negative) and Vector2<uint64_t> (around 2^63, from 0, "
          "just below 2^64); the model stays on the integer grid and the maps are strictly increasing. A quarter of the cases start "
          "with insertions that realise a chosen tree shape by construction: a spine of up to 115 levels turning before / after by a "
          "pattern (always after, always before, alternating, random, by axis, runs) with a 1-2 entry subtree on the other side of a "
          "level with probability 0, 1/4, 1/2 or 1 (comb-shaped trees), side subtrees inserted at once or after the spine. Exhaustive "
          "(kdq2): every insertion sequence of k <= 3 (quick) / 4 (thorough) cells of the 3x3 grid x every one of the 25 points of the "
          "grid and its ring looked up, then every single mutation (erase_advance of every non-empty subset of the entries while "
          "iterating, erase of each entry, insert at each cell), then the same lookup first and the lookups of all cells. "
          "Iterators: Iterator declares std::forward_iterator_tag, so a copy is an independent position, it++ returns the old position "
          "and ++(it++) == it. Wherever the battery iterates it also walks to a position chosen by the case (every position of trees of up "
          "to 8 entries where the fullest battery runs: after the insertions of every exhaustive block and at the end of small-grid "
          "histories; one position per state elsewhere, a quarter of the states in the innermost exhaustive loops) by a mix of ++it / it++ / "
          "continuing on the iterator it++ returned / continuing on an advanced copy, checks the iterator returned by it++ there (equal to "
          "a copy taken before, designates the old entry, ++ of it equals the incremented iterator) and walks the returned iterator, the "
          "earlier copy and the incremented iterator to end() one after the other, with ++c and with *c++: each must visit exactly what "
          "the plain walk visits from that position. Two thirds of the erase_advance sweeps mix the same stepping styles and call "
          "erase_advance on a copy that is assigned back (an iterator other than the one handed to erase_advance is never used again "
          "before it is assigned to). Subcheck kdchain (tall chains, ASan build and unsanitized build): the tree never rebalances, so n "
          "entries inserted in a monotone order are a chain n levels deep - ascending diagonal (all after_or_equal), descending (all "
          "before), n entries at one point, ascending then half of them at the deepest point, zigzag (after / before alternately), "
          "staircase (one axis grows per step, the others tie), 2-D and 3-D. The whole case runs on a thread created with a 128..512 KiB "
          "stack (default sizes of secondary threads: musl 128 KiB, macOS 512 KiB): n inserts; size + iteration + iterator positions; "
          "at/exists of both ends, the middle, chosen entries and absent points; within/exists(low,high) of the whole range, empty, "
          "inverted, single-cell, segment and slab boxes; then (unless the case says 'destroy full') erase(point,value) of the root, the "
          "deepest entry, the middle and five chosen entries, erases of absent entries, an erase_advance sweep removing every "
          "(n/24)-th entry it meets (everything the sweep meets, stepped over or erased, must be the model's multiset), the queries "
          "again; finally the tree is destroyed on that thread and the heap balance is checked. Any operation whose stack use grows with "
          "the height of the tree faults there (ASan: stack-overflow; unsanitized: SIGSEGV) and the driver attributes the crash to the "
          "case. Every quick run: each shape once with 12000 (ASan) / 24000 (unsanitized) entries on 256 KiB, plus 8 generated cases per "
          "build with 6000..16000 / 10000..40000 entries (thorough: up to 30000 / 80000; one case in five is a short chain). "
          "Distinct = distinct case encodings (hash). "
          "Signed zeros (kdq2 / kdq3, double coordinates): in half of the double cases the zero coordinate (grid line g = shift) is spelled with "
          "different signs when a point is stored and when it is queried - stored -0.0 / queried +0.0, stored +0.0 / queried -0.0, or mixed by "
          "insertion number and axis - for at / exists / erase and the corners of boxes; the model stays on the integer grid, i.e. compares "
          "coordinates by IEEE == (and the harness compares points coordinate-wise, not through Vector::operator==). "
          "Exceptions (kdx, KDTree<Vector2/3<int64_t>, ThrowingValue>): histories of insert / emplace / duplicate insert / erase / sweep in which "
          "the k-th (k = 1, 2) copy construction of the value during a chosen insertion throws; after an insertion that ended with an exception "
          "size() must equal the number of entries the iteration visits, that number must be the old one or the old one + 1 (the exception may come "
          "from building the returned iterator, after the entry was stored), and the full battery compares the tree with the model chosen that way; "
          "no value object may be left alive or used after destruction when the tree is gone. Exhaustive: every sequence of 1..3 (thorough 4) "
          "insertions into the 3x3 grid x every subset of them failing, followed by an insertion, an erase and an emptying sweep; random: 5000 histories"),
    assumptions=["an insertion that exits with an exception (copying the value threw) leaves the tree a multiset a plain list could be - with or "
                 "without that entry, which the statement leaves open - so size(), iteration and all queries still agree with each other",
                 "+0.0 and -0.0 are the same coordinate (IEEE ==; neither is smaller than the other)",
                 "single-threaded use", "at() of an absent point throws std::out_of_range",
                 "in the exhaustive blocks the full battery runs after the insertions and after those erases that reach a state for "
                 "the first time in lexicographic order of the erase orders (the same tree is rebuilt for every order)",
                 "k=6 (thorough) and k=5 (quick) exhaustive levels run without sanitizers: functional equality only",
                 "the tree is a template over the point type; besides the int64_t grids the property names it is instantiated for double and "
                 "uint64_t coordinates obtained from the integer grid through a strictly increasing map (order, ties and half-open boxes carry "
                 "over exactly; double coordinates are finite, |x| < 250; no NaN)",
                 "lookups are const operations: a history may interleave them with the mutations in any order and every answer must agree "
                 "with the linear scan at that moment",
                 "Iterator is a forward iterator as it declares (iterator_category = std::forward_iterator_tag): copies are independent "
                 "positions over an unchanged tree and it++ returns the old position (multipass guarantee); after erase_advance(it) only `it` "
                 "is used - what happens to other iterators is left open and never asserted",
                 "'safe in every state' includes tall trees: the operations the property names (insert, erase, erase_advance, iteration, at, "
                 "exists, within, exists(low,high), destruction) must work on a chain of up to 16000 (ASan) / 40000 entries (quick; 30000 / "
                 "80000 thorough) within a 128 KiB thread stack, i.e. with stack use that does not grow with the height of the tree; depth() "
                 "(recursive by design, not named by the property) is not called",
                 "a chain case asserts nothing about the tree's internal shape: that the insertion orders really give one chain is recorded "
                 "as a class label (breadth-first iteration order = insertion order), not checked"],
    min_evaluations_quick=100000,
    min_per_check_quick={"kdq2": 100000, "kdq3": 3000, "kdchain": 12, "kdchain_o2": 12},
    engine="rapidcheck + exhaustive enumerators",
    technique=("model-based stateful testing: exhaustive enumeration of insertion sequences x erase orders on a 3x3 grid + rapidcheck "
               "random histories against a brute-force multiset with a full query battery after every mutation, plus histories whose lookups "
               "are generated operations themselves (order and subset vary), tree shapes built by construction (deep combs) and double / "
               "uint64_t coordinate instantiations; forward-iterator laws (copies, it++, ++(it++) == it) checked at chosen / all positions and "
               "mixed stepping styles in the erase_advance sweeps; resource-scaled cases: chains of 10^4..10^5 levels built, queried, erased "
               "from and destroyed on a thread with a 128..512 KiB stack (stack overflow = crash attributed to the case); ASan/UBSan at "
               "destruction, per-history heap-block balance + LeakSanitizer; compile probe for the never-instantiated emplace"),
    level_text=("Exploration: every history runs the real template (ASan+UBSan build of the working tree) next to a plain vector and "
                "asks every kind of query after every mutation; all histories of the stated shape on the 3x3 grid are enumerated, "
                "larger grids, 3-D points and interleaved insert/erase/sweep histories are sampled. It finds any lost, duplicated or "
                "phantom entry, wrong erase result, skipped or repeated entry of an erase_advance sweep, iterator copy or post-increment "
                "that does not continue like the original, unsafe destruction or leak with a witness in those scopes, and stack use "
                "proportional to the tree height (up to the chain depths stated in the rule); it is not a proof for arbitrary point sets."),
    level_note=("Trusts the compiler, libstdc++, the sanitizers and phosg::Vector2/Vector3 (at(), ==) as coordinate carriers; "
                "the non-trivial rule is measured from the model (coordinate sharing), not from the tree's actual shape."),
)
