"""C03 - endian-explicit scalar wrappers, bswap helpers, sign_extend/ext24/ext48."""

PROP = dict(
    level="exploration",
    stages=[
        dict(name="c03_endian", src="harness/c03_endian.cc", flags=["-fwrapv"],
             shards_quick=8, shards_thorough=16, timeout_quick=400, timeout_thorough=1500),
        # all 2^32 values; -O2 without sanitizers (throughput; memory safety is covered by the asan stage)
        dict(name="c03_sweep32", src="harness/c03_endian.cc", flags=["-fwrapv", "-DC03_SWEEP32"], flavor="o2",
             thorough_only=True, shards_thorough=16, timeout_thorough=1500),
        # include order: one small probe program per public header H (H is the first include of the TU, then Encoding.hh),
        # byte layout / load() of all 24 wrappers against struct.pack in the named order (oracle/c03_include_order.py)
        dict(name="c03_include_order", kind="pydriver", driver="oracle/c03_include_order.py",
             shards_quick=8, shards_thorough=8, timeout_quick=300, timeout_thorough=600),
    ],
    rule=("exhaustive small scopes: all 24 wrappers {le,be,re} x {u16,s16,u32,s32,u64,s64,float,double} x 19 operations (construct, =, store, "
          "+= -= *= /= %= &= |= ^= <<= >>=, ++x x++ --x x--, copy, store_raw/load_raw) x 3 operand types (same type, int, int64_t/double) "
          "x a 24..31-value boundary set for the initial value and for the operand; chain: all 24 wrappers x chained expressions `(x op1 d1) op2 d2` "
          "with op1 in {=, the ten compound assignments, ++x, --x} (the operators that yield the object itself on the native type) and op2 the same "
          "plus x++ / x--, x 2 operand kinds x boundary values: stored bytes of the ORIGINAL object and value of the whole expression against the "
          "same expression on a native variable (plus 120k rapidcheck cases); every operator is applied through a forwarding reference, so the harness "
          "compiles whether an operator returns a reference or a value, and the value category / identity of the result (`returned-ref`) is decided at "
          "run time; all 2^16 initial values of the six 16-bit wrappers x every "
          "operation x the operand set; every value of the 8/16-bit bswap forms and of every 8/16-bit sign_extend source for all wider results; "
          "all 2^24 arguments of ext24, bswap24, bswap24s; thorough: all 2^32 values through the nine 32-bit wrappers and the 32-bit "
          "bswap/sign_extend forms (-O2 stage). Sampled: rapidcheck cases (boundary-biased 64-bit patterns, float special values) and a dense "
          "pseudo-random stream over the 32/48/64-bit domains (a pure function of VERIF_SEED, shard and block). Operator/operand pairs that are "
          "undefined on the native type (division by zero, INT_MIN / -1, shift counts outside the promoted width, bit operators on floats) are "
          "left out by construction and counted under `excluded`. Non-trivial: the value has its top bit set or its byte pattern is not a "
          "palindrome (sign_extend/extNN: top bit of the narrow value set). Distinct = distinct case encodings; inside hot loops the 16-bit "
          "sweep registers each (wrapper, value) once and the 2^24 / 2^32 / pseudo-random sweeps register a 1/64, 1/4096, 1/16 subsample, so the "
          "distinct count is a lower bound. include_order (own stage): the byte order the templates assume is chosen by the preprocessor "
          "in Platform.hh, so \"always ... in the named byte order\" is also checked per translation unit: for every public header H of the "
          "tree (all src/*.hh except the -inl.hh parts) a probe program whose very first include is H, then Encoding.hh, and only then "
          "standard headers (plus the probe with Encoding.hh alone), compiled at -O0 and -O2; all 24 wrappers x 10-11 boundary bit patterns: "
          "sizeof, object bytes after construction / assignment / store(), load(), the conversion operator, and load() of memcpy'd bytes "
          "against struct.pack in the named order (computed in Python). The same probe calls the 50 functions of Encoding.hh (bswap8/16/24/24s/"
          "32/48/48s/64, bswap32f/bswap64f both ways, bswap<> for the 12 specialisations, ext24, ext48, all 24 sign_extend<R,S> pairs) on "
          "boundary values (also with garbage above the low N bits for the 24/48-bit forms): byte reversal, involution, sign extension, top-bit "
          "replication against Python integers. Because Encoding.hh is header-only and is compiled at the CONSUMER's language level, the probes "
          "with Encoding.hh / Platform.hh / Strings.hh first are additionally built with clang++ -std=c++2b, g++ -std=c++20 and g++ -std=c++23 "
          "(thorough: every header), i.e. with and without the C++23 library (__cpp_lib_byteswap etc.); the configuration each probe saw "
          "(__cplusplus, std::byteswap available) is recorded as a class."),
    assumptions=["include_order: a header that cannot be compiled as the first include of a translation unit is recorded under `excluded`, not judged",
                 "include_order: language levels / compilers are those installed here (clang++ 14 and g++ 12 with libstdc++ 12: C++20 and C++23); a missing "
                 "compiler is recorded under `excluded`",
                 "= and the compound assignments must return an lvalue designating the object (as on the native type); ++x / --x may return either that "
                 "or a scalar prvalue (the tree returns the new value by value: chained use then does not compile instead of misbehaving, which is counted "
                 "as class `chain:not-expressible-on-the-wrapper`); x++ / x-- are compared by value only",
                 "little-endian host (the harness observes the host order at run time; big-endian hosts are not exercised)",
                 "harness and the wrapper templates instantiated in it are compiled with -fwrapv, so signed wrap-around is the same defined "
                 "operation on both sides",
                 "results of floating-point arithmetic are compared bit-exactly except that any NaN equals any NaN; store/load/assign/copy are "
                 "bit-exact for every pattern including signalling NaNs",
                 "ext24/ext48 take values that fit in 24/48 bits; bswap24/48 accept garbage above the low N bits and must ignore it",
                 "shift counts are valid when 0 <= n < width of the promoted left operand (C++20 semantics)"],
    min_evaluations_quick=1000000,
    engine="rapidcheck + exhaustive enumerators",
    technique=("model-based property testing: each wrapper operation is executed on a wrapper placed at an odd address between guard bytes and on a "
               "native variable; object bytes (decoded independently in the named order), load()/conversion, the operator's return value and "
               "reference identity / value category are compared, chained operator expressions are compared with the same chain on the native type; bswap/sign_extend/extNN against std::reverse on a byte array and (x ^ m) - m; exhaustive "
               "small-scope enumeration + rapidcheck + dense pseudo-random sampling"),
    level_text=("Exploration: the real templates (ASan+UBSan build of the working tree, plus an -O2 build for the 2^32 sweeps) run against a native "
                "reference; 8/16/24-bit scopes are enumerated completely (32-bit in the thorough tier), 48/64-bit domains are covered by boundary "
                "sets and ~10^7 (quick) / ~10^8 (thorough) samples. Finds any defect with a witness in those scopes; not a proof for all 64-bit "
                "values or for big-endian hosts."),
    level_note="Trusts the compiler's native integer/float arithmetic as the reference and the harness's byte-wise encoder/decoder.",
)
