"""C05 - JSON parser total and standard-conformant."""

_DEPS = ("harness/c04/tree.hh", "harness/c05/refjson.hh", "harness/c05/oracle.hh")

PROP = dict(
    level="exploration",
    stages=[
        dict(name="c05_json", src="harness/c05_json_parse.cc", deps=_DEPS,
             shards_quick=8, shards_thorough=16, timeout_quick=400, timeout_thorough=1500),
        dict(name="c05_fuzz", kind="fuzz", src="fuzz/c05_json.cc", corpus="corpus/c05", dict="fuzz/c05_json.dict", max_len=4096,
             deps=_DEPS + ("fuzz/c05_json.dict",),
             seconds_quick=20, seconds_thorough=600, workers_quick=8, workers_thorough=16, replay_ext="fuzz"),
    ],
    rule="tbd",
    assumptions=[],
    min_evaluations_quick=1000,
    technique="tbd", level_text="tbd", level_note="tbd",
)
