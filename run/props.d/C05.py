"""C05 - JSON parser is total and standard-conformant; strict mode = no extensions."""

_DEPS = ("harness/c04/tree.hh", "harness/c05/refjson.hh", "harness/c05/oracle.hh")

PROP = dict(
    level="exploration",
    stages=[
        dict(name="c05_json", src="harness/c05_json_parse.cc", deps=_DEPS,
             shards_quick=8, shards_thorough=16, timeout_quick=400, timeout_thorough=1500),
        dict(name="c05_fuzz", kind="fuzz", src="fuzz/c05_json.cc", corpus="corpus/c05/seeds", dict="fuzz/c05_json.dict", max_len=4096,
             deps=_DEPS + ("fuzz/c05_json.dict",),
             seconds_quick=20, seconds_thorough=480, workers_quick=8, workers_thorough=16, replay_ext="fuzz"),
        dict(name="c05_fuzz_empty", kind="fuzz", src="fuzz/c05_json.cc", corpus="corpus/c05/seeds", empty_corpus=True, max_len=512,
             deps=_DEPS, thorough_only=True, seconds_thorough=90, workers_thorough=8, replay_ext="fuzz"),
        dict(name="c05_py", kind="pydriver", driver="oracle/c05_json_py.py", shim="shim/c05_shim.cc",
             deps=_DEPS + ("shim/shim.hh", "oracle/c04_tree.py", "oracle/hyp_common.py"),
             shards_quick=8, shards_thorough=16, timeout_quick=400, timeout_thorough=1500),
    ],
    rule=("Evaluations count texts given to the parser (each text goes through the three entry points in default and strict mode). "
          "(a) libFuzzer: arbitrary bytes (seed corpus = JSONTest literals, grammar samples, extension samples; thorough also from an "
          "empty corpus); non-trivial = the first non-blank byte opens a container or a string; distinct by text hash. (b) grammar "
          "documents built by construction (rapidcheck in C++, Hypothesis in Python): arbitrary inter-token whitespace, all escapes incl. "
          "\\/ and \\u0000-\\u00ff in both hex cases, raw ASCII 0x20-0x7F, number forms -0, 0.5, 1e5, 1E+2, 5e-1, 1.25E-3, integers to "
          "the int64 boundaries, integer parts of 1..25 digits for non-integers, exponents keeping the value within 1e-290..1e290, "
          "a quarter of the exponents spelled with leading zeros (1..3 or 0..20 of them; enumerated: 0..20 leading zeros x 7 exponent "
          "values x {none,+,-} x 5 mantissas), "
          "un-normalised mantissas (integer parts of up to 38 digits, 0.000..d with up to 35 leading zeros) whose exponent alone runs to "
          "+-327 while the value stays within 1e-290..1e291 (random, and enumerated: 74 mantissa scales x 11 value scales), unique "
          "keys, empty containers anywhere, nesting up to 500; one document in 40 (C++; about one in 25 in Python) is a container of 2..5 "
          "strings - keys and values - with structural characters in bulk (up to 2600 of [ ] { } , : / blank, escaped quotes, escaped "
          "backslashes: runs of one element, mostly-opening mixes, uniform mixes, text that looks like nested containers; documents of "
          "1..30 KB) each ending in nothing, 1..3 escaped backslashes or an escaped quote (enumerated: 5 endings of a first string x "
          "bulk strings of 300/1200/2500 elements of every theme and element, as list items and as key + value); each with a generated suffix (reader extent), trailing whitespace and "
          "trailing garbage; one document in four also followed by 1..3 complete // comment lines (ended by \\n, \\r or \\r\\n, whitespace between them): the string "
          "entry points accept that with the document's value in default mode, reject it in strict mode, and reject in both modes any non-whitespace (bytes, a "
          "numeral, a literal, a second document, a lone /) standing after the line break that ends the last comment (enumerated: 47 fixed documents x 4 comment "
          "tails x 6 kinds of data); plus documents with exactly one injected extension (trailing comma, hex integer, n/t/f, // comment); "
          "non-trivial = nesting >= 2 and a fraction/exponent numeral or an escape (every extension case counts). (c) every proper prefix "
          "and every single-byte delete/replace/insert over 28 structural bytes of 47 fixed documents and 23 fixed non-standard texts (among them documents followed by complete // comment lines) (complete) and of generated documents; "
          "non-trivial = the base document is a container of >= 6 bytes. (d) streams: 2..24 texts (documents, proper prefixes, single-byte "
          "edits, unstructured bytes; a third of the streams built from documents nested up to 500 deep) parsed one after the other on one "
          "fresh thread, two thirds of the streams through the reader entry point only, the others with the string entry points mixed in; "
          "enumerated: every proper prefix of the 47 fixed documents as one stream followed by the documents, and the prefixes of "
          "documents nested 20/100/500 deep followed by valid documents; every text of a stream that is a standard document must be "
          "accepted with the reference value and extent whatever was parsed or rejected before it; non-trivial = a standard document "
          "is read after a rejected text. Distinct = distinct case encodings (hash)."),
    assumptions=["bracket nesting <= 500: inputs with more than 500 opening brackets are skipped and counted",
                 "numerals whose exponent VALUE exceeds 999 (more than 3 digits after its leading zeros) are skipped and counted (outside the stated domain; they only make "
                 "the scanner loop up to 2^31 times); the spelling does not count: exp = e [+-] 1*DIGIT, so 1e0000000002 is the number 100 and is checked",
                 "the textual skip rule of the fuzz target and of the edit enumeration counts [ and { anywhere in the text (also inside strings); the grammar documents "
                 "are classified by the reference reader, so brackets inside strings do not count as nesting there",
                 "a document counts as 'standard-compliant inside the domain' when the reference reader accepts it and it has unique keys, no raw byte >= 0x80 in strings, "
                 "\\u escapes <= U+00FF, plain integers within int64, non-integers that are zero or within 1e-300..1e300 in magnitude, and at most 40 digits per numeral",
                 "non-integer numbers are compared to 1e-9 relative (phosg's scanner is not correctly rounded), integers exactly; an integer-valued numeral with an exponent may come back as int or float",
                 "a stream case carries its whole prelude and runs on a fresh thread, so that it replays on its own; texts of a stream that are not standard documents "
                 "are only checked for the exception type (their outcome is not compared with the outcome in isolation)",
                 "rejection = JSON::parse_error or std::out_of_range (both documented); which of the two is not asserted",
                 "a // comment runs from // to the next line break (\\n or \\r, as inside a document) or to the end of the text; the one-text oracle (fuzz target, edit "
                 "enumeration, streams) models the region after the value as whitespace and // comments in default mode: the string entry points must accept "
                 "when nothing else follows and must reject when a byte that is neither whitespace nor the start of a // comment follows (a lone / is such a byte)",
                 "non-standard texts that are not one of the four documented extensions (e.g. '-', '007', '1.', \\x41, raw control bytes in strings) are only required to be handled without crash or foreign exception type"],
    min_evaluations_quick=100000,
    engine="libFuzzer + Hypothesis (Python json.loads) + rapidcheck + exhaustive enumerators",
    technique=("differential and fault-exploration testing of the parser: coverage-guided byte fuzzing with the oracle inside the target, "
               "grammar-based generation of standard documents compared against Python's json.loads and against an independent RFC 8259 "
               "reader written for the harness (itself cross-checked against json.loads on every generated text and on every single-byte "
               "edit), one-extension injection for strict mode, and exhaustive prefix / single-edit enumeration; all on an ASan+UBSan "
               "build with exactly sized input buffers"),
    level_text=("Exploration: about 10^6 texts per quick run (10^8 in the thorough tier) are pushed through all three entry points in both "
                "modes; any text that makes the parser crash, read outside its input, throw an undocumented exception type, disagree "
                "between entry points, mis-value a standard document, accept an extension in strict mode or mis-report the extent of a "
                "value is reported with a replay file. It does not prove totality for all byte strings."),
    level_note=("Trusts CPython's json module and the harness reader as references; the 1e-9 tolerance, the cut at exponent values above 999 and the "
                "1e-300..1e300 range are deliberate limits (DESIGN.md section 6)."),
)
