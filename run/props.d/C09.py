"""C09 - binary<->text renderings are faithful: data strings and hex dumps decode back."""

PROP = dict(
    level="exploration",
    stages=[
        dict(name="c09_data", src="harness/c09_data.cc", deps=["harness/c09/ref.hh"], shards_quick=8, shards_thorough=16,
             # the sparse dumps of up to 2^33 bytes legitimately take close to a minute of CPU each: raise the per-case CPU watchdog
             env={"VERIF_CASE_CPU_LIMIT": "900"},
             timeout_quick=400, timeout_thorough=1500),
        # deps must be a tuple here: run/stages.py concatenates it with a tuple
        dict(name="c09_fuzz", kind="fuzz", src="fuzz/c09_parse.cc", deps=("harness/c09/ref.hh",), corpus="corpus/c09/fuzz", dict="fuzz/c09_parse.dict",
             max_len=512, seconds_quick=15, seconds_thorough=300, workers_quick=8, workers_thorough=16, replay_ext="fuzz"),
        # the parse-data program (src/ParseData.cc, own main()): built from the tree under test by the driver, then harness/c09_tool.cc
        # feeds it generated texts of 0..1 MB as a file argument, on redirected stdin and through a pipe
        dict(name="c09_tool", kind="pydriver", driver="oracle/c09_tool.py", shards_quick=8, shards_thorough=16,
             timeout_quick=400, timeout_thorough=1500),
    ],
    rule=("(a) round trip: every string of length <= 5 (quick) / 6 (thorough) over {\\ \" ' n ? a LF NUL} x {no mask, HEX_ONLY, alternating mask, "
          "hash-derived mask}, every byte value alone and paired with each metacharacter x 4 masks x both flags, plus rapidcheck byte strings of "
          "0..600 bytes (all values / printable-only / metacharacter-rich) with run-structured masks; non-trivial = data contains one of "
          "\\ \" ' ? $ # % / * < or the mask toggles at least twice. (b) parser: 30 hand-written construct samples alone and in ordered pairs x "
          "endianness x mask state x toggles (expected bytes written by hand), rapidcheck grammar-generated texts whose expected bytes are known by "
          "construction (hex pairs with separators, // and /* */ comments, \"...\" and '...' strings with escapes, ? and $ toggles, # ## ### #### "
          "decimal/negative/0x numerals in range, % and %% floats printed with %.9g/%.17g or with up to 60 significant digits, and float literals "
          "that need correct rounding: long decimal literals (up to ~770 digits) and C99 hexadecimal literals (up to 100 extra bits) just below, exactly on "
          "and just above the midpoint of two adjacent singles (%) / doubles (%%), plain or in exponent notation, either sign - the bytes are those of the "
          "value NEAREST to the literal (ties to even), i.e. the literal is rounded once to the width asked for; expected bits built with integer arithmetic: "
          "enumerated for all 253 binades of the single format incl. subnormals and 190 double binades x edge/inner neighbour pairs x below/on/above x decimal/hex, "
          "generated for arbitrary neighbour pairs), mutated grammar texts and random texts (totality; "
          "compared with the reference interpreter when they stay inside the documented syntax), and a coverage-guided libFuzzer campaign on arbitrary "
          "text with the same oracle; non-trivial = the text contains at least one non-hex construct. (b2) the parse-data tool (src/ParseData.cc, built from the tree under "
          "test): generated texts of 0..1 MB (lengths: tiny, up to 8 KiB, within 300 of every power of two from 2^12 to 2^20, log-uniform up to 1 MiB; "
          "exhaustive part: 5 profiles x lengths {0,1,2,100,4095..4097,65535..65537,200000}) built from the documented constructs with parser "
          "state that lives across line boundaries ($ switched on over thousands of lines with ## ### #### numerals, floats and '...' strings inside, "
          "/* */ comments of up to 150 KB full of data look-alikes, \"...\" strings with raw newlines, a hex pair split by a newline, ? toggles); "
          "expected bytes by construction, cross-checked with the reference interpreter; the text is delivered as a file argument, on stdin "
          "redirected from a file and on stdin through a pipe (written in chunks of a generated size), the output taken from stdout or from the "
          "file named by the second argument, with and without explicit '-' arguments: exit status 0 and output == expected for each delivery; the "
          "library call on the same long text is compared too. (b3) how the text ends (subcheck tooltail): a generated documented text of 0..20000 characters "
          "(also ending within 40 characters of 4096 / 65536) followed by a tail - an open \"...\" or '...' string (with content, optionally a backslash last), an "
          "open /* comment, a // comment without its newline, a # ## ### #### % %% marker with or without a numeral, a single hex digit, a cut through the generated "
          "text at an arbitrary character, or nothing - and then 0..8 bytes drawn from space / tab / CR / LF (data inside an open string); exhaustive part: 2 heads x 14 "
          "tails x every blank string of length 0..2. The tool is the command-line face of the parser: for each of the three deliveries exit status 0 and output == "
          "parse_data_string(exactly the bytes delivered) as computed in-process by the library of the same tree (mask.size() == data.size() there); where the "
          "reference interpreter says the whole text is documented syntax the library bytes and mask equal the reference's too; non-trivial = the text ends in an "
          "unfinished construct or in a blank. (c) dumps: every 1-4-way partition of buffers "
          "of 0..12/20 bytes, every third/every combination of column, float-endianness, offset-width, colour, collapse and separator flags on 5 data "
          "shapes x 4 start addresses x with/without previous buffer, every size 0..48 at every alignment at 7 base addresses (incl. 2^64-80, 2^64-48, 2^64-16), plus rapidcheck dumps of 0..600 bytes with "
          "planted zero runs and float specials at start addresses 0, aligned, unaligned, around 2^8/2^16/2^32 and near the top of the address space (dumps ending up to and including 2^64); non-trivial = "
          "unaligned start, more than one iovec, or a collapsible zero run. (c2) dumps of more than 2^31 / 2^32 bytes (subcheck bigdump), requested through thousands of "
          "iovecs aliasing one block of about 1 MiB: the first 1..5 lines through the callback overload (the callback throws once they are complete) for totals "
          "on, just below and just above 2^31, 2^32, 2^32+2^31, 2^33, 3*2^32 (-1 MiB, -17..+17, +100, +1 MiB, +700 MiB; generated: up to ~18 GiB) x start addresses "
          "aligned / unaligned / across 2^32 / ending at 2^64 x flag sets, decoded by the column decoder against the block pattern; and sparse dumps walked to the "
          "end with COLLAPSE_ZERO_LINES (zero background, islands of non-zero bytes at the start, around 2^31 / 2^32 / 2^31+2^32 bytes from the start and before the "
          "end, in the middle and at the very end; 1 dump of 2^31+3 MiB in quick, 7 dumps up to 2^33 bytes in thorough, through the iovec / callback / vector / "
          "print_data entry points): exactly the first line, the last line and the island lines, each decoded and compared; non-trivial = total > 2^31. Distinct = distinct case encodings / fuzz inputs (hash)."),
    assumptions=["hex dumps: any ECMA-48 SGR spelling of the highlight (bold and/or a foreground colour; inverse video is tracked separately), blanks that separate or pad cells may be inside or outside the highlighted run; with COLLAPSE_ZERO_LINES an all-zero interior line may be omitted but need not be (kept lines are decoded and compared like any other)",
                 "hex-dump callers pass a previous buffer of exactly the data size (the print_data contract)",
                 "start + size <= 2^64 (a dump cannot extend beyond the 64-bit address space)",
                 "at most one of the OFFSET_* flags and at most one float-endianness flag per dump",
                 "little-endian host (float columns without an endianness flag are decoded as little-endian)",
                 "parse_data_string is called without ALLOW_FILES; texts outside the documented syntax (dangling escapes, empty or out-of-range "
                 "numerals, inf/nan floats, hexadecimal floats without digits or without a binary exponent, floats whose value is outside the finite "
                 "non-zero range of the format, NUL bytes, a construct between the two digits of a hex pair) are only required to be handled "
                 "without crash and with mask.size() == data.size()",
                 "tooltail: for a text that stops inside an open string / comment / numeral the syntax documents no closing, so no byte expectation is "
                 "built from the syntax; the only expectation is that the tool prints what parse_data_string of the same tree returns for the same bytes",
                 "NaN fields of the float columns are compared ignoring the sign",
                 "a float literal denotes the IEEE-754 value of the requested width nearest to its exact value, ties to even (decimal literals and "
                 "C99/C++17 hexadecimal literals 0xH.HpN alike)",
                 "bigdump: no colour, no previous buffer, no float/double columns; the output callback may throw between two lines"],
    min_evaluations_quick=100000,
    min_per_check_quick=dict(roundtrip=200000, grammar=60000, parse_any=36000, dump=40000, bigdump=1500, c09_fuzz=20000, tool=200, tooltail=600),
    min_per_check_thorough=dict(roundtrip=2800000, grammar=700000, parse_any=1300000, dump=600000, bigdump=15000, c09_fuzz=500000),
    technique=("property-based testing + coverage-guided fuzzing: round-trip oracle for format_data_string/parse_data_string; an independently written "
               "reference interpreter of the documented data-string syntax plus by-construction expectations for grammar-generated text; an "
               "independent column decoder of the hex-dump layout (address/hex/ASCII/float/double columns, terminal attributes) whose reconstruction "
               "is compared with the dumped bytes; metamorphic comparison across iovec partitions and API overloads"),
    level_text=("Exploration: every case runs the real formatter/parser/dumper (ASan+UBSan build of the working tree); round trips, the reference "
                "interpreter and the dump decoder decide each case. Small scopes named in the rule are enumerated completely, the rest is sampled by "
                "rapidcheck generators and a libFuzzer campaign. It finds any defect with a witness in those scopes; it is not a proof for all inputs."),
    level_note=("Trusts the compiler, libc printf/strtod for number formatting of the expected float columns, libstdc++ std::from_chars as the "
                "float-literal reference, and the harness's own decoder/interpreter. The design placed the dump decoder in Python behind a serve shim; "
                "it is implemented in C++ inside the harness from the documented column layout (same oracle, no pipe round trips)."),
    engine="rapidcheck + exhaustive enumerators + libFuzzer",
)
