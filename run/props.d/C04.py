"""C04 - JSON serialize -> parse identity."""

PROP = dict(
    level="exploration",
    stages=[
        dict(name="c04_json", src="harness/c04_json_roundtrip.cc", deps=("harness/c04/tree.hh", "harness/c05/refjson.hh"),
             shards_quick=8, shards_thorough=16, timeout_quick=400, timeout_thorough=1500),
        dict(name="c04_py", kind="pydriver", driver="oracle/c04_json_py.py", shim="shim/c04_shim.cc",
             deps=("harness/c04/tree.hh", "shim/shim.hh", "oracle/c04_tree.py", "oracle/hyp_common.py"),
             shards_quick=8, shards_thorough=16, timeout_quick=400, timeout_thorough=1500),
    ],
    rule="tbd",
    assumptions=[],
    min_evaluations_quick=1000,
    technique="tbd", level_text="tbd", level_note="tbd",
)
