"""C04 - JSON serialize -> parse is the identity for every value and option set."""

PROP = dict(
    level="exploration",
    stages=[
        dict(name="c04_json", src="harness/c04_json_roundtrip.cc", deps=("harness/c04/tree.hh", "harness/c05/refjson.hh"),
             shards_quick=8, shards_thorough=16, timeout_quick=480, timeout_thorough=2400),
        dict(name="c04_py", kind="pydriver", driver="oracle/c04_json_py.py", shim="shim/c04_shim.cc",
             deps=("harness/c04/tree.hh", "shim/shim.hh", "oracle/c04_tree.py", "oracle/hyp_common.py"),
             shards_quick=8, shards_thorough=16, timeout_quick=400, timeout_thorough=1500),
    ],
    rule=("A case is one value tree; each tree is evaluated under all 64 SerializeOption masks (evaluations count tree x mask). Trees "
          "come from (i) a fixed list - boundary floats (1e20, 2e6, 1e-7, 999999.5, DBL_MAX, DBL_MIN, +-0.0 ...), INT64_MIN/MAX, every integer "
          "around a change of the digit count in either radix: +-(10^k + d) for k = 1..18 and +-(16^k + d) for k = 1..15 with every |d| <= 64 "
          "(thorough: |d| <= 5000), INT64_MAX - d and INT64_MIN + d for d <= 128 (lists of 129 integers), every "
          "byte value as a one-byte string and key, the 256-byte string, empty containers, each of ~115 well-known multi-byte sequences "
          "(UTF-8 BOM, U+2028/U+2029, NBSP, NEL, first/last code point of every UTF-8 length, U+FFFD, non-characters, emoji, CESU-8 "
          "surrogates, overlong / out-of-range / truncated UTF-8, UTF-16 BOMs, CRLF, ESC[ sequences, C1 controls, </script> and other "
          "markup, texts that look like \\u / \\x escapes, comments, JSON literals or structure, printf directives) alone / at the "
          "start / at the end / in the middle of a text and every ordered pair of them adjacent, as string and as key, each bare "
          "and inside a list - enumerated completely; (ii) a rapidcheck recursive generator (depth <= 6, <= 44 nodes: null, bools, boundary-biased int64 - one in six of the form +-(10^k + d) / +-(16^k + d) with |d| drawn up to 3 / 70 / 600 / 5000 -, finite normal "
          "doubles from random bit patterns / 1..6 digits x 10^e with e in [-307,302] / a special list, byte strings and keys over all 256 "
          "values with boosted quote, backslash, control bytes, 0x7F, 0x80-0xFF and the empty string, one string/key in five with 1..3 "
          "of the well-known sequences spliced in at the start / end / a random position, empty containers); (iii) a chain "
          "generator nesting lists/dicts up to depth 100; (iii-b) subcheck `deep`: chains of 101..5200 (thorough 10000) containers - "
          "lists only, dictionaries only, alternating, mixed by hash, runs; sibling entries on no / 1 in 16 / 1 in 4 levels; depths drawn "
          "around round decimal and binary numbers (+-2), uniformly, and size-scaled; enumerated: depths 101, 250, 500, 999, 1000, 1001, "
          "1500, 2000, 3000, 5000 (thorough also 700, 7000, 10000) x 4 level-kind styles x 2 leaves (one leaf per style beyond depth 1001) - run on a thread with a 512 MiB stack, "
          "under the option masks listed in the case: all 64 up to depth 120, the 32 without FORMAT + 2 with FORMAT up to 400, "
          "7 without FORMAT (none, SORT_DICT_KEYS, all five others, four drawn) beyond (the serializer copies a sub-tree's text at every level: FORMAT costs "
          "~4 x depth^3 bytes of copying); (iv) Hypothesis-generated trees (strings and keys also assembled from the well-known "
          "sequences) serialized under the four standard masks and read by Python's json. Non-trivial: the tree has a container and (a float whose %g form has an exponent, or a string/key byte "
          "outside 0x20-0x7E, or an empty container). Subcheck `assign` (1 evaluation per case): a case is a pair (target tree, source tree); "
          "`target = source` is executed on a target that already holds the target tree - null, scalar, string, list, an unrelated tree, "
          "or a structural variation of the source (keys / items dropped, added, replaced, recursively) - also as an element of a list "
          "and a value of a dictionary, and a second assignment restores the former value; the copy must compare equal to the source, match "
          "the source's model, and neither side may see the other's mutation or destruction. Enumerated: every ordered pair over 74 "
          "values (leaves, lists, all 64 dictionaries over keys a,b,c with values 1 / {x:1} / {y:2}); non-trivial = dictionary target "
          "holding a key the source lacks. Subcheck `after_reject` (1 evaluation per case): a case is [0..3 texts parsed first on the "
          "same thread, tree, option mask]; the texts are built to be rejected inside a string token (bad escape, incomplete \\x / \\u, "
          "end of input) or elsewhere, or are the tree's own serialization truncated / with one byte replaced, or valid; their outcome is "
          "not asserted; then all round-trip clauses (default and, for standard masks, strict parser) must hold; enumerated: 15 fixed "
          "texts x default/strict x 7 trees x 4 masks; non-trivial = at least one text was rejected. "
          "Distinct = distinct case encodings (hash)."),
    assumptions=["floats are finite normal doubles or +-0.0 (subnormals, inf and NaN are outside the stated domain and are never generated)",
                 "floats are compared at the six significant digits %g keeps (equal '%.6g' text), ints exactly, strings byte-wise",
                 "dictionary keys are unique (a repeated key in a generated dictionary is dropped before the value is built)",
                 "'standard-compliant' output = option masks within {FORMAT, SORT_DICT_KEYS}, the only options JSON.hh documents as such",
                 "Python json reads \\u00XX as U+00XX; strings are compared as latin-1 bytes",
                 "assignment where the source is the target itself or a part of it (a = a, a = a.at(0)) is left open by the statement and not generated",
                 "how much stack one nesting level costs is not part of the property: trees deeper than 100 levels are processed on a thread "
                 "with a 512 MiB stack (the ASan build uses ~5 KiB per level in the parser); FORMAT is combined with depths up to 400 "
                 "(quick) / 1001 (thorough, FORMAT alone) only, because its cost is cubic in the depth",
                 "the outcome of parsing the texts that precede a round trip in `after_reject` (accept or throw a std::exception) is not asserted here; C05 owns the parser's error behaviour"],
    min_evaluations_quick=200000,
    min_per_check_quick={"assign": 20000, "after_reject": 20000, "deep": 1000},
    engine="rapidcheck + exhaustive enumerators + Hypothesis (Python json as independent reader)",
    technique=("property-based round-trip testing: value trees built through the public constructors are serialized under all 64 option "
               "masks by the real code (ASan+UBSan), parsed back and compared with an independent model tree through the public accessors; "
               "re-serialization with sorted keys must reproduce the text; standard-mode text is additionally read by strict mode, by an "
               "independent RFC 8259 reader written for the harness and by Python's json module; copies are mutated and destroyed and the "
               "source compared with the model; copy assignment is additionally driven onto generated live targets (pairs of trees), and the "
               "round trip is repeated after generated malformed texts were parsed on the same thread; strings and keys are also assembled from a "
               "dictionary of well-known multi-byte sequences (complete enumeration of singles and adjacent pairs), and nesting is driven to "
               "thousands of levels on a thread with a large stack"),
    level_text=("Exploration: every generated tree is checked under all 64 option masks against an explicit model, so any value shape in "
                "the generated domain that does not survive serialize->parse, is not standard JSON in standard mode, or shares state with "
                "its copy is reported with a shrunk replayable tree. It shows the identity on everything explored (about 10^6 tree x mask "
                "evaluations in the quick tier, 2x10^7 in the thorough tier); it is not a proof for all trees."),
    level_note=("Trusts the harness's model tree, its %.6g comparison, the harness RFC 8259 reader and CPython's json module as independent "
                "readers. Key order under SORT_DICT_KEYS is checked through Python (keys in byte order); the exact whitespace layout of "
                "FORMAT is not part of the property."),
)
