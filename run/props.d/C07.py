"""C07 - canvas operations equal a per-pixel reference model for any arguments."""

PROP = dict(
    level="exploration",
    stages=[
        dict(name="c07_canvas", src="harness/c07_canvas.cc", flags=["-fwrapv"],
             deps=["harness/c07/model.hh", "harness/c07/ops.hh", "harness/c07/interp.hh"],
             shards_quick=8, shards_thorough=16, timeout_quick=600, timeout_thorough=3600),
    ],
    rule=("A case is one canvas operation (or a history of up to 25) with its complete arguments, the geometry/format of both canvases and the "
          "content seed and the maximum sample value of each canvas (the all-ones value of the channel width, or - in a quarter of the random canvases and in extra "
          "enumerated passes - another value in [1, all-ones), the canvas then being built through the raw-data constructors Image(FILE*/const char*/string, w, h, alpha, "
          "width, max_value) or by loading a P6/P7 file with that MAXVAL; the model carries the value, and after every operation it is observed through the alpha that "
          "read_pixel reports on an opaque canvas and through operator== against an image constructed with the model's geometry, bytes and maximum value). Exhaustive part: every canvas 0..4 (quick) / 0..8 (thorough) per side with every coordinate in [-2,size+2] / [-3,size+3]: "
          "pixel access and fill_rect over the full 2-D product, the ten blits over (x, w, sx, dest size, source size) of one axis x 8 fixed "
          "configurations of the other axis and transposed, draw_line over all end-point pairs, dashed lines, text positions (9 texts, three of them with zero bytes in the formatted output; 5 overloads x 4 ways of formatting: '%s', '%s%c%s', the text itself as the format with doubled '%' and %c for zero bytes, '%c' alone), every text length 0..600 (quick) / 0..2100 (thorough) and 2^k-3..2^k+2 up to 4096 / 65536, as one line and "
          "with line breaks, positioned so that the END of the text is on the canvas, whole-image transforms and identities (also on canvases with 4 other maximum values); the whole-image transforms (mirror both ways, mirror twice, invert, set_has_alpha, set_channel_width, copies) also on 10 very wide canvases of 1..5 rows - rows of 8.8-9.6 MB executed on a thread with an explicit 8 MiB stack, rows of 0.5-0.7 MB on a 512 KiB stack - compared with the model on a mirror-symmetric sample of ~900 columns (subcheck wide). Random part (rapidcheck): full-product sampling on canvases up to 40x40, coordinates incl. +-2^31, histories on two "
          "canvases, clipping-invariance pairs, identities (pixelwise and by operator==), a tenth of the random texts long (8..300 characters or 2^k+-2) with their end placed on the canvas; random texts are byte strings over all 256 values including 0 (up to 8 zero bytes), handed to draw_text through one of the four formats. Non-trivial: the requested rectangle / segment / glyph box is cut by at least one "
          "canvas edge (destination or source) or the pixel coordinate is outside; histories additionally use >= 2 kinds of operation. "
          "Distinct by (operation, canvas geometry, arguments) hash."),
    assumptions=["resize_blit: the interpolated value may be truncated (as in /repo) or rounded to nearest / up: the bilinear reference +-1 in either direction",
                 
        "the source of a blit is a different Image object than the destination (overlapping self-blits are order dependent and not part of the statement)",
        "colour formulas (0xFF blending on wide channels, 32-bit packing, channel replication) are mirrored from phosg; geometry, clipping, exceptions and memory safety are independent",
        "mask-image blits whose mask covers (w,h) but not the blitted area in source space are excluded (documented precondition)",
        "resize_blit only with arguments inside both canvases, w,h >= 2, and channel widths <= 32 (its double arithmetic cannot hold 64-bit samples); compared to a bilinear reference with a tolerance of one unit",
        "lines: exact path properties for in-canvas end points, subset-of-ideal-pixels otherwise (phosg stops at the first pixel outside the canvas)",
        "|coordinates| <= 2^31+4 (direct pixel access also INT64_MIN/MAX); dash lengths <= 64 when the coordinates are huge (cost only)",
        "draw_text is called with the formats \"%s\", \"%s%c%s\", \"%c\" or the text itself as the format ('%' doubled, each zero byte a %c with argument 0); the formatted text is a byte string with a length, "
        "a zero byte in it is an unprintable character like any other (drawn as the 0x7F glyph); at most 8 zero bytes per text; its width/height out-parameters are not part of the property and are not asserted",
        "wide canvases (subcheck wide): at most 48 MiB of pixels and 16 rows; only the sampled columns (both ends, middle, a regular grid, pseudo-random ones, closed under mirroring) are compared; "
        "a whole-image transform may not need stack space that grows with the canvas (it runs on a thread with an 8 MiB or 512 KiB stack)",
        "a canvas's maximum sample value lies in [1, all-ones of the channel width]; the colour rules that use it (alpha of an opaque canvas, set_has_alpha, set_alpha_from_mask_color, "
        "invert, blend_blit) are mirrored from phosg with that value in place of the all-ones value; copies carry it, set_channel_width to another width resets it to all-ones",
        "widen-then-narrow on a canvas with its own maximum value is compared pixelwise only (set_channel_width resets the maximum value by design, so operator== with the original is false)",
        "self copy/move assignment is not generated",
    ],
    min_evaluations_quick=200000,
    technique=("model-based property testing: per-pixel ModelImage with independent geometry, exhaustive small-scope enumeration of clipping "
               "parameters, rapidcheck-generated single operations and stateful histories with shrinking, metamorphic clipping invariance and "
               "algebraic identities, ASan/UBSan on exact-size pixel buffers"),
    level_text=("Exploration: every case runs the real Image operation (ASan+UBSan build of the working tree) and compares the whole pixel buffer "
                "with the model; the small scope is enumerated completely for the listed parameter families, larger canvases, huge coordinates "
                "and operation sequences are sampled. A defect with a witness in that scope is found; nothing is proved beyond it."),
    level_note="Trusts the harness's ModelImage (its colour formulas deliberately mirror phosg's) and the font table of ImageTextFont.hh (data, used by both sides).",
    engine="rapidcheck + exhaustive enumerators",
)
