"""C06 - image codecs: save/load identity, valid output files, every input variant, truncation rejected safely."""

PROP = dict(
    level="exploration",
    stages=[
        dict(name="c06_image_codecs", src="harness/c06_image_codecs.cc", deps=["harness/c06/codecs.hh"],
             shards_quick=8, shards_thorough=16, timeout_quick=600, timeout_thorough=3600),
        dict(name="c06_truncate_fuzz", kind="fuzz", src="fuzz/c06_truncate.cc", deps=("harness/c06/codecs.hh",),
             corpus="corpus/c06", max_len=64,
             seconds_quick=12, seconds_thorough=300, workers_quick=4, workers_thorough=8, replay_ext="fuzz"),
    ],
    rule=("A case is (width, height, alpha, channel width, pixel style+seed) for the save side - pixel styles: random, gradients, all zero, "
          "all max, many 0/max samples, and three with vertical redundancy (rows repeating the row above exactly or except for 1-2 samples, "
          "flat background with sparse marks, identical rows with marks at the right/left edge) and few-level noise (every sample one of 2..16 values, the bottom 0..3 rows "
          "repeating the top rows: matches at every distance the image allows); a sixth of the random `roundtrip` cases and an enumerated block (every 8-bit width x alpha "
          "with a height <= 64 for which it holds, 2^8..2^14) have a raster size width*height*channels at or less than `height` bytes under a power of two, so that the PNG scanline "
          "data (one filter byte per row more) lies just above it; `idatlen` cases are (width, height, alpha, seed, k = 12..15, j): a noise image whose first z samples are zero, z found "
          "by a deterministic search with the reference compressor (zlib compress2 level 9 on filter-byte-0 scanlines) such that the compressed length is exactly the j-th multiple "
          "of 2^k (4/8/16/32 KiB - the lengths at which chunking and buffering of the COMPRESSED data have their edges; 64x64 / 63x64 with every reachable multiple enumerated, "
          "other sizes up to 64, a tenth up to 128/200, at random; a search miss still gives a valid image and is counted in the class `idatlen:search-missed`) - plus, for `derived`, 1..3 image-producing "
          "operations applied before saving (copy/move assignment into a live image of another size, alpha flag and channel width or into a "
          "default-constructed one, copy/move construction, set_channel_width, set_has_alpha, reverse_horizontal/vertical; every operation "
          "x (alpha, channel width) x (alpha, channel width) and every ordered pair of operations enumerated), for `large` a sampled image beyond the "
          "enumerated scope (65..256 per side or one side 1..64, mostly incompressible noise, all alpha / channel-width combinations with 8-bit - where BMP and "
          "PNG apply - in the majority; two fifths of them with the height chosen so that the scanline data height*(1+width*channels) lies within ~+-300+row/2 "
          "bytes of a multiple of 32 KiB; a tenth of the `derived` cases start from such an image too), and (container variant, sub-variant "
          "number, width, height, pixel style+seed) for the load side, enumerated over all widths 1..64 / all sub-variants at small "
          "sizes and drawn at random (rapidcheck) for sizes up to 64x64; every image LOADED from an input variant is then treated as an image: it must "
          "compare equal (operator== / != in both operand orders) to an image constructed with the same geometry, samples and sample range (sized constructor + "
          "write_pixel, or the raw-data constructor with max_value = the file's MAXVAL) and goes through the complete save-side oracle (PPM header declares "
          "exactly that range, PPM/BMP/PNG read back by the independent decoders, reload identity incl. operator==); each truncation case additionally loads every prefix of the "
          "file (files <= 1 KiB quick / 2 KiB thorough) or all header prefixes, +-1 around each row start and the last 16 bytes. "
          "Non-trivial: width mod 4 != 0, or alpha, or channel width > 8, or an image produced by an operation (derived), or a container variant phosg's own save() never writes "
          "(grayscale, reordered/padded headers, other maxval, V4/V5/56-byte BMP headers, permuted masks, top-down rows, data-offset gap). "
          "Distinct = distinct case encodings (hash); fuzz inputs are distinct by (variant, sub-variant, size, cut)."),
    assumptions=["whether save(GRAYSCALE_PPM) is refused (as in /repo) or written is not stated: counted",
                 "whether saving an image with channels wider than 8 bits as PNG / BMP is refused (as in /repo) or exported is not stated: counted (wide-save-refused / -exported), not judged",
                 
        "the PNG's zlib stream is valid when: CM = 8, CINFO <= 7, FCHECK correct, no preset dictionary, every back-reference distance within the window the header declares "
        "(RFC 1950 2.2; a smaller declared window is accepted as long as the stream respects it), Adler-32 correct, nothing after the stream, exactly height*(1+width*channels) bytes; "
        "IDAT data may be split over any number of consecutive IDAT chunks (also empty ones)",
        "files are presented through real file descriptors (memfd) so that fseek past the end behaves as on disk",
        "samples wider than 8 bits are accepted in either byte order (phosg reads host order, Netpbm defines big-endian); "
        "format-defined pixels are asserted exactly for maxval <= 255 only",
        "P6/P5 headers end in a single space, tab or newline; '#' comment lines and a carriage return as the final header byte are not generated",
        "BI_BITFIELDS masks live inside a 56/108/124-byte info header (a 40-byte header followed by separate masks is not generated)",
        "malformed headers that are not prefixes of valid files are outside the property",
        "an image loaded from a Netpbm file keeps the file's MAXVAL as its sample range (that is what the format defines a sample to mean) and writes it back into the PPM it saves; "
        "an 8-bit image whose range is below 255 is not exported to BMP/PNG by the check (whether it should be rescaled is left open)",
        "images larger than 64 per side are sampled (up to 256), not enumerated",
        "an image produced by copy/move/set_channel_width/set_has_alpha/reverse is described by its accessors and raw sample buffer after the "
        "operations (what the operations do to the pixels is not asserted here); it must then save and reload exactly like a freshly drawn image",
        "leak detection = sanitizer allocator byte accounting around every load (confirmed by repetition) plus a LeakSanitizer pass after each truncation case",
    ],
    min_evaluations_quick=20000,
    technique=("property-based testing with differential oracles: independent PNG/BMP/PPM decoders and encoders written from the "
               "format specifications (own CRC-32, zlib only to inflate - with exactly the window the stream's header declares, so that a back-reference beyond the declared "
               "window is an error as it is for libpng - and as the reference compressor steering the search for images with a given compressed length), exhaustive enumeration of container sub-variants and of "
               "file prefixes, rapidcheck random images, coverage-guided libFuzzer over (variant, size, cut point)"),
    level_text=("Exploration: every case runs the real Image::save/Image::load of the working tree (ASan+UBSan+LSan build) against "
                "codecs written from the specifications; all widths 1..64, all listed container sub-variants and all prefixes of the "
                "small files are enumerated, larger images and prefix subsets are sampled. It finds any defect with a witness in "
                "that scope; it does not prove the codecs correct for every pixel content."),
    level_note="Trusts zlib's inflate, the kernel's memfd/procfs file semantics and the harness's own codecs (cross-checked against each other: "
               "every generated variant is also what the independent decoders accept).",
    engine="rapidcheck + exhaustive enumerators + libFuzzer",
)
