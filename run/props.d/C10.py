"""C10 - hash functions vs their published definitions."""

PROP = dict(
    level="exploration",
    stages=[
        # in-process differential check against OpenSSL libcrypto, zlib and published vectors
        dict(name="c10_hash", src="harness/c10_hash.cc", deps=("harness/c10/ambient.hh",), link=["-lcrypto"], shards_quick=8, shards_thorough=16,
             timeout_quick=400, timeout_thorough=1500),
        # the same comparison against Python's hashlib / zlib through a serve shim (Hypothesis + enumeration)
        dict(name="c10_py", kind="pydriver", driver="oracle/c10_hashes.py", shim="shim/c10_shim.cc", deps=("harness/c10/ambient.hh", "shim/shim.hh"),
             shards_quick=8, shards_thorough=16,
             timeout_quick=400, timeout_thorough=1500),
    ],
    rule=("Exhaustive: every length 0..600 (thorough 0..1100) x {zeros, 0xFF, i mod 251, xorshift keyed by the length}, handed to "
          "phosg at misalignments 0..15 in exactly sized heap blocks; every split point of every input of length 0..300 for the "
          "chaining equations, each with a non-default seed; the published vectors (RFC 1321 suite, FIPS 180 examples, CRC-32 check "
          "value, FNV-1a reference values). Random: rapidcheck inputs with lengths 0..300, k*64-10..k*64+2, and scaled up to 4 KiB / "
          "64 KiB / 1 MiB, arbitrary bytes up to 4 KiB and PRNG-expanded content above, random split points (a third at block "
          "boundaries) and seeds; Hypothesis binary() inputs up to 8 KiB and pattern inputs up to 1 MiB on the Python side. "
          "Ambient state: a third of the random digest inputs of up to 4 KiB, every length 0..300 (Python: 0..130) and every published vector "
          "are also hashed and rendered while the process locale is not the default one (global C++ locale with a digit-grouping numpunct facet, "
          "grouping by 3 with ',' / by 1-2 with '.' and decimal comma plus errno = ERANGE; C locale switched to C.UTF-8 by setlocale plus errno = "
          "EINVAL), the previous locale being restored after each case. "
          "After main(): every shard (and every replay) computes, inside main() and before the subchecks, the reference values (zlib, OpenSSL, FNV "
          "recurrence) of crc32 (plain and chained with a seed), fnv1a32/64 (plain and chained) and MD5 / SHA-1 / SHA-256 bin() and hex() on six fixed "
          "inputs (empty, 1, 9, 64, 256 and 5000 bytes) and calls every phosg function once; the same calls are repeated after main() has returned, "
          "from an atexit handler registered as the first statement of main() and from the destructor of a namespace-scope object of the harness "
          "translation unit (linked before the library, hence destroyed after everything first used inside main()); a mismatch there ends the "
          "process with VERIF-ABORT: after-main-<function> (signature c10_hash/crash:abort:after-main-<function>; ASan reports a use of destroyed "
          "lazily-built state itself). "
          "Digest-directed classes: the renderings take the digest VALUE as input, and classes of that value (all bytes printable ASCII / below "
          "0x80 / from 0x80, hex text of decimal digits only, >= 5 leading zero nibbles, every 32-bit word starting with a zero nibble, >= 3 zero "
          "bytes) cannot be reached by choosing lengths or contents; the fixed candidate messages \"c10/<i>\" (i < 2^25, thorough 2^28; SHA-1 and "
          "SHA-256: a quarter of that) are hashed with OpenSSL only and those whose reference digest is in one of the classes go through the "
          "complete digest oracle (quick: about 5000 messages, 3 with an all-printable MD5 digest); saved witnesses under corpus/c10/digest-value-* "
          "are re-run by both stages. Subcheck render: MD5 / SHA-1 / SHA-256 objects whose public state words are set to a chosen digest value "
          "(uniform, all bytes from one class - printable, letters+digits, control, high, decimal digits, boundary bytes -, one class with "
          "one or two foreign bytes, one class per word; enumerated: all bytes equal x every ambient state, nine fills with one position set to "
          "every byte value) must render it: bin() = the bytes, hex() = their hex digits. "
          "Non-trivial: digest inputs of length >= 56 (the padding spills into a second block or the input is multi-block); chain "
          "cases with a split strictly inside the input. Distinct by (length, pattern) / content hash / (length, split)."),
    assumptions=["the render subcheck assigns the digest state words through whichever public member form exists (a0..d0 or h[] for MD5, h[] for SHA-1 / SHA-256); where none exists its cases are excluded (counted)",
                 "inputs up to 1 MiB (2 MiB accepted by the replay decoder)",
                 "hex() is compared case-insensitively (phosg prints upper case)",
                 "the results are functions of the message alone: the process locale (global C++ locale, setlocale) and errno are ambient state that must not show in bin()/hex()",
                 "subcheck render assigns the public state words (a0..d0, h[]) of a hash object and requires bin()/hex() to render that value (MD5: little-endian words, "
                 "SHA: big-endian words); this treats every state value as the digest of some message - for these hash functions every value is believed to be one, but no "
                 "message is exhibited. For the value classes a search reaches (MD5 digests of printable bytes ...) subcheck digest exhibits real messages; an all-printable "
                 "SHA-1 digest would need about 2e8 candidates and a SHA-256 one 2e13, out of reach of a quick (or thorough) run",
                 "the functions have no 'not yet / no longer usable' phase: a call made during static destruction or from an atexit handler (after main() returned) "
                 "must return the same value as the same call inside main()",
                 "a crc32/fnv seed is a running value of the same function (zlib's crc32(crc, buf, len) semantics)"],
    min_evaluations_quick=50000,
    engine="rapidcheck + exhaustive enumerators",
    technique=("differential testing against independent implementations (OpenSSL EVP digests, zlib crc32, Python hashlib/zlib, the "
               "FNV-1a recurrence) and published test vectors: exhaustive over lengths/split points + rapidcheck / Hypothesis random inputs"),
    level_text=("Exploration: every case runs the real hash code (ASan+UBSan build of the working tree) and compares bin(), hex(), "
                "both constructor forms, CRC-32 and FNV-1a with two independent reference stacks; every message length up to 300 "
                "bytes (1100 thorough) and every split point up to 300 is covered, longer inputs up to 1 MiB are sampled. A digest "
                "that is right on all of these padding/length classes and multi-block inputs is right for the structure of the "
                "algorithm; it is not a proof for every input."),
    level_note="Trusts OpenSSL libcrypto, zlib, CPython's hashlib, and the FNV primes/offset bases as published (checked against the reference vectors).",
)
