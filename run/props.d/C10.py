"""C10 - hash functions vs their published definitions."""

PROP = dict(
    level="exploration",
    stages=[
        # in-process differential check against OpenSSL libcrypto, zlib and published vectors
        dict(name="c10_hash", src="harness/c10_hash.cc", link=["-lcrypto"], shards_quick=8, shards_thorough=16,
             timeout_quick=400, timeout_thorough=1500),
        # the same comparison against Python's hashlib / zlib through a serve shim (Hypothesis + enumeration)
        dict(name="c10_py", kind="pydriver", driver="oracle/c10_hashes.py", shim="shim/c10_shim.cc", shards_quick=8, shards_thorough=16,
             timeout_quick=400, timeout_thorough=1500),
    ],
    rule=("Exhaustive: every length 0..600 (thorough 0..1100) x {zeros, 0xFF, i mod 251, xorshift keyed by the length}, handed to "
          "phosg at misalignments 0..15 in exactly sized heap blocks; every split point of every input of length 0..300 for the "
          "chaining equations, each with a non-default seed; the published vectors (RFC 1321 suite, FIPS 180 examples, CRC-32 check "
          "value, FNV-1a reference values). Random: rapidcheck inputs with lengths 0..300, k*64-10..k*64+2, and scaled up to 4 KiB / "
          "64 KiB / 1 MiB, arbitrary bytes up to 4 KiB and PRNG-expanded content above, random split points (a third at block "
          "boundaries) and seeds; Hypothesis binary() inputs up to 8 KiB and pattern inputs up to 1 MiB on the Python side. "
          "Non-trivial: digest inputs of length >= 56 (the padding spills into a second block or the input is multi-block); chain "
          "cases with a split strictly inside the input. Distinct by (length, pattern) / content hash / (length, split)."),
    assumptions=["inputs up to 1 MiB (2 MiB accepted by the replay decoder)",
                 "hex() is compared case-insensitively (phosg prints upper case)",
                 "a crc32/fnv seed is a running value of the same function (zlib's crc32(crc, buf, len) semantics)"],
    min_evaluations_quick=50000,
    engine="rapidcheck + exhaustive enumerators",
    technique=("differential testing against independent implementations (OpenSSL EVP digests, zlib crc32, Python hashlib/zlib, the "
               "FNV-1a recurrence) and published test vectors: exhaustive over lengths/split points + rapidcheck / Hypothesis random inputs"),
    level_text=("Exploration: every case runs the real hash code (ASan+UBSan build of the working tree) and compares bin(), hex(), "
                "both constructor forms, CRC-32 and FNV-1a with two independent reference stacks; every message length up to 300 "
                "bytes (1100 thorough) and every split point up to 300 is covered, longer inputs up to 1 MiB are sampled. A digest "
                "that is right on all of these padding/length classes and multi-block inputs is right for the structure of the "
                "algorithm; it is not a proof for every input."),
    level_note="Trusts OpenSSL libcrypto, zlib, CPython's hashlib, and the FNV primes/offset bases as published (checked against the reference vectors).",
)
