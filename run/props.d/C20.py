"""C20 - integer, vector and matrix helpers."""

PROP = dict(
    level="exploration",
    stages=[dict(name="c20_math", src="harness/c20_math.cc")],
    rule=("exhaustive small-scope enumeration (all pairs in [0,300]^2 and boundary pairs for gcd/reduce_fraction in 8 integer "
          "types, plus the worst-case inputs of Euclid's algorithm: consecutive terms of every additive sequence x(n+1)=x(n)+x(n-1) with seeds "
          "0<=x0<=x1<=6 (Fibonacci, Lucas, ...) up to the maximum of each of the 8 types x common factors 1,2,3,5,7, both operand orders - about "
          "1.44*log2(max) division steps, the longest remainder sequences there are; every 8/16-bit value and every 2^k-1,2^k,2^k+1 for log2i, all 32-bit values in thorough; all Vector2/Vector3 pairs "
          "over [-4,4]; the Vector2/3/4 laws are also instantiated for double - v2d: all pairs over {+0,-0,1,-1,0.5,2,+inf,-inf}, v3d: all pairs over "
          "{+0,-0,1,-1.5}, v4d: all pairs over {+0,-0,1}, vtransd: all triples over {+0,-0,1,-1} / {+0,-0,1} - where == is the componentwise "
          "IEEE == (+0 equals -0), operator< must be consistent with it, results are compared by value and NaN-aware (inf-inf), NaN operands are "
          "outside the domain) plus rapidcheck-generated cases (boundary-biased operands, gcd pairs built backwards from (g,0) through a continued "
          "fraction with partial quotients all 1 / mostly 1 / in 1..3 / small with a rare large one, carried to the type's maximum, (lo,hi) ranges, random_data call sequences "
          "incl. requests of 2^12..2^18 +-1 bytes, integer matrices in [-9,9], diagonally dominant double matrices at global scales "
          "2^-900..2^900 / 10^-270..10^270 - the residual M*inverse(M)-I is scale invariant, so the 1e-9 tolerance applies at every scale). "
          "Double vectors: components from signed zeros, small dyadic values and infinities (all finite arithmetic exact), the second operand "
          "fresh or the first one with the sign of some zeros flipped; every vector case (int64 and double) also checks, by the type's own == and <, "
          "a-b == -(b-a), a+b == b+a and a*0 == b*0 where no result component is NaN. m4d: Matrix4<double> with entries in "
          "{+-0, +-0.5, +-1, +-1.5, +-2, +-3, +-4} (exact arithmetic): == against the entrywise IEEE ==, product / matrix-vector product / "
          "(AB)v = A(Bv) by value and by Vector4's own ==, A*I == A, transpose twice, A-B == (B-A)*-1, A+B == B+A. "
          "Every vector case also runs each scalar operator (compound and plain) with the operand being a reference to component j "
          "of the left-hand vector itself (v op= v.x ...; expected value from a copy of the operand taken before the call) and "
          "v += v / v -= v; every integer-matrix case runs the entrywise scalar operators +,-,*,/,% and their compound forms with an "
          "independent scalar and with each of the 16 entries of the matrix itself as the operand. random_data_sig: random_data call "
          "sequences (at least one request of 8 KiB..1 MiB) on a fresh thread while that thread receives SIGUSR2 (counting handler "
          "installed with SA_RESTART, previous disposition restored afterwards) every 10..500 us; same oracle as random_data "
          "(normal return - an exception is the clause random-data-threw -, guard bytes, no untouched run, size). "
          "random_data_nofd: ambient state 'the entropy source cannot be opened at the process's first random_data call': the harness re-executes itself, the fresh process makes an empty directory "
          "its root (chroot: open(/dev/urandom) fails with ENOENT, verified with a probe open), then runs a request sequence (1..5 requests: the usual sizes, whole multiples of 16/64/256/512/1024/4096, 2^k and 2^k+-1 from 1 byte to 64 KiB; "
          "in a third of the cases the process returns to the real root before request j) with the oracle 'each call throws, or fills every requested byte' (guard bytes, no untouched head / tail / run, size); "
          "24 sizes x {first request; second request still inside the empty root; second request back in the real root} are enumerated. "
          "Non-trivial: gcd pairs with gcd>1 and both operands>1; "
          "log2i arguments adjacent to a power of two; random_int ranges wider than one value; random_data sequences of >=3 calls or "
          ">4096 bytes; random_data_sig cases in which at least one signal was delivered; vector pairs that are distinct and non-zero, or (double) equal as values but different in the sign of a zero; "
          "matrices other than the identity. Distinct = distinct case encodings (hash)."),
    assumptions=["Vector norm1() / norm2() / norm() are not among the operations the statement names (in /repo norm1() is the plain sum of the components): called under the sanitizers and classified, not judged",
                 "non-negative operands for gcd/reduce_fraction",
                 "floating-point vectors / matrices: operands contain no NaN (the strict weak order of the property does not cover it) and only values "
                 "whose sums and products are exact in double; results are compared by value (the sign of a zero result is not asserted), two NaN "
                 "results count as equal; == on floating-point components is the IEEE ==", "random_int ranges with hi-lo < 2^63",
                 "integer matrices with entries in [-9,9] so that the double accumulation in Matrix4::operator* is exact",
                 "random_data non-constancy tests have a false-alarm probability below 2^-120 per case",
                 "diagonally dominant double matrices are kept within global scales 2^-900..2^900 so that neither M nor inverse(M) leaves the normal double range",
                 "random_data where /dev/urandom cannot be opened (subcheck random_data_nofd): a call may throw (nothing is claimed to be filled then); a call that returns normally must have filled every requested byte. "
                 "The state is produced with chroot into an empty directory in a re-executed copy of the harness (needs root); an exhausted descriptor table (EMFILE) is not produced "
                 "(UBSan's vptr check needs a pipe and misfires without descriptors)",
                 "random_data under signals: only handlers installed with SA_RESTART (the transparent kind; the framework's own SIGPROF watchdog is one); "
                 "whether a signal lands inside a particular read is timing dependent, so a random_data_sig failure seen in a shard need not replay from the single case"],
    min_evaluations_quick=100000,
    technique="property-based testing: exhaustive small-scope enumeration + rapidcheck random generation against reference definitions (std::gcd, bit loops, 128-bit cross products, componentwise formulas)",
    level_text=("Exploration: every case runs the real templates (ASan+UBSan build of the working tree) against independent reference "
                "definitions; the small scopes named in the property are enumerated completely, the rest is sampled with "
                "boundary-biased generators. It shows the equations on everything explored and finds any defect with a witness in "
                "those scopes; it is not a proof for all 64-bit operands."),
    level_note="Trusts the compiler, libstdc++'s std::gcd and the harness's own reference arithmetic (128-bit integers, double sqrt).",
)
