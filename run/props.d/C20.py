"""C20 - integer, vector and matrix helpers."""

PROP = dict(
    level="exploration",
    stages=[dict(name="c20_math", src="harness/c20_math.cc")],
    rule=("exhaustive small-scope enumeration (all pairs in [0,300]^2 and boundary pairs for gcd/reduce_fraction in 8 integer "
          "types; every 8/16-bit value and every 2^k-1,2^k,2^k+1 for log2i, all 32-bit values in thorough; all Vector2/Vector3 pairs "
          "over [-4,4]) plus rapidcheck-generated cases (boundary-biased operands, (lo,hi) ranges, random_data call sequences, "
          "integer matrices in [-9,9], diagonally dominant double matrices). Non-trivial: gcd pairs with gcd>1 and both operands>1; "
          "log2i arguments adjacent to a power of two; random_int ranges wider than one value; random_data sequences of >=3 calls or "
          ">4096 bytes; vector pairs that are distinct and non-zero; matrices other than the identity. Distinct = distinct case encodings (hash)."),
    assumptions=["non-negative operands for gcd/reduce_fraction", "random_int ranges with hi-lo < 2^63",
                 "integer matrices with entries in [-9,9] so that the double accumulation in Matrix4::operator* is exact",
                 "random_data non-constancy tests have a false-alarm probability below 2^-120 per case"],
    min_evaluations_quick=100000,
    technique="property-based testing: exhaustive small-scope enumeration + rapidcheck random generation against reference definitions (std::gcd, bit loops, 128-bit cross products, componentwise formulas)",
    level_text=("Exploration: every case runs the real templates (ASan+UBSan build of the working tree) against independent reference "
                "definitions; the small scopes named in the property are enumerated completely, the rest is sampled with "
                "boundary-biased generators. It shows the equations on everything explored and finds any defect with a witness in "
                "those scopes; it is not a proof for all 64-bit operands."),
    level_note="Trusts the compiler, libstdc++'s std::gcd and the harness's own reference arithmetic (128-bit integers, double sqrt).",
)
