"""C15 - Subprocess I/O is complete and deadlock-free for any payload and child timing."""

PROP = dict(
    level="exploration",
    stages=[dict(name="c15_proc", src="harness/c15_proc.cc", deps=["harness/c15/child.hh"],
                 link=["-Wl,--wrap=fork", "-Wl,--wrap=waitpid", "-Wl,--wrap=poll", "-Wl,--wrap=read", "-Wl,--wrap=write"],
                 shards_quick=8, shards_thorough=16, timeout_quick=600, timeout_thorough=2400,
                 nondeterministic=True)],
    rule=("each case = (API: run_process with check on/off, stdin present/absent, timeout; Subprocess::communicate(std::string) with and "
          "without deadline), payload size, a child script interpreted by the harness binary re-executed as `--child` (read N / read "
          "to EOF / slow reader / cat / write N pattern bytes to stdout or stderr in chunks with pauses / sleep / close a descriptor / "
          "exit code / die by signal / ignore SIGTERM / never exit), and a parent-side delay plan applied through link-time "
          "interposition at the k-th waitpid/poll/read/write (sleep 0.2..20 ms, wait-until-the-child-is-a-zombie, "
          "wait-until-the-child-closed-stdin). A deterministic grid {0,1,4095,4096,65535,65536,65537,1 MiB} x 4 behaviours x 4 API "
          "variants is enumerated, rapidcheck draws the rest (12 behaviour families, payloads and outputs up to 4 MiB). Non-trivial: "
          "payload > 64 KiB, or child output > 64 KiB on a stream, or a non-empty delay plan with a child that exits right after its "
          "last write. Distinct = distinct case encodings (script, payload, plan)."),
    assumptions=["SIGPIPE is ignored in the calling process (the worker sets SIG_IGN)",
                 "communicate does not read stderr: with an unread stderr pipe the child writes at most 16 KiB to it, otherwise stderr goes to a file",
                 "always the std::string overload of communicate (a string literal binds to the (const void*, size_t, uint64_t) overload)",
                 "communicate timeouts are exercised only with a child that keeps stdout open",
                 "deadlines that must not expire are 60 s; expiring ones 100..300 ms",
                 "deadlock verdict: worker and child all blocked (no process runnable) with no change of rchar+wchar in /proc/<pid>/io and no CPU time consumed for 10 s plus the sleeps the case asks for; runaway verdict: more than 6x the case's I/O volume + 64 MiB moved, or more than 90 s of CPU consumed"],
    min_evaluations_quick=400,
    technique=("property-based testing of real child processes: rapidcheck-generated child scripts and parent delay plans "
               "(-Wl,--wrap=fork,waitpid,poll,read,write), byte-exact output model (pattern bytes as a function of stream and offset), "
               "child-side count+FNV hash of stdin, /proc/self/fd and waitpid(-1) accounting, forked worker per case under a "
               "progress-based deadlock watchdog"),
    level_text=("Exploration: real kernel pipes and real children; the harness steers timing (child scripts, sleeps and "
                "synchronisation points injected at the parent's syscalls) but does not enumerate kernel schedules. It finds lost "
                "output, missed payload, wrong status, leaked descriptors, zombies and deadlocks on the explored timings; it is not "
                "a proof of deadlock freedom."),
    level_note="Trusts /proc/<pid>/io, /proc/<pid>/stat and the kernel's pipe/poll semantics.",
    engine="rapidcheck + deterministic grid + ld --wrap interposition + scripted child",
)
