"""C15 - Subprocess I/O is complete and deadlock-free for any payload and child timing."""

PROP = dict(
    level="exploration",
    stages=[dict(name="c15_proc", src="harness/c15_proc.cc", deps=["harness/c15/child.hh"],
                 link=["-Wl,--wrap=fork", "-Wl,--wrap=waitpid", "-Wl,--wrap=poll", "-Wl,--wrap=read", "-Wl,--wrap=write", "-Wl,--wrap=kill"],
                 shards_quick=8, shards_thorough=16, timeout_quick=600, timeout_thorough=2400,
                 nondeterministic=True)],
    rule=("each case = (API: run_process with check on/off, stdin present/absent, timeout; Subprocess::communicate(std::string) with and "
          "without deadline), payload size, a child script interpreted by the harness binary re-executed as `--child` (read N / read "
          "to EOF / slow reader / cat / write N pattern bytes to stdout or stderr in chunks with pauses / sleep / close a descriptor / "
          "exit code / die by signal / ignore SIGTERM / never exit / start a background descendant that inherits stdin, stdout and/or stderr, "
          "writes nothing and outlives the child - only stderr under communicate), ambient periodic signals in the calling process (SIGALRM "
          "every 30..100 ms from ITIMER_REAL armed right after fork, no-op handler without SA_RESTART, so poll really fails with EINTR; in "
          "half of the calls whose timeout has to fire and a sixth of the others), and a parent-side delay plan applied through link-time "
          "interposition at the k-th waitpid/poll/read/write (sleep 0.2..20 ms, wait-until-the-child-is-a-zombie, "
          "wait-until-the-child-closed-stdin). A deterministic grid {0,1,4095,4096,65535,65536,65537,1 MiB} x 4 behaviours x 4 API "
          "variants is enumerated (plus fixed shapes, among them a never-exiting child under 30 / 100 ms signals and a child that leaves a "
          "descendant holding the output pipes, for every API variant), rapidcheck draws the rest (14 behaviour families, payloads and "
          "outputs up to 4 MiB). Closed stream + timeout (family 13): the child closes stdin (with more than a pipe's worth of payload unread), stdout and/or stderr "
          "and then never exits, under a 100..160 ms timeout - the parent's end of the closed pipe stays ready for ever (POLLHUP without POLLIN / POLLERR without "
          "POLLOUT), and the timeout still has to end the child; every non-empty subset of the three streams is in the grid for run_process, the subsets without stdout for "
          "communicate. A caller that spins instead of sleeping is judged by CPU time: the CPU time the single-threaded calling process has consumed is a lower bound of the "
          "time that has passed, so when it exceeds timeout + 1.5 s (+ 6.5 s when the child ignores SIGTERM) + 10 s and the call has not returned, the case fails "
          "(<api>-timeout-overrun-busy) - independent of machine load. Ambient descriptors of the caller: in a fifth of the random cases (and in grid shapes for every API "
          "variant) one of the calling process's own descriptors 0 / 1 / 2 is closed while it makes the call(s) (parked on a high close-on-exec number and restored "
          "afterwards; sanitizer reports follow the parked stderr), so the pipes of the call land on the numbers 0..2; the oracle is unchanged. With a descendant holding the pipes the call still owes the child's own bytes and wait status, and it "
          "must come back without waiting for the descendant (which lives 120 s: waiting for it is a no-progress deadlock for the "
          "watchdog). Under signals with a timeout T: the number of the caller's poll() calls that failed with EINTR before it first "
          "signals the child, times the signal period, is a lower bound of the time since the child started; it must not exceed "
          "T + 2 s (when it does, the signals stop so that the call can return, and the case fails) - no wall-clock reading, a starved "
          "caller handles fewer signals, not more. Non-trivial: "
          "payload > 64 KiB, or child output > 64 KiB on a stream, or a non-empty delay plan with a child that exits right after its "
          "last write, or a descendant that holds stdout/stderr, or a never-exiting child under periodic signals, or a never-exiting child that closed one of its streams, or a caller with a closed standard descriptor. Distinct = distinct case "
          "encodings (script, payload, plan)."),
    assumptions=["SIGPIPE is ignored in the calling process (the worker sets SIG_IGN)",
                 "where an exception is owed (check on and non-zero status; a deadline that must expire) any exception is accepted - its type and wording are "
                 "not part of the statement (counted as owed-exception-wording:*); a quarter of the children write NUL-free text full of printf conversion "
                 "specifications, so that a failure report that interprets the child's output shows as a crash or hang of the caller",
                 "communicate does not read stderr: with an unread stderr pipe the child writes at most 16 KiB to it, otherwise stderr goes to a file",
                 "always the std::string overload of communicate (a string literal binds to the (const void*, size_t, uint64_t) overload)",
                 "communicate timeouts are exercised only with a child that keeps stdout open",
                 "deadlines that must not expire are 60 s; expiring ones 100..300 ms",
                 "callers with any subset of their descriptors 0/1/2 closed are generated (two or more closed used to break the child's stdout/stderr: repaired in /repo)",
                 "after the first deadlock or runaway verdict a shard skips its remaining cases (each further one would cost 10 s of silence or tens of seconds of CPU)",
                 "under communicate a background descendant of the child holds only stderr (communicate reads stdout to end-of-file and writes stdin until it is closed; what it owes while another process keeps one of those open is not stated)",
                 "a timeout that has to fire under periodic signals may be noticed up to 2 s late (run_process polls with a 1 s period); the signals reach only the calling process, never the child",
                 "deadlock verdict: worker and child all blocked (no process runnable) with no change of rchar+wchar in /proc/<pid>/io and no CPU time consumed for 10 s plus the sleeps the case asks for; runaway verdict: more than 6x the case's I/O volume + 64 MiB moved, or more than 90 s of CPU consumed"],
    min_evaluations_quick=400,
    technique=("property-based testing of real child processes: rapidcheck-generated child scripts and parent delay plans "
               "(-Wl,--wrap=fork,waitpid,poll,read,write,kill), real SIGALRM streams in the caller, byte-exact output model (pattern bytes as a function of stream and offset), "
               "child-side count+FNV hash of stdin, /proc/self/fd and waitpid(-1) accounting, forked worker per case under a "
               "progress-based deadlock watchdog"),
    level_text=("Exploration: real kernel pipes and real children; the harness steers timing (child scripts, sleeps and "
                "synchronisation points injected at the parent's syscalls) but does not enumerate kernel schedules. It finds lost "
                "output, missed payload, wrong status, leaked descriptors, zombies and deadlocks on the explored timings; it is not "
                "a proof of deadlock freedom."),
    level_note="Trusts /proc/<pid>/io, /proc/<pid>/stat and the kernel's pipe/poll semantics.",
    engine="rapidcheck + deterministic grid + ld --wrap interposition + scripted child",
)
