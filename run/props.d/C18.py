"""C18 - time, duration and size formatting is total and value-faithful."""

PROP = dict(
    level="exploration",
    stages=[
        dict(name="c18_time", src="harness/c18_time.cc", deps=["harness/c18/ref.hh"],
             shards_quick=8, shards_thorough=16, timeout_quick=400, timeout_thorough=1500),
        # the 1.3x10^8-call duration sweep: non-sanitized -O2 build, block-journalled hot loop
        dict(name="c18_sweep", src="harness/c18_time.cc", deps=["harness/c18/ref.hh"], flags=["-DC18_SWEEP_ONLY"], flavor="o2",
             shards_quick=8, shards_thorough=16, timeout_quick=400, timeout_thorough=1500),
        # build configuration of the LIBRARY: the same harness linked against library objects compiled with -DNDEBUG (what CMake's
        # Release / RelWithDebInfo / MinSizeRel configurations define); subchecks *_nd on a reduced plan
        dict(name="c18_ndebug", src="harness/c18_time.cc", deps=["harness/c18/ref.hh"], flags=["-DC18_NDEBUG_LIB"], lib_defs=["-DNDEBUG"],
             shards_quick=4, shards_thorough=8, timeout_quick=400, timeout_thorough=1500),
        # independent cross-check in Python: datetime for the calendar, fractions.Fraction for duration texts and size bounds
        dict(name="c18_py", kind="pydriver", driver="oracle/c18_time.py", shim="shim/c18_shim.cc", deps=["shim/shim.hh"],
             shards_quick=4, shards_thorough=8, timeout_quick=400, timeout_thorough=1500),
    ],
    rule=("exhaustive windows + rapidcheck. Durations: every microsecond within +-3 ms of 1 s / 60 s / 3600 s / 86400 s, every 997th of the +-2 s "
          "windows and a grid of day/hour/minute/second/fraction extremes through the sanitized build, every 11th (quick) / every (thorough) "
          "microsecond of the +-2 s windows through the -O2 build, all x precision -1..6, plus random durations up to 2^63 us (log-uniform, unit "
          "multiples, rounding ties, 59.99.. carries). Timestamps: second 0, 59 and 86399 of every day 1970-01-01..9999-12-31, every day of nine "
          "corner years, random (leap-day / new-year / century biased) with random microseconds. Timestamp sequences (time_seq): 2..11 (enumerated: 5) "
          "format_time calls made back to back on one fresh thread, consecutive timestamps related by: same second with other microseconds, a timestamp "
          "of the sequence again, +-k x {1 us, 999999 us, 1 s, 1 min, 1 h, 1 day, 365 days, 2^32 us, 2^32 ms, 2^16 s, 2^24 s, 2^31 s, 2^32 s} (k = 1..3, "
          "sometimes 1..59); enumerated for 72 base timestamps x every relation x k = 1..3 and every k x 2^32 s that stays inside 1970..9999; every "
          "result of the sequence is compared with the civil-calendar reference. Incoming errno: every duration / time / time_seq / size / parse_size case "
          "carries the errno value (0, ERANGE, EINVAL, EILSEQ, EINTR, EDOM, ENOENT, EAGAIN, ENOMEM, EOVERFLOW; random cases: 0 a third of the time, else "
          "uniform; enumerators: rotating, parse_size texts x {0, ERANGE, EINVAL, EILSEQ, EINTR}, boundary sizes x {0, ERANGE, EINVAL, EINTR}) that is stored "
          "immediately before each call into phosg; the same oracle applies whatever it is. Time zone: format_time owes the UTC date and time whatever the calling process's "
          "TZ says, so every time / time_seq case carries a TZ setting (blob field; absent = environment as found, '(unset)', or a value that is put into the environment followed by "
          "tzset() and taken out again after the case): 21 settings - unset, empty, UTC0, POSIX strings that need no zone database (JST-9, EST5EDT,M3.2.0,M11.1.0, NPT-5:45, <+14>-14, "
          "<-12>12, CET/NZ/Newfoundland/Chatham-style DST rules of both hemispheres, a 1-second offset), database names (Europe/Berlin, America/New_York, :Asia/Kolkata, "
          "Australia/Lord_Howe, Pacific/Kiritimati) and an invalid string. Random cases: a quarter as found, the rest uniform over the list; the day sweep changes the setting from one "
          "block of 2048 days to the next; the corner-year days and the enumerated sequences rotate it; every setting x every hour of 1970-01-01, 2024-01-15, 2024-07-15, 2038-01-19 and "
          "9999-12-31 is enumerated. A mismatch that disappears with TZ unset is reported under <clause>:depends-on-TZ. Sizes: 1024^k+-3, mantissa rounding corners of every "
          "unit, 2^k+-1, every size below 1.1 MiB (quick) / 5 MiB (thorough), random 64-bit, both include_bytes; parse_size texts for every unit letter. "
          "timeval: boundaries + random usecs < 2^63. A Hypothesis driver repeats a sample of all three families (every 37th/7th day, +-2 ms duration windows, "
          "unit boundaries, generated batches) against Python's datetime and fractions.Fraction. Non-trivial: a duration >= 60 s with explicit precision or within 1 ms of a unit boundary "
          "(distinct (usecs, precision)); a timestamp on Feb 28/29, Mar 1, Dec 31, Jan 1, at second 59 or with non-zero microseconds; a size >= 1024; "
          "a parse_size text with a unit and a fraction; a timeval with both fields non-zero; a timestamp sequence that visits at least two different seconds. Distinct = distinct case encodings (hash). "
          "Build configuration of the library (stage c18_ndebug): Time.cc / Strings.cc are compiled translation units, so the harness is linked a second time against library "
          "objects compiled with -DNDEBUG and runs all six oracles again as duration_nd / time_nd / time_seq_nd / size_nd / parse_size_nd / timeval_nd: the random generators "
          "(30000 / 30000 / 4000 / 30000 / 10000 / 10000 cases) plus +-60 us of the four unit boundaries and a field grid x 8 precisions, one time of day of every 5th day of the domain "
          "and every day of 1970 / 2000 / 2100 / 9999, the boundary sizes and every 37th size below 1.1 MiB. "
          "After main() (stages c18_time and c18_ndebug): a namespace-scope object constructed before the library's statics and an atexit handler registered as the first statement of main() "
          "repeat format_duration / format_time / format_size / parse_size / usecs_to_timeval+timeval_to_usecs on fixed inputs (7 durations x 4 precisions, 5 timestamps, 12 sizes incl. > 2^34 x both "
          "include_bytes, 11 size texts, 4 timevals) during static destruction / exit processing and compare with the results the same calls gave inside main() (which the subchecks validate); a mismatch or "
          "exception is reported as crash:abort:after-main-<function>."),
    assumptions=["format_size may choose any unit whose two-decimal mantissa says the size to the printed precision (\"1024.00 KB\" or \"1.00 MB\"), and may print \"1 byte\"; a size below 1024 is printed as a plain byte count or, from 512 up, with a KB mantissa",
                 "subsecond_precision in -1..6; durations <= 2^63 us", "timestamps in years 1970..9999 (UTC)",
                 "the TZ environment variable is changed only by the harness itself, on the single thread that runs cases (setenv + tzset before the call, restored after it; a time_seq case sets it before its thread starts and restores it after the join); the Python stage runs under the environment as found",
                 "sizes that print as '16.00 EB' (= 2^64, not representable in size_t) are checked for a faithful text only and counted as excluded from the parse_size round trip",
                 "format_size's mantissa is computed in float: tolerance 0.005 unit + 2^-23 size (+1 byte for parse_size), as DESIGN C18 states",
                 "for precision -1 the number of printed fraction digits is not prescribed; the value must be faithful at whatever precision is printed",
                 "usecs < 2^63 for the timeval conversions",
                 "format_duration / format_time / format_size / parse_size are pure functions of their arguments: neither the errno value on entry nor "
                 "earlier calls on the same thread may change a result (each time_seq case runs on a fresh thread so that it replays exactly); "
                 "parse_size must return (not throw) for every text that denotes a representable size",
                 "library build configurations checked: assertions on (-O1, ASan+UBSan), -O2 without sanitizers (duration sweep only) and -DNDEBUG (-O1, ASan+UBSan); the harness itself never relies on assert()",
                 "the functions have no 'no longer usable' phase: calls made after main() returned (static destructors of objects constructed before the first call, atexit handlers registered before it) "
                 "must give what the same calls gave inside main()"],
    min_evaluations_quick=1000000,
    technique=("property-based testing: exhaustive window sweeps + rapidcheck generation against references written in the harness with exact "
               "integer arithmetic (duration-text evaluator in 128-bit microseconds, days-to-civil conversion cross-checked against std::chrono and "
               "a year-by-year count, 128-bit mantissa bounds for sizes); Hypothesis + C++ serve shim for the differential against Python's datetime / Fraction"),
    level_text=("Exploration: every case runs the real functions and compares with an independent exact computation. The windows named in the property "
                "(+-2 s around the four unit boundaries at microsecond resolution x 8 precisions in the thorough tier, every day of years 1970..9999, "
                "every power-of-1024 boundary) are enumerated completely; durations up to 2^63 us, arbitrary timestamps and 64-bit sizes are sampled. "
                "The full-resolution sweep runs on a non-sanitized -O2 build (memory safety is not the claim there); everything else runs under "
                "ASan+UBSan. It is not a proof for all 2^64 inputs."),
    level_note=("Trusts the compiler, 128-bit integer arithmetic, snprintf of integers, libstdc++'s std::chrono calendar (cross-check of the reference only) "
                "and CPython's datetime / fractions modules (second, independent reference)."),
    engine="rapidcheck + exhaustive enumerators; Hypothesis + serve shim",
)
