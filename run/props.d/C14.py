"""C14 - file and stream reads are complete regardless of how data is delivered."""

PROP = dict(
    level="fault_enumeration",
    stages=[dict(name="c14_fs", src="harness/c14_fs.cc", deps=["harness/c14/io_plan.hh"],
                 link=["-Wl,--wrap=read", "-Wl,--wrap=pread", "-Wl,--wrap=close", "-Wl,--wrap=write"],
                 shards_quick=8, shards_thorough=16, timeout_quick=400, timeout_thorough=1500,
                 nondeterministic=True)],
    rule=("short-read plans are injected at read()/pread() through link-time interposition (--wrap) and at FILE* level through "
          "fopencookie streams; every composition of every total <= 10 is enumerated as a plan for read_all(fd), read_all(FILE*), "
          "fgets, readx/preadx/freadx/read/fread; sizes 0..3, 250..260, 16380..16390, 32764..32772 and every line length 0..1100 "
          "are enumerated; rapidcheck draws contents up to 200 KiB, random 1..k chunk plans, real pipes fed by a writer thread with "
          "generated chunk sizes and 0..3 ms pauses, directory name sets, trees of depth <= 4 with files/directories/fifos and "
          "dangling/file/directory symlinks pointing outside, paths, scoped_fd operation sequences and Poll histories (all 9^6 "
          "add/remove histories over 3 descriptors are enumerated). Non-trivial: a delivery of >= 2 reads one of which is shorter "
          "than requested, or content > 16 KiB, or a line > 255 bytes, or an exact read sequence that mixes success and short "
          "delivery; directory listings with >= 2 names one of which is a dotfile/long/odd-byte name; trees with >= 3 entries that "
          "contain a directory symlink or depth >= 2; paths with >= 2 slashes; scoped_fd histories with >= 3 effective operations "
          "including a move; Poll histories of >= 3 steps with a re-add or an effective remove. Distinct = distinct case encodings. "
          "read_fault: the k-th read()/pread()/stream read callback fails with EINTR (or EIO) without consuming anything and the source "
          "keeps delivering afterwards; applied to read_all(fd), read_all(FILE*), load_file, readx, preadx, read, freadx, fread, fgets "
          "with the oracle 'throws, or returns exactly the bytes the source handed out' (no padding, nothing dropped, and a read-to-end "
          "helper that returns normally has everything up to end of file; a retry after a throw that consumed nothing sees the same "
          "bytes); every composition of every total <= 6 x the failing read at every call index is enumerated; non-trivial = a read "
          "failed and the helper made >= 2 reads or also completed an operation. mixed_reads: several helpers one after the other on "
          "one stream or descriptor (fgets / freadx / fread / fgetcx, then read_all, then more): every call returns exactly the "
          "next bytes of the content, in particular read_all on a source that was already partly consumed through stdio returns the "
          "whole remainder; fopen/fmemopen/cookie/fdopen-pipe streams, default/unbuffered/7-byte/256-byte stdio buffers, sizes around "
          "256, 4096, 8192, 16384 enumerated; non-trivial = two different helpers took bytes, or read_all ran on a used source. "
          "save_short_write: the write-side twin of the short-read plans (--wrap=write): write() on save_file's descriptor accepts only the "
          "planned 1..k bytes per call and keeps accepting afterwards, or fails once (EINTR / EIO / ENOSPC, nothing accepted) at a chosen call; "
          "oracle 'save_file throws, or the file holds exactly d (length and bytes) and load_file returns d', no throw when nothing was shortened; "
          "every composition of every total <= 8 x the failing write at every call index, block-boundary sizes with the first write cut to 1, "
          "size/2+1, size-1 bytes; non-trivial = a write was shortened or failed. Poll histories also contain two operations that are NOT Poll "
          "calls: a registered descriptor is closed behind Poll's back (plain close()) and its number is re-used (dup2 of another base descriptor "
          "onto it); the std::map model keeps such entries until remove() - empty() and the key set of poll() must agree with it (POLLNVAL while the "
          "number is closed, the new object's readiness afterwards); every history of length 5 over 2 descriptors x {add POLLIN, add POLLOUT, remove, "
          "close-behind, re-use} is enumerated (10^5), rapidcheck mixes them into 1/3 of its histories. "
          "read_fault also with EAGAIN as the errno of the failing read (what a non-blocking descriptor - make_fd_nonblocking, O_NONBLOCK pipes - reports while its writer pauses; nothing consumed, "
          "the source keeps delivering): same oracle, in particular read_all(fd) / load_file throw or return everything up to end of file; enumerated for the descriptor helpers over every composition of every "
          "total <= 6 x every call index, a third of the random read_fault cases. "
          "scoped_fd under the close() fault: a close() call on an owned descriptor releases the descriptor and reports -1/EINTR (Linux frees the number before close can be interrupted), optionally with the "
          "number re-used at once by an unrelated descriptor (as another thread's open would); 'close exactly once' counts close() CALLS: the expected list of close() calls per operation is unchanged, no call may fail with EBADF, "
          "the unrelated descriptor must stay open; every sequence of length 2 (thorough: 3) over two objects x {every close call, the first, the second faulted} x {number free, re-used} is enumerated, a third of the random histories carry a fault mask."),
    assumptions=["dirname() of a path without a slash is outside the statement (counted); basename() of such a path is the path",
                 "scoped_fd::open() that fails may release the previously owned descriptor at once (as in /repo) or keep owning it until a later close / destruction: either way it is closed exactly once",
                 "I/O errors are injected only as a read that fails with EINTR, EIO or EAGAIN and consumes nothing (subcheck read_fault) and as a close() that releases "
                 "its descriptor but reports EINTR (subcheck scoped_fd); the other subchecks inject short counts only",
                 "close() reporting EINTR has released the descriptor (Linux semantics; POSIX leaves it unspecified, HP-UX differs): a scoped_fd that calls close() again on that number is closing it twice",
                 "read_all(FILE*) after a failed stream read: only 'no padding, nothing dropped' is asserted; that it returns the "
                 "delivered prefix without throwing is reported, not counted (see excluded)",
                 "text fed to fgets contains no NUL byte (::fgets cannot represent it)",
                 "the process runs as root on a filesystem that accepts every byte except '/' and NUL in names (ext4)",
                 "load_file under a short-read plan may throw (it must not return a truncated string)",
                 "faults are delivered through read(), pread(), write() and close() on the descriptor the helper is expected to open next; a case whose "
                 "helper never met its plan (another system call, another descriptor) is excluded and counted (fault-plan-not-delivered), not judged",
                 "save_file under a short or failed write() may throw (it must not return normally with a file that differs from d)",
                 "Poll::remove(fd, true) is not applied to a number that was closed behind Poll's back (it is run as a plain remove): what "
                 "closing a closed descriptor does is not part of the map contract",
                 "an exact-size reader (readx/preadx) may throw io_error whenever a single read() delivers fewer bytes than requested"],
    min_evaluations_quick=100000,
    technique=("fault enumeration + property-based testing: link-time interposition of read/pread/write/close (-Wl,--wrap) and fopencookie "
               "streams turn the chunking of a byte stream into a generated input; exhaustive small-scope plans + rapidcheck, real "
               "pipes with staggered writer threads; model-based checks (set of created names, tree snapshot, descriptor-ownership "
               "model with a close() log, std::map model of Poll with an independent ::poll readiness oracle)"),
    level_text=("Fault enumeration: the short read is the injected fault. Every way of splitting a stream of <= 10 bytes into reads is "
                "enumerated for each reader, block-boundary sizes and all line lengths 0..1100 are enumerated, larger contents and "
                "kernel-produced short reads (real pipes) are sampled. It finds any reader that treats a short count as end of data "
                "inside those scopes. A second fault, a read that fails with EINTR/EIO at the k-th call, is enumerated for every "
                "composition of totals <= 6 and every k; real signals are not delivered. The write-side fault (a write() that accepts "
                "fewer bytes than requested, or fails once) is enumerated for save_file over every composition of totals <= 8."),
    level_note="Trusts glibc's fopencookie/fmemopen contract, the kernel's pipe semantics and /proc/self/fd.",
    engine="rapidcheck + exhaustive enumerators + ld --wrap interposition",
)
