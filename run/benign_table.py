#!/usr/bin/env python3
"""Orchestrator helper: fills the table of DESIGN.md section 9.10 from benign/*/meta.json and notes.md titles."""
import json, os, re, sys
VERIF = os.path.dirname(os.path.dirname(os.path.abspath(__file__)))
rows = []
st = {"total": 0, "quiet_first": 0, "quiet_now": 0}
for name in sorted(os.listdir(os.path.join(VERIF, "benign"))):
    mp = os.path.join(VERIF, "benign", name, "meta.json")
    if not os.path.exists(mp):
        continue
    m = json.load(open(mp))
    title = ""
    np_ = os.path.join(VERIF, "benign", name, "notes.md")
    if os.path.exists(np_):
        for line in open(np_):
            if line.strip():
                title = line.strip().lstrip("#").strip()
                break
    title = re.sub(r"^C\d\d\s*(/|benign|own)?\s*(benign\s*)?(change|property-preserving change)?\s*\d*\s*[-—:]*\s*", "", title).strip()
    title = title.replace("|", "/")[:170]
    first = m.get("first_alarm", m.get("alarm"))
    now = m.get("alarm")
    st["total"] += 1
    st["quiet_first"] += 0 if first else 1
    st["quiet_now"] += 0 if now else 1
    note = ""
    if m.get("judgement"):
        note = m.get("judgement_short", "true alarm of another property, see meta.json")
    elif first and not now:
        fc = m.get("first_checks", {})
        sigs = [s for v in fc.values() for s in v.get("signatures", [])] + [i[:60] for v in fc.values() for i in v.get("infra", [])]
        note = "alarmed at first (%s); machinery corrected" % ", ".join("`%s`" % s for s in sigs[:2])
    checked = ", ".join(sorted({k.split()[0] for k in m.get("checks", {})}))
    rows.append("| %s | %s | %s | %s | %s |" % (name, title, checked, "quiet" if not now else "**alarm**", note))
table = ("%d property-preserving changes evaluated; %d were quiet when first evaluated, %d are quiet with the machinery as it stands.\n\n"
         "| id | change (title of its notes.md) | checks run | result | note |\n|---|---|---|---|---|\n" % (st["total"], st["quiet_first"], st["quiet_now"])) + "\n".join(rows) + "\n"
p = os.path.join(VERIF, "DESIGN.md")
s = open(p).read()
s = re.sub(r"<!-- benign-table-begin -->.*?<!-- benign-table-end -->\n", lambda _: "<!-- benign-table-begin -->\n" + table + "<!-- benign-table-end -->\n", s, flags=re.S)
open(p, "w").write(s)
print(st)
