#!/usr/bin/env python3
"""Regenerates /verif/MANIFEST.json from run/props.py (the single source of per-property configuration)."""
import json
import os
import sys

sys.path.insert(0, os.path.dirname(os.path.abspath(__file__)))
import props

VERIF = os.path.dirname(os.path.dirname(os.path.abspath(__file__)))
ALL = ["C%02d" % i for i in range(1, 21)]

# run/ready.txt lists the properties whose checks are integrated (reviewed, run against /repo, evidence committed)
READY = set(open(os.path.join(VERIF, "run", "ready.txt")).read().split())

checks, na = [], []
for pid in ALL:
    P = props.PROPS.get(pid)
    if P is None or P.get("disabled") or pid not in READY:
        reason = props.NOT_APPLICABLE.get(pid, "check not built yet (work in progress; the design in DESIGN.md section 3 applies)")
        na.append({"property_id": pid, "reason": reason})
        continue
    checks.append({
        "property_id": pid,
        "quick_cmd": "python3-vt run/check.py %s quick" % pid,
        "thorough_cmd": "python3-vt run/check.py %s thorough" % pid,
        "evidence_file": "/verif/evidence/%s.json" % pid,
        "replay_cmd_template": "python3-vt run/check.py %s --replay {path}" % pid,
        "engine": P.get("engine", "rapidcheck + exhaustive enumerators"),
        "level_claimed": {
            "category": P.get("level", "exploration"),
            "text": P["level_text"],
            "design_ref": "DESIGN.md section 3, %s" % pid,
        },
        "level_note": P["level_note"],
        "technique": P["technique"],
    })

engines = [
    {"name": "rapidcheck + exhaustive enumerators", "path": "harness/", "serves_properties": [c["property_id"] for c in checks if "rapidcheck" in c["engine"]],
     "kind_free_text": "C++ harness per property (harness/cNN_*.cc on harness/verif.hh): rapidcheck generators produce serialisable cases, plain loops enumerate the small scopes, one oracle function decides each case; ASan+UBSan build of the current /repo tree"},
    {"name": "libFuzzer", "path": "fuzz/", "serves_properties": [c["property_id"] for c in checks if "libFuzzer" in c["engine"]],
     "kind_free_text": "coverage-guided byte-level fuzz targets with the semantic oracle inside the target"},
    {"name": "hypothesis", "path": "oracle/", "serves_properties": [c["property_id"] for c in checks if "Hypothesis" in c["engine"]],
     "kind_free_text": "Hypothesis strategies + Python reference implementations driving a C++ serve shim"},
    {"name": "driver", "path": "run/check.py", "serves_properties": [c["property_id"] for c in checks],
     "kind_free_text": "content-hashed rebuild of /repo's working tree, sharded runs, crash attribution via case journal, known-findings handling, evidence"},
]

manifest = {
    "version": 1,
    "setup_cmd": "python3-vt run/check.py --setup",
    "hooks": {
        "guard": "PHOSG_VERIF",
        "enable": "no source hooks exist: harnesses compile /repo/src/*.cc themselves with -DPHOSG_VERIF=1 (no code in /repo tests it); scheduling/IO control is done by preprocessor substitution and -Wl,--wrap in the harness only",
        "baseline_off_cmd": "cmake -G Ninja -B /repo/_build -S /repo >/dev/null && cmake --build /repo/_build >/dev/null && ctest --test-dir /repo/_build -j8 --timeout 900",
        "source_commits": [],
        "add_only": True,
    },
    "engines": [e for e in engines if e["serves_properties"]],
    "checks": checks,
    "not_applicable": na,
    "notes": "Entry point for everything: python3-vt run/check.py <ID> quick|thorough|--replay <file>. VERIF_SEED selects the rapidcheck/libFuzzer/Hypothesis seed (default 0). Known findings and fixed defects: known_findings.json. Replay files are written under /verif/replays/<ID>/.",
}
with open(os.path.join(VERIF, "MANIFEST.json"), "w") as f:
    json.dump(manifest, f, indent=1)
    f.write("\n")
print("claimed: %s; not claimed: %s" % ([c["property_id"] for c in checks], [n["property_id"] for n in na]))
