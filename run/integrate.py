#!/usr/bin/env python3
"""Orchestrator helper (not used by any registered command): merge a harness session's `fix:` commits from branch
verif-<TAG> into /repo's main by cherry-pick, then rewrite commit hashes in known/CNN.json by commit subject.

  python3 run/integrate.py <TAG> [--dry]
"""
import json
import os
import subprocess
import sys

VERIF = os.path.dirname(os.path.dirname(os.path.abspath(__file__)))


def git(*a, check=True):
    p = subprocess.run(["git", "-C", "/repo"] + list(a), stdout=subprocess.PIPE, stderr=subprocess.STDOUT, text=True)
    if check and p.returncode != 0:
        sys.exit("git %s failed:\n%s" % (" ".join(a), p.stdout))
    return p.stdout


def main():
    tag = sys.argv[1]
    dry = "--dry" in sys.argv
    have = {l.split(" ", 1)[1]: l.split(" ", 1)[0] for l in git("log", "--format=%h %s", "main").splitlines()}
    todo = [l.split(" ", 1) for l in git("log", "--reverse", "--format=%h %s", "main..verif-%s" % tag).splitlines()]
    for h, subj in todo:
        if subj in have:
            print("skip (already on main): %s %s" % (h, subj))
            continue
        if not subj.startswith("fix:"):
            print("WARNING: not a fix commit, skipped: %s %s" % (h, subj))
            continue
        print("cherry-pick %s %s" % (h, subj))
        if not dry:
            out = git("cherry-pick", h, check=False)
            if "CONFLICT" in out or "error:" in out:
                print(out)
                sys.exit("cherry-pick of %s failed - resolve by hand" % h)
    branch_hash = {subj: h for h, subj in todo}
    if dry:
        return
    have = {l.split(" ", 1)[1]: l.split(" ", 1)[0] for l in git("log", "--format=%h %s", "main").splitlines()}
    kd = os.path.join(VERIF, "known")
    for fn in sorted(os.listdir(kd)):
        path = os.path.join(kd, fn)
        data = json.load(open(path))
        changed = False
        for f in data.get("findings", []):
            subj = f.get("commit_subject")
            if f.get("status") == "fixed" and subj and subj in have and f.get("commit") != have[subj]:
                old = f.get("commit")
                f["commit"] = have[subj]
                for o in (old, branch_hash.get(subj)):
                    if o and "line" in f:
                        f["line"] = f["line"].replace(o, have[subj])
                changed = True
                print("%s: %s -> %s (%s)" % (fn, old, have[subj], subj))
        if changed:
            json.dump(data, open(path, "w"), indent=1)
            open(path, "a").write("\n")


if __name__ == "__main__":
    main()
