"""Per-property configuration lives in run/props.d/CNN.py (one file per property, each defining PROP):
stages (harness binaries, fuzz campaigns, Hypothesis drivers), the non-trivial/distinct rule reported
in the evidence, stated assumptions, and the level/technique texts that go into MANIFEST.json."""
import importlib.util
import os

PROPS = {}
NOT_APPLICABLE = {}

_d = os.path.join(os.path.dirname(os.path.abspath(__file__)), "props.d")
for _f in sorted(os.listdir(_d)):
    if not _f.endswith(".py") or _f.startswith("_"):
        continue
    _spec = importlib.util.spec_from_file_location("props_" + _f[:-3], os.path.join(_d, _f))
    _m = importlib.util.module_from_spec(_spec)
    _spec.loader.exec_module(_m)
    if getattr(_m, "PROP", None) is not None:
        PROPS[_f[:-3]] = _m.PROP
    if getattr(_m, "NOT_APPLICABLE", None):
        NOT_APPLICABLE[_f[:-3]] = _m.NOT_APPLICABLE
