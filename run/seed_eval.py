#!/usr/bin/env python3
"""Orchestrator helper (not a registered command): confirm a seeded change and run the checks against it.

  python3-vt run/seed_eval.py <PID> <src_dir> <name> [--props C01,C02] [--thorough] [--skip-confirm]

<src_dir> holds patch.diff, demo.cc|demo.sh, run_demo.sh, notes.md (delivered by an independent session that saw only
the property text). Steps, all in a scratch worktree of /repo under /tmp (removed afterwards; /repo is never touched):
  1. clean tree: run_demo.sh exits 0;   2. patch applies, project builds with its own flags, ctest passes;
  3. patched tree: run_demo.sh exits non-zero;   4. `check.py <PID> quick` (and --props) with VERIF_REPO=<scratch>.
When 1-3 hold the change is kept as /verif/seeded/<name>/ with meta.json recording what was run and what detected it.
"""
import json
import os
import re
import shutil
import subprocess
import sys
import time

VERIF = os.path.dirname(os.path.dirname(os.path.abspath(__file__)))


def sh(cmd, timeout=3600, env=None, cwd=None):
    p = subprocess.run(cmd, shell=isinstance(cmd, str), stdout=subprocess.PIPE, stderr=subprocess.STDOUT, timeout=timeout, env=env, cwd=cwd)
    return p.returncode, p.stdout.decode("utf-8", "replace")


def main():
    pid, src, name = sys.argv[1], os.path.abspath(sys.argv[2]), sys.argv[3]
    props = [pid]
    if "--props" in sys.argv:
        props = sys.argv[sys.argv.index("--props") + 1].split(",")
    thorough = "--thorough" in sys.argv
    skip_confirm = "--skip-confirm" in sys.argv
    base = "HEAD"
    if "--base" in sys.argv:
        base = sys.argv[sys.argv.index("--base") + 1]
    wt = "/tmp/seval-%s" % name
    sh("git -C /repo worktree remove --force %s" % wt)
    rc, out = sh("git -C /repo worktree add -q --detach %s %s" % (wt, base))
    if rc:
        sys.exit("cannot create worktree: " + out)
    meta = {"property": pid, "name": name, "base_commit": sh("git -C /repo rev-parse --short %s" % base)[1].strip(), "ran": []}
    try:
        notes = open(os.path.join(src, "notes.md")).read() if os.path.exists(os.path.join(src, "notes.md")) else ""
        meta["needs_to_manifest"] = notes[:3000]
        confirmed = True
        if not skip_confirm:
            rc, out = sh(["bash", os.path.join(src, "run_demo.sh"), wt], timeout=1800)
            meta["ran"].append({"step": "demo on clean tree", "exit": rc})
            if rc != 0:
                confirmed = False
                meta["problem"] = "demo fails on the clean tree: " + out[-800:]
        rc, out = sh("git -C %s apply --whitespace=nowarn %s" % (wt, os.path.join(src, "patch.diff")))
        meta["ran"].append({"step": "git apply patch.diff", "exit": rc})
        if rc != 0:
            meta["problem"] = "patch does not apply: " + out[-800:]
            print(json.dumps(meta, indent=1))
            return 1
        if not skip_confirm and confirmed:
            rc, out = sh("cmake -G Ninja -B %s/_build -S %s >/dev/null && cmake --build %s/_build 2>&1 | tail -5" % (wt, wt, wt), timeout=3600)
            meta["ran"].append({"step": "cmake build with project flags", "exit": rc})
            if rc != 0:
                confirmed = False
                meta["problem"] = "patched tree does not build: " + out[-800:]
            else:
                rc, out = sh("ctest --test-dir %s/_build -j4 -E '^Process' 2>&1 | tail -4" % wt, timeout=3600)
                ok1 = rc == 0 and "100% tests passed" in out
                # ProcessTest matches other processes by command line: run it from a neutral cwd/name, retry
                ok2 = False
                for _ in range(4):
                    rc2, out2 = sh("cd %s/_build && ctest -R '^Process' 2>&1 | tail -4" % wt, timeout=1200)
                    if rc2 == 0 and "100% tests passed" in out2:
                        ok2 = True
                        break
                    time.sleep(5)
                meta["ran"].append({"step": "ctest (existing suite, unedited)", "passed": bool(ok1 and ok2)})
                if not (ok1 and ok2):
                    confirmed = False
                    meta["problem"] = "existing tests fail with the patch: " + (out + out2)[-800:]
            shutil.rmtree(os.path.join(wt, "_build"), ignore_errors=True)
            if confirmed:
                rc, out = sh(["bash", os.path.join(src, "run_demo.sh"), wt], timeout=1800)
                meta["ran"].append({"step": "demo on patched tree", "exit": rc, "output_tail": out[-600:]})
                if rc == 0:
                    confirmed = False
                    meta["problem"] = "demo still passes with the patch"
        meta["confirmed"] = confirmed
        prev_path = os.path.join(VERIF, "seeded", name, "meta.json")
        if skip_confirm and os.path.exists(prev_path):
            # re-run of the checks only: keep the confirmation record of the first evaluation
            prev = json.load(open(prev_path))
            meta["ran"] = prev.get("ran", []) + [{"step": "re-run of the checks after they were strengthened (confirmation steps not repeated)"}]
            meta["confirmed"] = confirmed = prev.get("confirmed", False)
            meta["first_detection"] = prev.get("first_detection", prev.get("detection"))
        # detection
        env = dict(os.environ)
        env["VERIF_REPO"] = wt
        det = {}
        for p in props:
            for tier in (["quick", "thorough"] if thorough else ["quick"]):
                t0 = time.time()
                rc, out = sh(["python3-vt", os.path.join(VERIF, "run", "check.py"), p, tier], timeout=7200, env=env, cwd=VERIF)
                sigs = re.findall(r"violation (\S+):", out)
                det["%s %s" % (p, tier)] = {"exit": rc, "violations": len(re.findall(r"^VIOLATION", out, re.M)), "signatures": sigs[:8],
                                           "wall_s": round(time.time() - t0, 1), "infra": re.findall(r"^INFRA-ERROR.*$", out, re.M)[:3]}
                if rc == 1:
                    break
        meta["detection"] = det
        meta["detected"] = any(v["exit"] == 1 for v in det.values())
        if confirmed:
            dst = os.path.join(VERIF, "seeded", name)
            os.makedirs(dst, exist_ok=True)
            for fn in os.listdir(src):
                if fn.endswith(".bin") or os.path.isdir(os.path.join(src, fn)) or os.path.abspath(src) == os.path.abspath(dst) or fn == "meta.json":
                    continue
                shutil.copy(os.path.join(src, fn), os.path.join(dst, fn))
            json.dump(meta, open(os.path.join(dst, "meta.json"), "w"), indent=1)
        print(json.dumps({k: meta[k] for k in ("name", "confirmed", "detected", "detection") if k in meta}, indent=1))
        if "problem" in meta:
            print("PROBLEM:", meta["problem"])
    finally:
        sh("git -C /repo worktree remove --force %s" % wt)
    return 0


if __name__ == "__main__":
    sys.exit(main())
