#!/usr/bin/env python3
"""Driver for the phosg property checks.

  python3-vt run/check.py <ID> quick|thorough      run the check for one property
  python3-vt run/check.py <ID> --replay <file>     re-execute one saved case
  python3-vt run/check.py --setup                  pre-build every harness (cache warm-up)

Exit status: 0 = property held on everything explored (KNOWN-FINDING lines may be printed),
1 = `VIOLATION property=<ID> replay=<path>` printed, 2 = infrastructure error (never a VIOLATION).
"""
import json
import os
import re
import shutil
import subprocess
import sys
import time

sys.path.insert(0, os.path.dirname(os.path.abspath(__file__)))
import buildlib  # noqa: E402
from buildlib import VERIF, BUILD, RUN_ROOT, ALT  # noqa: E402
import props  # noqa: E402

EVIDENCE = os.path.join(VERIF, "evidence") if not ALT else os.path.join(BUILD, "evidence" + ALT)
REPLAYS = os.path.join(VERIF, "replays") if not ALT else os.path.join(BUILD, "replays" + ALT)
KNOWN_FILE = os.path.join(VERIF, "known_findings.json")

SAN_ENV = {
    "ASAN_OPTIONS": "abort_on_error=0:exitcode=97:detect_leaks=1:allocator_may_return_null=1:"
                    "detect_stack_use_after_return=0:handle_abort=1:symbolize=1:max_allocation_size_mb=4096:"
                    # librapidcheck has no frame pointers: full-depth allocation stacks fill ASan's stack depot with
                    # garbage frames (GBs per shard). Six frames are plenty for attribution.
                    "malloc_context_size=6:quarantine_size_mb=64",
    "UBSAN_OPTIONS": "print_stacktrace=1:halt_on_error=1:exitcode=98",
    "LSAN_OPTIONS": "exitcode=96",
    "TSAN_OPTIONS": "exitcode=95:halt_on_error=1",
}


def say(msg):
    sys.stdout.write(msg + "\n")
    sys.stdout.flush()


def info(msg):
    sys.stderr.write("[check] %s\n" % msg)
    sys.stderr.flush()


def load_known():
    """Known findings and fixed defects: known/CNN.json, committed, never written at run time."""
    out = []
    d = os.path.join(VERIF, "known")
    if os.path.isdir(d):
        for fn in sorted(os.listdir(d)):
            if fn.endswith(".json"):
                with open(os.path.join(d, fn)) as f:
                    out += json.load(f).get("findings", [])
    return out


def sanitize(name):
    return re.sub(r"[^A-Za-z0-9_.-]+", "_", name)[:120]


class StageResult:
    """What one stage (a sharded harness run, a fuzz campaign, a Hypothesis run) explored."""

    def __init__(self, name):
        self.name = name
        self.evaluations = 0
        self.hashes = set()          # 64-bit hashes of distinct non-trivial cases
        self.distinct_extra = 0      # distinct count not representable as hashes (summed)
        self.capped = False
        self.classes = {}
        self.excluded = {}
        self.per_check = {}
        self.exhaustive = {}
        self.samples = []
        self.notes = []
        self.failures = []           # dicts: sig, msg, replay_text (bytes/str), ext, stage
        self.infra_errors = []

    def add_counts(self, dst, src):
        for k, v in src.items():
            dst[k] = dst.get(k, 0) + v


def sanitizer_summary(log_text):
    m = re.search(r"VERIF-ABORT: ([\w-]+)", log_text)
    if m:
        return "abort:" + m.group(1)
    m = re.search(r"SUMMARY: (\w+Sanitizer): ([\w-]+)", log_text)
    if m:
        return "%s:%s" % (m.group(1), m.group(2))
    m = re.search(r"runtime error: ([^\n]{0,80})", log_text)
    if m:
        return "UBSan:" + sanitize(m.group(1))[:60]
    m = re.search(r"Assertion `([^']*)' failed", log_text)
    if m:
        return "assert:" + sanitize(m.group(1))[:60]
    return None


def crash_excerpt(logtext):
    m = re.search(r"^.*(VERIF-ABORT|runtime error|ERROR: \w+Sanitizer|WARNING: ThreadSanitizer|Assertion `|terminate called).*$", logtext, re.M)
    if m:
        return logtext[m.start():m.start() + 2500]
    return logtext[-2500:]


def read_journal(path):
    try:
        with open(path, "rb") as f:
            data = f.read()
    except OSError:
        return None
    if len(data) < 11:
        return None
    try:
        n = int(data[:10])
    except ValueError:
        return None
    text = data[11:11 + n]
    if len(text) < n or n == 0:
        return None
    return text.decode("latin-1")


def stage_command(stage):
    """Build what the stage needs from the current /repo tree; returns the command prefix (a list).

    kind=harness : one C++ harness binary (harness/verif.hh protocol).
    kind=pydriver: a Python driver (Hypothesis + reference implementation, oracle/hyp_common.py protocol -
                   the same CLI and result files as a C++ harness) talking to a C++ serve shim."""
    kind = stage.get("kind", "harness")
    if kind == "harness":
        return [buildlib.build_harness(stage["src"], stage.get("flavor", "asan"), stage.get("flags", ()),
                                       stage.get("link", ()), stage.get("extra_srcs", ()), stage.get("deps", ()),
                                       lib_defs=stage.get("lib_defs", ()), rapidcheck=stage.get("rapidcheck", True),
                                       exclude_lib=stage.get("exclude_lib", ()))]
    if kind == "pydriver":
        cmd = ["python3-vt", os.path.join(VERIF, stage["driver"])]
        if stage.get("shim"):
            shim = buildlib.build_harness(stage["shim"], stage.get("flavor", "asan"), stage.get("flags", ()),
                                          stage.get("link", ()), stage.get("extra_srcs", ()), stage.get("deps", ()),
                                          lib_defs=stage.get("lib_defs", ()), rapidcheck=False)
            cmd += ["--shim", shim]
        return cmd
    raise RuntimeError("unknown stage kind %s" % kind)


def run_harness_stage(pid, stage, tier, seed, known_sigs, only=None):
    """Build the harness from the current /repo tree and run it in shards."""
    res = StageResult(stage["name"])
    exe = stage_command(stage)
    nshards = stage.get("shards_%s" % tier, 16 if tier == "thorough" else 8)
    out = os.path.join(RUN_ROOT, pid, stage["name"])
    shutil.rmtree(out, ignore_errors=True)
    os.makedirs(out)
    kf = os.path.join(out, "known.txt")
    with open(kf, "w") as f:
        for s in known_sigs:
            f.write(s + "\n")
    env = dict(os.environ)
    env.update(SAN_ENV)
    env.update(stage.get("env", {}))
    procs = []
    for k in range(nshards):
        cmd = exe + ["--tier", tier, "--seed", str(seed), "--shard", str(k), "--nshards", str(nshards),
               "--out", out, "--known-file", kf]
        if only:
            cmd += ["--only", only]
        logf = open(os.path.join(out, "shard%d.log" % k), "wb")
        procs.append((k, subprocess.Popen(cmd, stdout=logf, stderr=subprocess.STDOUT, env=env, cwd=out,
                                          start_new_session=True), logf))
    timeout = stage.get("timeout_%s" % tier, 1500 if tier == "thorough" else 600)
    deadline = time.time() + timeout
    for k, p, logf in procs:
        try:
            p.wait(timeout=max(1, deadline - time.time()))
        except subprocess.TimeoutExpired:
            try:
                os.killpg(p.pid, 9)  # the shard and everything it spawned (children of C15 cases...)
            except OSError:
                p.kill()
            p.wait()
            res.notes.append("shard %d of %s stopped at the %ds budget (inconclusive, not a violation)" % (k, stage["name"], timeout))
            if tier == "quick":
                # the quick tier states its coverage; a run that could not finish must not look green
                res.infra_errors.append("shard %d of %s did not finish within the %ds quick budget (machine overloaded?)" % (k, stage["name"], timeout))
        logf.close()
    import numpy as np
    for k, p, _ in procs:
        jpath = os.path.join(out, "shard%d.json" % k)
        data = None
        if os.path.exists(jpath):
            try:
                with open(jpath) as f:
                    data = json.load(f)
            except ValueError:
                data = None
        if data:
            res.evaluations += data["evaluations"]
            res.capped |= data.get("distinct_capped", False)
            res.add_counts(res.classes, data.get("classes", {}))
            res.add_counts(res.excluded, data.get("excluded", {}))
            res.add_counts(res.per_check, data.get("per_check_evaluations", {}))
            res.exhaustive.update(data.get("exhaustive", {}))
            if k < 3:
                res.samples += data.get("samples", [])[:6]
            res.notes += data.get("notes", [])
            for fr in data.get("failures", []):
                if fr["sig"].startswith("INFRA/"):
                    res.infra_errors.append("%s: %s" % (fr["sig"], fr["msg"]))
                    continue
                res.failures.append({"sig": fr["sig"], "msg": fr["msg"], "replay_text": fr["case"],
                                     "ext": "case", "stage": stage["name"], "count": fr.get("count", 1)})
            hp = os.path.join(out, "shard%d.hashes" % k)
            if os.path.exists(hp) and os.path.getsize(hp) >= 8:
                arr = np.fromfile(hp, dtype=np.uint64)
                res.hashes.update(arr.tolist())
        rc = p.returncode
        if rc != 0:
            # the shard died: sanitizer abort, signal, or budget kill
            with open(os.path.join(out, "shard%d.log" % k), "rb") as f:
                logtext = f.read().decode("latin-1")
            if rc == -9 and any("budget" in n and ("shard %d " % k) in n for n in res.notes):
                continue
            jtext = read_journal(os.path.join(out, "shard%d.current" % k))
            summ = sanitizer_summary(logtext) or ("exit-%s" % rc)
            logtext = crash_excerpt(logtext)
            if jtext is not None and jtext.startswith("gen="):
                res.infra_errors.append("shard %d died inside the generator of %s: %s" % (k, jtext.strip(), logtext[:600]))
                continue
            if jtext is None:
                # not attributable to a case
                chk = "process"
                sig = "%s/crash:%s" % (stage["name"], summ)
                res.failures.append({"sig": sig, "msg": logtext[-3000:], "replay_text": "# shard crashed outside a case\n# cmd: %s --tier %s --seed %s --shard %d --nshards %d\n" % (" ".join(exe), tier, seed, k, nshards),
                                     "ext": "case", "stage": stage["name"], "crash": True, "unattributed": True})
            else:
                m = re.search(r"^check=(.*)$", jtext, re.M)
                chk = m.group(1) if m else "?"
                sig = "%s/crash:%s" % (chk, summ)
                if sig in known_sigs:
                    res.add_counts(res.excluded, {"known-finding:" + sig: 1})
                    res.notes.append("shard %d stopped at a known crash finding %s; its remaining cases were not run" % (k, sig))
                else:
                    res.failures.append({"sig": sig, "msg": logtext[-3000:], "replay_text": jtext, "ext": "case",
                                         "stage": stage["name"], "crash": True})
        if data is None and rc == 0:
            res.infra_errors.append("shard %d produced no result file" % k)
    res._exe = exe
    res._env = env
    return res


def replay_case(exe, path, env, times=1, timeout=300):
    """Returns (status, sig, text): status in pass/fail/crash."""
    last = ("pass", None, "")
    for _ in range(times):
        try:
            p = subprocess.run(exe + ["--replay", path], stdout=subprocess.PIPE, stderr=subprocess.STDOUT, env=env,
                               timeout=timeout, cwd=os.path.dirname(path))
        except subprocess.TimeoutExpired:
            return ("crash", "timeout", "replay timed out")
        text = p.stdout.decode("latin-1")
        if p.returncode == 0:
            last = ("pass", None, text)
            continue
        m = re.search(r"REPLAY-FAIL sig=(\S+)", text)
        if p.returncode == 1 and m:
            return ("fail", m.group(1), text)
        summ = sanitizer_summary(text) or ("exit-%s" % p.returncode)
        return ("crash", summ, text)
    return last


def stage_runner(stage):
    kind = stage.get("kind", "harness")
    if kind in ("harness", "pydriver"):
        return run_harness_stage
    import stages
    return getattr(stages, "run_%s_stage" % kind)


def stage_replayer(stage):
    kind = stage.get("kind", "harness")
    if kind in ("harness", "pydriver"):
        def rp(pid, stage, path, times=1):
            exe = stage_command(stage)
            env = dict(os.environ)
            env.update(SAN_ENV)
            env.update(stage.get("env", {}))
            return replay_case(exe, path, env, times)
        return rp
    import stages
    return getattr(stages, "replay_%s_stage" % kind)


def find_stage_for_replay(P, path):
    """Pick the stage that owns a replay file: by '# stage=' header, else by extension/check name."""
    try:
        with open(path, "rb") as f:
            head = f.read(4096).decode("latin-1")
    except OSError:
        return None
    m = re.search(r"^# stage=(\S+)", head, re.M)
    if m:
        for st in P["stages"]:
            if st["name"] == m.group(1):
                return st
    ext = os.path.splitext(path)[1].lstrip(".")
    for st in P["stages"]:
        if st.get("replay_ext", "case") == ext:
            return st
    return P["stages"][0]


def write_evidence(pid, P, tier, seed, results, wall, violations, known_lines, extra_notes, partial=False):
    # a partial run (--only <subcheck>) is a debugging aid: it must not replace the property's evidence file
    edir = EVIDENCE if not partial else os.path.join(BUILD, "evidence-partial")
    os.makedirs(edir, exist_ok=True)
    evaluations = sum(r.evaluations for r in results)
    hashes = set()
    for r in results:
        hashes |= r.hashes
    distinct = len(hashes) + sum(r.distinct_extra for r in results)
    classes, excluded, per_check, exhaustive = {}, {}, {}, {}
    samples, notes = [], list(extra_notes)
    for r in results:
        for k, v in r.classes.items():
            classes[k] = classes.get(k, 0) + v
        for k, v in r.excluded.items():
            excluded[k] = excluded.get(k, 0) + v
        for k, v in r.per_check.items():
            per_check[k] = per_check.get(k, 0) + v
        exhaustive.update(r.exhaustive)
        samples += r.samples[:10]
        notes += r.notes
    rule = P["rule"]
    if any(r.capped for r in results):
        rule += " (distinct count is a lower bound: per-shard hash sets are capped at 3,000,000 entries)"
    ev = {
        "property_id": pid,
        "tier": tier,
        "seed": seed,
        "level": P.get("level", "exploration"),
        "coverage": {
            "evaluations": evaluations,
            "distinct_nontrivial": distinct,
            "rule": rule,
            "samples": samples[:24] if samples else [],
            "exhaustive": bool(P.get("all_exhaustive", False)) and bool(exhaustive),
            "exhaustive_parts": exhaustive,
            "per_check_evaluations": per_check,
            "classes": classes,
            "excluded": excluded,
            "stages": [r.name for r in results],
        },
        "assumptions": P.get("assumptions", []),
        "wall_s": round(wall, 2),
        "violations": len(violations),
        "violation_signatures": [v["sig"] for v in violations],
        "known_findings_reported": known_lines,
        "notes": notes[:40],
    }
    tmp = os.path.join(edir, "%s.json.tmp%d" % (pid, os.getpid()))
    with open(tmp, "w") as f:
        json.dump(ev, f, indent=1)
        f.write("\n")
    os.rename(tmp, os.path.join(edir, "%s.json" % pid))
    return ev


def run_check(pid, tier, only=None):
    P = props.PROPS[pid]
    seed = int(os.environ.get("VERIF_SEED", "0") or "0")
    t0 = time.time()
    known = [k for k in load_known() if k["property"] == pid]
    known_open = [k for k in known if k.get("status") == "known"]
    known_sigs = sorted({k["signature"] for k in known_open})
    results, infra = [], []
    for stage in P["stages"]:
        if tier == "quick" and stage.get("thorough_only"):
            continue
        try:
            r = stage_runner(stage)(pid, stage, tier, seed, known_sigs, only)
        except RuntimeError as e:
            # this stage cannot be built/run against the tree: an infrastructure problem for THIS stage; the other
            # stages still run, and what they find is still reported
            infra.append("stage=%s %s" % (stage["name"], e))
            continue
        r._stage = stage
        results.append(r)
        infra += r.infra_errors

    # --- regression tier: saved cases under corpus/<id>/*.case are re-executed first-class on every run
    violations = []
    corpus_dir = os.path.join(VERIF, "corpus", pid.lower())
    known_repros = {os.path.abspath(os.path.join(VERIF, k["repro_file"])) for k in known_open if k.get("repro_file")}
    regress_n = 0
    if os.path.isdir(corpus_dir) and not only:
        for fn in sorted(os.listdir(corpus_dir)):
            path = os.path.join(corpus_dir, fn)
            if not fn.endswith(".case") or os.path.abspath(path) in known_repros:
                continue
            st_obj = find_stage_for_replay(P, path)
            if tier == "quick" and st_obj.get("thorough_only"):
                continue
            st, sig, text = stage_replayer(st_obj)(pid, st_obj, path, 1)
            regress_n += 1
            if st != "pass":
                violations.append({"sig": "regression:%s:%s" % (fn, sig), "msg": text[-1500:], "path": path, "stage": st_obj["name"]})

    rdir = os.path.join(REPLAYS, pid)
    seen = set()
    unconfirmed = []
    for r in results:
        for fl in r.failures:
            if fl["sig"] in seen:
                continue
            seen.add(fl["sig"])
            os.makedirs(rdir, exist_ok=True)
            path = os.path.join(rdir, "%s.%s" % (sanitize(fl["sig"]), fl.get("ext", "case")))
            body = fl["replay_text"]
            mode = "wb" if isinstance(body, bytes) else "w"
            with open(path, mode) as f:
                if fl.get("ext", "case") == "case":
                    f.write("# property=%s stage=%s\n# stage=%s\n# sig=%s\n# msg=%s\n" % (pid, fl["stage"], fl["stage"], fl["sig"], fl["msg"].replace("\n", " | ")[:1500]))
                f.write(body)
            if fl.get("unattributed"):
                fl["path"] = path
                violations.append(fl)
                continue
            times = 3 if fl.get("crash") and "case-cpu-limit" not in fl["sig"] else 1
            st, sig, text = stage_replayer(r._stage)(pid, r._stage, path, times)
            if st == "pass":
                # The oracle failed on the real code inside the shard but the saved case alone does not reproduce it
                # (state carried over from earlier cases, or timing). It is still a failure of the code under test:
                # report it, and say so.
                unconfirmed.append("%s (observed in the shard, did not reproduce from %s alone)" % (fl["sig"], path))
            fl["path"] = path
            violations.append(fl)

    # --- known findings: re-execute the listed repro, report while it still fails
    known_lines = []
    for k in known_open:
        rep = k.get("repro_file")
        if not rep:
            continue
        rp = os.path.join(VERIF, rep)
        st_obj = find_stage_for_replay(P, rp)
        st, sig, text = stage_replayer(st_obj)(pid, st_obj, rp, 1)
        if st in ("fail", "crash"):
            line = "KNOWN-FINDING: property=%s %s" % (pid, k["what"])
            say(line)
            known_lines.append(line)
        else:
            info("known finding '%s' no longer reproduces" % k["signature"])

    wall = time.time() - t0
    notes = []
    if unconfirmed:
        notes.append("unconfirmed failures (not reproducible from the saved case): " + "; ".join(unconfirmed))
    if regress_n:
        notes.append("regression tier: %d saved cases from corpus/%s re-executed" % (regress_n, pid.lower()))
    ev = write_evidence(pid, P, tier, seed, results, wall, violations, known_lines, notes + infra, partial=bool(only))
    for name, need in P.get("min_per_check_%s" % tier, {}).items():
        got = ev["coverage"]["per_check_evaluations"].get(name, 0)
        if got < need and not only and not violations:  # a search that stopped at a failure is short by design
            infra.append("subcheck %s ran only %d evaluations (< %d): the tier did not reach its stated coverage" % (name, got, need))
    minimum = P.get("min_evaluations_%s" % tier, 1)
    if infra or (ev["coverage"]["evaluations"] < minimum and not violations):
        for e in infra:
            say("INFRA-ERROR: property=%s %s" % (pid, e))
        if ev["coverage"]["evaluations"] < minimum:
            say("INFRA-ERROR: property=%s only %d evaluations (< %d)" % (pid, ev["coverage"]["evaluations"], minimum))
        if not violations:
            return 2
    info("%s %s: %d evaluations, %d distinct non-trivial, %d violation(s), %.1fs" % (
        pid, tier, ev["coverage"]["evaluations"], ev["coverage"]["distinct_nontrivial"], len(violations), wall))
    if violations:
        for v in violations:
            info("violation %s: %s" % (v["sig"], v["msg"][:300].replace("\n", " | ")))
            say("VIOLATION property=%s replay=%s" % (pid, v["path"]))
        return 1
    return 0


def run_replay(pid, path):
    P = props.PROPS[pid]
    path = os.path.abspath(path)
    st_obj = find_stage_for_replay(P, path)
    st, sig, text = stage_replayer(st_obj)(pid, st_obj, path, 1)
    sys.stderr.write(text[-4000:])
    if st == "pass":
        say("REPLAY-PASS property=%s" % pid)
        return 0
    say("VIOLATION property=%s replay=%s" % (pid, path))
    return 1


def setup():
    """Warm the build cache: library flavors and every harness, in parallel."""
    from concurrent.futures import ThreadPoolExecutor
    t0 = time.time()
    flavors = set()
    jobs = []
    ready = set(open(os.path.join(VERIF, "run", "ready.txt")).read().split())
    for pid, P in sorted(props.PROPS.items()):
        if pid not in ready:
            continue
        for st in P["stages"]:
            flavors.add((st.get("flavor", "asan"), tuple(st.get("lib_defs", ()))))
            jobs.append((pid, st))
    for fl, defs in sorted(flavors):
        buildlib.build_lib(fl, defs)

    def b(job):
        pid, st = job
        kind = st.get("kind", "harness")
        if kind in ("harness", "pydriver"):
            stage_command(st)
        else:
            import stages
            fn = getattr(stages, "setup_%s_stage" % kind, None)
            if fn:
                fn(pid, st)
        return pid
    with ThreadPoolExecutor(8) as ex:
        list(ex.map(b, jobs))
    info("setup done in %.1fs" % (time.time() - t0))
    return 0


def main(argv):
    if len(argv) >= 2 and argv[1] == "--setup":
        return setup()
    if len(argv) < 3:
        sys.stderr.write(__doc__)
        return 2
    pid = argv[1]
    if pid not in props.PROPS:
        say("INFRA-ERROR: unknown property %s" % pid)
        return 2
    if argv[2] == "--replay":
        return run_replay(pid, argv[3])
    tier = argv[2]
    if tier not in ("quick", "thorough"):
        sys.stderr.write(__doc__)
        return 2
    only = None
    if len(argv) >= 5 and argv[3] == "--only":
        only = argv[4]
    try:
        return run_check(pid, tier, only)
    except RuntimeError as e:
        say("INFRA-ERROR: property=%s %s" % (pid, e))
        return 2


if __name__ == "__main__":
    sys.exit(main(sys.argv))
