"""Non-harness stage kinds for run/check.py.  kind=fuzz: a libFuzzer campaign whose target carries the oracle."""
import json
import os
import re
import shutil
import subprocess
import time

import buildlib
from buildlib import VERIF, BUILD, RUN_ROOT


def _check():
    import check
    return check


def _build_fuzz(stage):
    return buildlib.build_harness(stage["src"], "fuzz", stage.get("flags", ()), stage.get("link", ()),
                                  stage.get("extra_srcs", ()), tuple(stage.get("deps", ())) + ("fuzz/fuzz_common.hh",),
                                  rapidcheck=False, lib_defs=stage.get("lib_defs", ()))


def setup_fuzz_stage(pid, stage):
    _build_fuzz(stage)


def _fuzz_env(out, known_file):
    ck = _check()
    env = dict(os.environ)
    env.update(ck.SAN_ENV)
    # libFuzzer wants its own handling of aborts; keep leak detection on
    env["ASAN_OPTIONS"] = "detect_leaks=1:allocator_may_return_null=1:detect_stack_use_after_return=0:symbolize=1:max_allocation_size_mb=4096:malloc_context_size=6:quarantine_size_mb=64"
    env["UBSAN_OPTIONS"] = "print_stacktrace=1:halt_on_error=1"
    env["VERIF_FUZZ_OUT"] = out
    env["VERIF_KNOWN"] = known_file
    return env


def _classify_artifact(exe, path, env, times=3):
    """Re-run one artifact; returns (reproduced:bool, sig, text)."""
    ck = _check()
    sig, text, hits = None, "", 0
    for _ in range(times):
        try:
            p = subprocess.run([exe, path], stdout=subprocess.PIPE, stderr=subprocess.STDOUT, env=env, timeout=120)
        except subprocess.TimeoutExpired:
            continue
        t = p.stdout.decode("latin-1")
        if p.returncode != 0:
            hits += 1
            text = t
            m = re.search(r"VERIF-FAIL sig=(\S+)", t)
            if m:
                sig = m.group(1)
            else:
                sig = "crash:" + (ck.sanitizer_summary(t) or "exit-%d" % p.returncode)
    return hits > 0, sig, text


def run_fuzz_stage(pid, stage, tier, seed, known_sigs, only=None):
    ck = _check()
    res = ck.StageResult(stage["name"])
    exe = _build_fuzz(stage)
    out = os.path.join(RUN_ROOT, pid, stage["name"])
    shutil.rmtree(out, ignore_errors=True)
    os.makedirs(out)
    corpus = os.path.join(out, "corpus")
    os.makedirs(corpus)
    seeds = 0
    if stage.get("corpus") and os.path.isdir(os.path.join(VERIF, stage["corpus"])) and not stage.get("empty_corpus"):
        for fn in sorted(os.listdir(os.path.join(VERIF, stage["corpus"]))):
            shutil.copy(os.path.join(VERIF, stage["corpus"], fn), os.path.join(corpus, fn))
            seeds += 1
    kf = os.path.join(out, "known.txt")
    with open(kf, "w") as f:
        for s in known_sigs:
            f.write(s + "\n")
    env = _fuzz_env(out, kf)
    secs = stage.get("seconds_%s" % tier, 20 if tier == "quick" else 300)
    workers = stage.get("workers_%s" % tier, 8 if tier == "quick" else 16)
    base = [exe, corpus, "-max_len=%d" % stage.get("max_len", 4096), "-timeout=%d" % stage.get("timeout", 25),
            "-rss_limit_mb=3000", "-print_final_stats=1", "-reload=1", "-use_value_profile=%d" % stage.get("value_profile", 0)]
    if stage.get("dict"):
        base.append("-dict=" + os.path.join(VERIF, stage["dict"]))
    if stage.get("only_ascii"):
        base.append("-only_ascii=1")
    t_end = time.time() + secs
    procs = {}
    launches = 0

    def launch(k):
        nonlocal launches
        remaining = int(t_end - time.time())
        if launches >= workers and remaining < 2:
            return
        remaining = max(remaining, 5)
        launches += 1
        # -seed=0 means "random" to libFuzzer: remap
        s = (seed * 1000 + launches) % 2000000000 + 1
        logf = open(os.path.join(out, "fuzz-%d-%d.log" % (k, launches)), "wb")
        cmd = base + ["-seed=%d" % s, "-max_total_time=%d" % remaining, "-artifact_prefix=%s/art-%d-%d-" % (out, k, launches)]
        procs[k] = (subprocess.Popen(cmd, stdout=logf, stderr=subprocess.STDOUT, env=env, cwd=out), logf)

    for k in range(workers):
        launch(k)
    restarts = 0
    while procs:
        time.sleep(0.5)
        for k in list(procs):
            p, logf = procs[k]
            if p.poll() is None:
                if time.time() > t_end + 60:
                    p.kill()
                continue
            logf.close()
            del procs[k]
            if p.returncode != 0 and restarts < 3 * workers and time.time() < t_end - 3:
                restarts += 1   # a worker stopped at a crash: keep searching behind it
                launch(k)
    # statistics from every process that ran
    import numpy as np
    for fn in os.listdir(out):
        if fn.startswith("stats.") and fn.endswith(".json"):
            try:
                d = json.load(open(os.path.join(out, fn)))
            except ValueError:
                continue
            res.evaluations += d["evaluations"]
            res.add_counts(res.classes, d.get("classes", {}))
            res.add_counts(res.excluded, d.get("excluded", {}))
            if len(res.samples) < 12:
                res.samples += d.get("samples", [])[:4]
        elif fn.startswith("hashes.") and os.path.getsize(os.path.join(out, fn)) >= 8:
            res.hashes.update(np.fromfile(os.path.join(out, fn), dtype=np.uint64).tolist())
    res.per_check[stage["name"]] = res.evaluations
    res.classes["fuzz:seed-corpus-files"] = seeds
    res.classes["fuzz:corpus-files-at-end"] = len(os.listdir(corpus))
    res.classes["fuzz:worker-restarts-after-crash"] = restarts
    res.notes.append("%s: %d workers x %ds, libFuzzer seeds derived from VERIF_SEED=%d" % (stage["name"], workers, secs, seed))
    # artifacts: only crash-/leak- count; timeout/oom/slow-unit are load noise
    by_sig = {}
    timeouts_checked = 0
    for fn in sorted(os.listdir(out)):
        if not fn.startswith("art-"):
            continue
        path = os.path.join(out, fn)
        if "timeout-" in fn:
            # load can produce spurious timeouts; a hang is only reported when the input exceeds a 90 s limit
            # in each of three fresh runs (one confirmed hang is enough: later timeout artifacts are not re-run)
            if ("%s/hang" % stage["name"]) in by_sig or timeouts_checked >= 4:
                continue
            timeouts_checked += 1
            hung = 0
            for _ in range(3):
                try:
                    p = subprocess.run([exe, "-timeout=90", path], stdout=subprocess.PIPE, stderr=subprocess.STDOUT, env=env, timeout=200)
                    if b"libFuzzer: timeout" in p.stdout:
                        hung += 1
                except subprocess.TimeoutExpired:
                    hung += 1
            if hung == 3:
                sig = "%s/hang" % stage["name"]
                if sig in known_sigs:
                    res.add_counts(res.excluded, {"known-finding:" + sig: 1})
                elif sig not in by_sig or os.path.getsize(path) < by_sig[sig][0]:
                    by_sig[sig] = (os.path.getsize(path), path, "input does not terminate within 90 s (3 of 3 runs)")
            else:
                res.add_counts(res.excluded, {"libfuzzer-noise-artifact(timeout that did not reproduce)": 1})
            continue
        if "crash-" not in fn and "leak-" not in fn:
            res.add_counts(res.excluded, {"libfuzzer-noise-artifact(oom/slow-unit)": 1})
            continue
        ok, sig, text = _classify_artifact(exe, path, env)
        if not ok:
            res.notes.append("artifact %s did not reproduce in 3 runs (ignored)" % fn)
            continue
        sig = "%s/%s" % (stage["name"], sig)
        if sig in known_sigs:
            res.add_counts(res.excluded, {"known-finding:" + sig: 1})
            continue
        size = os.path.getsize(path)
        if sig not in by_sig or size < by_sig[sig][0]:
            by_sig[sig] = (size, path, text)
    for sig, (size, path, text) in by_sig.items():
        with open(path, "rb") as f:
            body = f.read()
        res.failures.append({"sig": sig, "msg": ck.crash_excerpt(text), "replay_text": body, "ext": stage.get("replay_ext", "fuzz"),
                             "stage": stage["name"], "crash": True})
    if res.evaluations == 0 and not res.failures:
        res.infra_errors.append("fuzz stage %s executed nothing" % stage["name"])
    return res


def replay_fuzz_stage(pid, stage, path, times=1):
    exe = _build_fuzz(stage)
    out = os.path.join(RUN_ROOT, pid, stage["name"] + "-replay")
    os.makedirs(out, exist_ok=True)
    kf = os.path.join(out, "known.txt")
    open(kf, "w").close()
    env = _fuzz_env(out, kf)
    ok, sig, text = _classify_artifact(exe, path, env, max(1, times))
    if not ok:
        # a hang?
        try:
            p = subprocess.run([exe, "-timeout=90", path], stdout=subprocess.PIPE, stderr=subprocess.STDOUT, env=env, timeout=200)
            if b"libFuzzer: timeout" in p.stdout:
                return ("crash", "%s/hang" % stage["name"], p.stdout.decode("latin-1")[-2000:])
        except subprocess.TimeoutExpired:
            return ("crash", "%s/hang" % stage["name"], "no result within 200 s")
        return ("pass", None, text)
    return ("fail" if "VERIF-FAIL" in text else "crash", "%s/%s" % (stage["name"], sig), text)
