#!/usr/bin/env python3
"""Orchestrator helper: fills DESIGN.md section 9.8 from seeded/*/meta.json (+ build/seed_desc.py descriptions)
and writes a short `what` into each meta.json."""
import json, os, re, sys
VERIF = os.path.dirname(os.path.dirname(os.path.abspath(__file__)))
sys.path.insert(0, os.path.join(VERIF, "run"))
from seed_desc import R1, R2, R3, R4
rows = []
stats = {"total": 0, "confirmed": 0, "detected": 0, "first_missed": 0}
for name in sorted(os.listdir(os.path.join(VERIF, "seeded"))):
    mp = os.path.join(VERIF, "seeded", name, "meta.json")
    if not os.path.exists(mp):
        continue
    m = json.load(open(mp))
    pid = m["property"]
    k = int(name.rsplit("-", 1)[1])
    what = (R4 if "-r4-" in name else R3 if "-r3-" in name else R2 if "-r2-" in name else R1)[pid][k - 1]
    m["breaks_property"] = pid
    m["what"] = what
    json.dump(m, open(mp, "w"), indent=1)
    det = m.get("detection", {})
    first = m.get("first_detection")
    sigs = []
    tier = ""
    for key, v in det.items():
        if v.get("exit") == 1:
            sigs = v.get("signatures", [])
            tier = key.split()[1]
            break
    first_missed = bool(first) and not any(v.get("exit") == 1 for v in first.values())
    stats["total"] += 1
    stats["confirmed"] += 1 if m.get("confirmed") else 0
    stats["detected"] += 1 if m.get("detected") else 0
    stats["first_missed"] += 1 if first_missed else 0
    sig = ", ".join("`%s`" % s for s in sigs[:2]) if sigs else "-"
    rows.append("| %s | %s | %s | %s | %s |" % (name, what, "yes" if m.get("detected") else "**no**", "missed at first; check strengthened" if first_missed else "", sig + (" (%s)" % tier if tier else "")))
table = ("%d seeded changes kept (all confirmed here: demo passes on the clean tree and fails on the patched tree, the project builds "
         "with its own -Werror flags, the 14 existing tests pass). %d are detected by the quick tier as it stands now; %d of them were "
         "missed when first evaluated and led to the strengthenings of section 9.9.\n\n"
         "| id | change | detected | note | first signatures |\n|---|---|---|---|---|\n" % (stats["total"], stats["detected"], stats["first_missed"])) + "\n".join(rows) + "\n"
p = os.path.join(VERIF, "DESIGN.md")
s = open(p).read()
if "SEEDED_TABLE_PLACEHOLDER" in s:
    s = s.replace("SEEDED_TABLE_PLACEHOLDER\n", "<!-- seeded-table-begin -->\n" + table + "<!-- seeded-table-end -->\n")
else:
    s = re.sub(r"<!-- seeded-table-begin -->.*?<!-- seeded-table-end -->\n", "<!-- seeded-table-begin -->\n" + table.replace("\\", "\\\\") + "<!-- seeded-table-end -->\n", s, flags=re.S)
open(p, "w").write(s)
print(stats)
