#!/usr/bin/env python3
"""Orchestrator helper (not a registered command): run the checks against a property-PRESERVING change.

  python3-vt run/benign_eval.py <PID> <src_dir> <name> [--props C01,C02] [--thorough] [--skip-confirm]

<src_dir> holds patch.diff and notes.md, delivered by an independent session that saw only the property text and was
asked for a realistic maintainer commit after which the property still holds (different exception wording, another
algorithm, other block sizes, behaviour outside the stated domain ...). Steps, all in a scratch worktree of /repo under
/tmp (removed afterwards; /repo is never touched):
  1. patch applies, project builds with its own flags, ctest passes;
  2. `check.py <PID> quick` with VERIF_REPO=<scratch> must exit 0 without a VIOLATION line.
The change is kept as /verif/benign/<name>/ with meta.json recording what was run. An alarm is then judged by hand:
either the change does break the property (then it is moved to seeded/ as a detected seed) or the check demanded
more than the property states (false alarm: the machinery is corrected, DESIGN.md 9.6).
"""
import json
import os
import re
import shutil
import subprocess
import sys
import time

VERIF = os.path.dirname(os.path.dirname(os.path.abspath(__file__)))


def sh(cmd, timeout=3600, env=None, cwd=None):
    p = subprocess.run(cmd, shell=isinstance(cmd, str), stdout=subprocess.PIPE, stderr=subprocess.STDOUT, timeout=timeout, env=env, cwd=cwd)
    return p.returncode, p.stdout.decode("utf-8", "replace")


def main():
    pid, src, name = sys.argv[1], os.path.abspath(sys.argv[2]), sys.argv[3]
    props = [pid]
    if "--props" in sys.argv:
        props = sys.argv[sys.argv.index("--props") + 1].split(",")
    thorough = "--thorough" in sys.argv
    skip_confirm = "--skip-confirm" in sys.argv
    wt = "/tmp/beval-%s" % name
    sh("git -C /repo worktree remove --force %s" % wt)
    rc, out = sh("git -C /repo worktree add -q --detach %s HEAD" % wt)
    if rc:
        sys.exit("cannot create worktree: " + out)
    meta = {"property": pid, "name": name, "kind": "property-preserving change (must NOT be reported)",
            "base_commit": sh("git -C /repo rev-parse --short HEAD")[1].strip(), "ran": []}
    try:
        notes = open(os.path.join(src, "notes.md")).read() if os.path.exists(os.path.join(src, "notes.md")) else ""
        meta["notes"] = notes[:4000]
        rc, out = sh("git -C %s apply --whitespace=nowarn %s" % (wt, os.path.join(src, "patch.diff")))
        meta["ran"].append({"step": "git apply patch.diff", "exit": rc})
        if rc != 0:
            meta["problem"] = "patch does not apply: " + out[-800:]
            print(json.dumps(meta, indent=1))
            return 1
        builds = True
        if not skip_confirm:
            rc, out = sh("cmake -G Ninja -B %s/_build -S %s >/dev/null && cmake --build %s/_build 2>&1 | tail -5" % (wt, wt, wt), timeout=3600)
            meta["ran"].append({"step": "cmake build with project flags", "exit": rc})
            if rc != 0:
                builds = False
                meta["problem"] = "patched tree does not build: " + out[-800:]
            else:
                rc, out = sh("ctest --test-dir %s/_build -j4 -E '^Process' 2>&1 | tail -4" % wt, timeout=3600)
                ok1 = rc == 0 and "100% tests passed" in out
                ok2 = False
                for _ in range(4):
                    rc2, out2 = sh("cd %s/_build && ctest -R '^Process' 2>&1 | tail -4" % wt, timeout=1200)
                    if rc2 == 0 and "100% tests passed" in out2:
                        ok2 = True
                        break
                    time.sleep(5)
                meta["ran"].append({"step": "ctest (existing suite, unedited)", "passed": bool(ok1 and ok2)})
                if not (ok1 and ok2):
                    builds = False
                    meta["problem"] = "existing tests fail with the patch: " + (out + out2)[-800:]
            shutil.rmtree(os.path.join(wt, "_build"), ignore_errors=True)
        meta["builds_and_passes_tests"] = builds
        env = dict(os.environ)
        env["VERIF_REPO"] = wt
        det = {}
        for p in props:
            for tier in (["quick", "thorough"] if thorough else ["quick"]):
                t0 = time.time()
                rc, out = sh(["python3-vt", os.path.join(VERIF, "run", "check.py"), p, tier], timeout=7200, env=env, cwd=VERIF)
                sigs = re.findall(r"violation (\S+):", out)
                det["%s %s" % (p, tier)] = {"exit": rc, "violations": len(re.findall(r"^VIOLATION", out, re.M)), "signatures": sigs[:8],
                                           "wall_s": round(time.time() - t0, 1), "infra": re.findall(r"^INFRA-ERROR.*$", out, re.M)[:3],
                                           "tail": out[-1500:] if rc != 0 else ""}
        meta["checks"] = det
        meta["alarm"] = any(v["exit"] != 0 or v["violations"] for v in det.values())
        dst = os.path.join(VERIF, "benign", name)
        os.makedirs(dst, exist_ok=True)
        for fn in ("patch.diff", "notes.md"):
            if os.path.exists(os.path.join(src, fn)) and os.path.abspath(src) != os.path.abspath(dst):
                shutil.copy(os.path.join(src, fn), os.path.join(dst, fn))
        prev_path = os.path.join(dst, "meta.json")
        if skip_confirm and os.path.exists(prev_path):
            prev = json.load(open(prev_path))
            meta["ran"] = prev.get("ran", []) + [{"step": "re-run of the checks after the machinery was corrected"}]
            meta["builds_and_passes_tests"] = prev.get("builds_and_passes_tests")
            meta["first_checks"] = prev.get("first_checks", prev.get("checks"))
            meta["first_alarm"] = prev.get("first_alarm", prev.get("alarm"))
        json.dump(meta, open(prev_path, "w"), indent=1)
        print(json.dumps({k: meta[k] for k in ("name", "builds_and_passes_tests", "alarm", "checks") if k in meta}, indent=1))
        if "problem" in meta:
            print("PROBLEM:", meta["problem"])
    finally:
        sh("git -C /repo worktree remove --force %s" % wt)
    return 0


if __name__ == "__main__":
    sys.exit(main())
