"""Content-addressed build cache for the phosg library objects and the harness binaries.

Everything is compiled from /repo's *current working tree*; the cache key is a hash of the
flags and of the contents of every file that can influence the object, so an edited source
is always recompiled and an unchanged one is reused.  All output lives under /verif/build
(git-ignored); nothing is placed in /tmp.
"""
import fcntl
import hashlib
import os
import time
import re
import subprocess
import sys
from concurrent.futures import ThreadPoolExecutor

VERIF = os.path.dirname(os.path.dirname(os.path.abspath(__file__)))
REPO = os.environ.get("VERIF_REPO", "/repo")
BUILD = os.path.join(VERIF, "build")
CXX = "clang++"
# Runs against another checkout (VERIF_REPO=...: sensitivity experiments) keep their scratch output and their
# evidence apart from the runs against /repo, so that they can go on concurrently and never touch /verif/evidence.
ALT = "" if os.path.abspath(REPO) == "/repo" else "-" + hashlib.sha1(os.path.abspath(REPO).encode()).hexdigest()[:8]
RUN_ROOT = os.path.join(BUILD, "run" + ALT)

COMMON = ["-std=c++20", "-g", "-fno-omit-frame-pointer", "-w", "-DPHOSG_VERIF=1"]
SAN = ["-fsanitize=address,undefined", "-fno-sanitize-recover=undefined",
       "-fno-sanitize=signed-integer-overflow,nonnull-attribute"]

FLAVORS = {
    # default: ASan + UBSan, asserts on
    "asan": COMMON + ["-O1"] + SAN,
    # throughput build for sweeps where memory safety is not the claim
    "o2": COMMON + ["-O2"],
    # ThreadSanitizer (C16 stress)
    "tsan": COMMON + ["-O1", "-fsanitize=thread"],
    # libFuzzer targets: library objects get coverage instrumentation
    "fuzz": COMMON + ["-O1", "-fsanitize=fuzzer-no-link"] + SAN,
}
LINK = {
    "asan": SAN,
    "o2": [],
    "tsan": ["-fsanitize=thread"],
    "fuzz": ["-fsanitize=fuzzer"] + SAN,
}


def log(msg):
    sys.stderr.write("[build] %s\n" % msg)
    sys.stderr.flush()


def sha(*parts):
    h = hashlib.sha1()
    for p in parts:
        if isinstance(p, str):
            p = p.encode()
        h.update(p)
        h.update(b"\0")
    return h.hexdigest()[:20]


def read(path):
    with open(path, "rb") as f:
        return f.read()


def lib_sources():
    """The library's source list, taken from CMakeLists.txt's add_library(phosg ...)."""
    text = read(os.path.join(REPO, "CMakeLists.txt")).decode("utf-8", "replace")
    m = re.search(r"add_library\(\s*phosg\s+(.*?)\)", text, re.S)
    srcs = []
    if m:
        srcs = [t for t in m.group(1).split() if t.endswith(".cc")]
    if not srcs:
        srcs = ["src/" + f for f in sorted(os.listdir(os.path.join(REPO, "src")))
                if f.endswith(".cc") and not f.endswith("Test.cc")
                and f not in ("BinDiff.cc", "JSONFormat.cc", "ParseData.cc", "PhosgPNGConv.cc")]
    return srcs


def headers_digest():
    src = os.path.join(REPO, "src")
    h = hashlib.sha1()
    for f in sorted(os.listdir(src)):
        if f.endswith(".hh") or f.endswith(".h"):
            h.update(f.encode())
            h.update(read(os.path.join(src, f)))
    return h.hexdigest()


def include_dir():
    """<phosg/X.hh> resolves to /repo/src/X.hh through a symlink."""
    inc = os.path.join(BUILD, "include-" + sha(REPO)[:8])
    os.makedirs(inc, exist_ok=True)
    link = os.path.join(inc, "phosg")
    target = os.path.join(REPO, "src")
    try:
        if os.readlink(link) != target:
            os.unlink(link)
            os.symlink(target, link)
    except OSError:
        try:
            os.symlink(target, link)
        except FileExistsError:
            pass
    return inc


class Lock:
    def __init__(self, name="build"):
        os.makedirs(BUILD, exist_ok=True)
        self.path = os.path.join(BUILD, ".%s.lock" % name)

    def __enter__(self):
        self.f = open(self.path, "w")
        fcntl.flock(self.f, fcntl.LOCK_EX)
        return self

    def __exit__(self, *a):
        fcntl.flock(self.f, fcntl.LOCK_UN)
        self.f.close()


def _run(cmd, what):
    p = subprocess.run(cmd, stdout=subprocess.PIPE, stderr=subprocess.STDOUT)
    if p.returncode != 0:
        sys.stderr.write(p.stdout.decode("utf-8", "replace")[-6000:])
        raise RuntimeError("build failed: %s" % what)


def build_lib(flavor, extra_defs=()):
    """Compile the library sources with the flavor's flags; returns the list of object files."""
    flags = FLAVORS[flavor] + list(extra_defs)
    hd = headers_digest()
    inc = include_dir()
    objs, jobs = [], []
    objdir = os.path.join(BUILD, "obj")
    os.makedirs(objdir, exist_ok=True)
    for rel in lib_sources():
        path = os.path.join(REPO, rel)
        key = sha(" ".join(flags), hd, read(path), rel)
        obj = os.path.join(objdir, "%s-%s-%s.o" % (os.path.basename(rel)[:-3], flavor, key))
        objs.append(obj)
        if not os.path.exists(obj):
            jobs.append((path, obj))
    if jobs:
        with Lock("lib"):
            jobs = [(p, o) for (p, o) in jobs if not os.path.exists(o)]
            if jobs:
                log("compiling %d library sources (%s)" % (len(jobs), flavor))

                def cc(job):
                    p, o = job
                    tmp = o + ".tmp%d" % os.getpid()
                    _run([CXX] + flags + ["-I", inc, "-I", os.path.join(REPO, "src"), "-c", p, "-o", tmp], p)
                    os.rename(tmp, o)
                with ThreadPoolExecutor(16) as ex:
                    list(ex.map(cc, jobs))
                _gc(objdir, set(objs), 400, 300)
    for o in objs:
        try:
            os.utime(o, None)  # LRU stamp for _gc
        except OSError:
            pass
    return objs


def build_harness(src_rel, flavor="asan", extra_flags=(), extra_link=(), extra_srcs=(), deps=(), with_lib=True,
                  rapidcheck=True, lib_defs=(), exclude_lib=()):
    """Compile and link one harness TU (path relative to /verif) against the library objects."""
    src = os.path.join(VERIF, src_rel)
    flags = FLAVORS[flavor] + list(extra_flags)
    inc = include_dir()
    hdeps = [os.path.join(VERIF, "harness", f) for f in sorted(os.listdir(os.path.join(VERIF, "harness")))
             if f.endswith(".hh") or f.endswith(".h")]
    implicit = []
    if src_rel.startswith("shim/"):
        implicit.append(os.path.join(VERIF, "shim", "shim.hh"))
    if src_rel.startswith("fuzz/"):
        implicit.append(os.path.join(VERIF, "fuzz", "fuzz_common.hh"))
    dep_blob = b"".join(read(p) for p in hdeps + implicit + [os.path.join(VERIF, d) for d in deps] +
                        [os.path.join(VERIF, s) for s in extra_srcs])
    objs = build_lib(flavor, lib_defs) if with_lib else []
    # a harness that compiles a library source itself (under its own preprocessor set-up) leaves that object out
    objs = [o for o in objs if not any(os.path.basename(o).startswith(x + "-") for x in exclude_lib)]
    key = sha(" ".join(flags), " ".join(extra_link), headers_digest(), read(src), dep_blob, " ".join(objs))
    bindir = os.path.join(BUILD, "bin")
    os.makedirs(bindir, exist_ok=True)
    name = os.path.splitext(os.path.basename(src_rel))[0]
    exe = os.path.join(bindir, "%s-%s-%s" % (name, flavor, key))
    if os.path.exists(exe):
        try:
            os.utime(exe, None)  # LRU stamp
        except OSError:
            pass
        return exe
    with Lock("h-" + name):
        if os.path.exists(exe):
            return exe
        log("compiling harness %s (%s)" % (src_rel, flavor))
        tmp = exe + ".tmp%d" % os.getpid()
        cmd = [CXX] + flags + ["-I", inc, "-I", os.path.join(VERIF, "harness"), src]
        cmd += [os.path.join(VERIF, s) for s in extra_srcs]
        cmd += objs + LINK[flavor] + list(extra_link)
        if rapidcheck:
            cmd += ["-lrapidcheck"]
        cmd += ["-lz", "-lpthread", "-o", tmp]
        if any(not os.path.exists(o) for o in objs):
            # a concurrent run's cache clean-up took an object away between build_lib() and here: build it again (same names)
            build_lib(flavor, lib_defs)
        _run(cmd, src_rel)
        os.rename(tmp, exe)
        _gc(bindir, {exe}, 160, 120)
    return exe


def _gc(d, keep, high, low):
    """Bounded disk use: when more than `high` cached files exist, drop the least recently used down to `low`."""
    try:
        files = [os.path.join(d, f) for f in os.listdir(d) if ".tmp" not in f]
    except OSError:
        return
    if len(files) <= high:
        return
    # never drop what was built or used within the last hour: a concurrent run (another property, another checkout) may be
    # about to link against it - the bound on disk use is soft
    now = time.time()

    def age_ok(f):
        try:
            return now - os.path.getmtime(f) > 3600
        except OSError:
            return False
    files = sorted((f for f in files if f not in keep and age_ok(f)), key=lambda f: os.path.getmtime(f))
    for f in files[:max(0, len(files) + len(keep) - low)]:
        try:
            os.unlink(f)
        except OSError:
            pass


def gc_objects(keep=()):
    """Remove library objects that are not part of the current key set (bounded disk use)."""
    objdir = os.path.join(BUILD, "obj")
    if not os.path.isdir(objdir):
        return
    keep = set(keep)
    for f in os.listdir(objdir):
        p = os.path.join(objdir, f)
        if p not in keep and ".tmp" not in f:
            try:
                os.unlink(p)
            except OSError:
                pass
