// C08 - string splitting, joining, trimming, replacing, argument splitting, comment stripping,
// whitespace skipping and printf-to-string helpers against plain reference definitions.
#include <signal.h>
#include <wchar.h>

#include <deque>
#include <list>
#include <set>
#include <string_view>

#include <phosg/Strings.hh>

#include "verif.hh"

#define LIT(s) std::string(s, sizeof(s) - 1)

using namespace verif;

// Generator cost: one rapidcheck draw per byte is fine (and shrinks well) for short strings; long strings take their bulk
// content from one library-drawn seed (vg::expand), only their length and structure are drawn individually.
namespace fastgen {
inline std::string bytes(size_t len) {
  if (len <= 40) return verif::vg::bytes(len);
  return verif::vg::expand(verif::vg::u64(), len);
}
inline std::string bytes_from(const std::string& alphabet, size_t len) {
  if (len <= 40) return verif::vg::bytes_from(alphabet, len);
  std::string r = verif::vg::expand(verif::vg::u64(), len);
  for (auto& ch : r) ch = alphabet[static_cast<unsigned char>(ch) % alphabet.size()];
  return r;
}
} // namespace fastgen

using std::string;
using std::vector;
using std::wstring;

// A hang inside the code under test must become an attributable failure (the journal names the case),
// not a silent budget overrun: arm a watchdog around calls that contain retry loops.
struct Watchdog {
  explicit Watchdog(unsigned s) { alarm(s); }
  ~Watchdog() { alarm(0); }
};

static bool two_different_bytes(const string& s) {
  for (size_t i = 1; i < s.size(); i++)
    if (s[i] != s[0]) return true;
  return false;
}
static size_t count_char(const string& s, char c) {
  size_t n = 0;
  for (char x : s) n += (x == c);
  return n;
}

// ---------------------------------------------------------------- split / join

// case: s=[text], n=[delimiter byte, extra max_splits]
static void run_split(const Case& c) {
  const string& s = c.str(0);
  char d = static_cast<char>(c.u(0));
  size_t n_delims = count_char(s, d);
  string dstr(1, d);
  vector<size_t> ms;
  for (size_t m = 0; m <= 10; m++) ms.push_back(m);
  ms.push_back(c.u(1));
  for (size_t m : ms) {
    vector<string> pieces = phosg::split(s, d, m);
    bool capped = (m != 0) && (n_delims > m);
    size_t expect_count = (capped ? m : n_delims) + 1;
    VCHECK(pieces.size() == expect_count, "split-count", "split(", hex(s), ", ", (int)(unsigned char)d, ", ", m, ") returned ", pieces.size(), " pieces, expected ", expect_count);
    for (size_t k = 0; k < pieces.size(); k++) {
      bool may_contain = capped && (k + 1 == pieces.size());
      if (!may_contain) VCHECK(pieces[k].find(d) == string::npos, "split-piece-has-delimiter", "piece ", k, " of split(", hex(s), ", max_splits=", m, ") contains the delimiter");
    }
    string joined = phosg::join(pieces, dstr);
    VCHECK(joined == s, "join-inverse", "join(split(", hex(s), ", ", (int)(unsigned char)d, ", ", m, ")) == ", hex(joined));
    char dch = d;
    string joined_c = phosg::join(pieces, dch);
    VCHECK(joined_c == s, "join-inverse", "join(split(s), char delimiter) == ", hex(joined_c), " for s=", hex(s));
    if (m == 0) {
      // join without a delimiter is plain concatenation
      string cat_ref;
      for (char x : s)
        if (x != d) cat_ref += x;
      VCHECK(phosg::join(pieces) == cat_ref, "join-concat", "join(pieces) is not the concatenation for s=", hex(s));
    }
  }
  {
    // a multi-character delimiter and a deque container: same law through an independent splitter
    std::deque<string> items;
    size_t pos = 0;
    while (true) {
      size_t q = s.find(d, pos);
      if (q == string::npos) {
        items.push_back(s.substr(pos));
        break;
      }
      items.push_back(s.substr(pos, q - pos));
      pos = q + 1;
    }
    const char sep[] = "<>";
    string expect;
    for (size_t k = 0; k < items.size(); k++) {
      if (k) expect += "<>";
      expect += items[k];
    }
    VCHECK(phosg::join(items, sep) == expect, "join-inverse", "join(deque, \"<>\") differs from the reference for s=", hex(s));
  }
  if (n_delims > 0 && two_different_bytes(s)) ctx().nontrivial_case();
  ctx().cls(n_delims == 0 ? "split:no-delimiter" : (s[0] == d ? "split:leading-delimiter" : "split:other"));
}

static wstring decode_w(const string& b) {
  wstring w;
  for (size_t i = 0; i + 4 <= b.size(); i += 4) {
    uint32_t v = (uint8_t)b[i] | ((uint8_t)b[i + 1] << 8) | ((uint8_t)b[i + 2] << 16) | ((uint32_t)(uint8_t)b[i + 3] << 24);
    w.push_back(static_cast<wchar_t>(v));
  }
  return w;
}
static string encode_w(const wstring& w) {
  string b;
  for (wchar_t ch : w) {
    uint32_t v = static_cast<uint32_t>(ch);
    for (int k = 0; k < 4; k++) b.push_back(static_cast<char>(v >> (8 * k)));
  }
  return b;
}

// case: s=[wide text, 4 bytes LE per unit], n=[delimiter unit, extra max_splits]
static void run_wsplit(const Case& c) {
  wstring s = decode_w(c.str(0));
  wchar_t d = static_cast<wchar_t>(c.u(0));
  size_t n_delims = 0;
  for (wchar_t x : s) n_delims += (x == d);
  vector<size_t> ms;
  for (size_t m = 0; m <= 10; m++) ms.push_back(m);
  ms.push_back(c.u(1));
  for (size_t m : ms) {
    vector<wstring> pieces = phosg::split(s, d, m);
    bool capped = (m != 0) && (n_delims > m);
    size_t expect_count = (capped ? m : n_delims) + 1;
    VCHECK(pieces.size() == expect_count, "wsplit-count", "wide split with max_splits=", m, " returned ", pieces.size(), " pieces, expected ", expect_count, " for ", hex(c.str(0)));
    wstring joined;
    for (size_t k = 0; k < pieces.size(); k++) {
      bool may_contain = capped && (k + 1 == pieces.size());
      if (!may_contain) VCHECK(pieces[k].find(d) == wstring::npos, "wsplit-piece-has-delimiter", "piece ", k, " contains the delimiter, max_splits=", m, " for ", hex(c.str(0)));
      if (k) joined += d;
      joined += pieces[k];
    }
    VCHECK(joined == s, "wsplit-join-inverse", "joining the pieces of the wide split (max_splits=", m, ") does not give the input ", hex(c.str(0)));
  }
  bool two = false;
  for (wchar_t x : s) two |= (x != s[0]);
  if (n_delims > 0 && two) ctx().nontrivial_case();
}

// ---------------------------------------------------------------- split_context

struct Scan {
  bool balanced = true;
  size_t max_depth = 0; // deepest nesting of brackets / quoted strings reached
  vector<size_t> top; // offsets of delimiters outside every bracket / quoted string
};

// Independent scanner of the bracket/quote structure: ( [ { < nest and close with their partner; ' and " open a
// quoted string that ends at the same unescaped quote; a backslash inside a quoted string protects the next
// character; brackets mean nothing inside quoted strings; closers without a partner are ordinary characters.
static Scan scan_context(const string& s, char delim) {
  Scan r;
  string open; // expected closers, innermost last
  for (size_t i = 0; i < s.size(); i++) {
    char ch = s[i];
    bool quoted = !open.empty() && (open.back() == '\'' || open.back() == '"');
    if (quoted) {
      if (ch == '\\') {
        i++;
      } else if (ch == open.back()) {
        open.pop_back();
      }
      continue;
    }
    if (!open.empty() && ch == open.back()) {
      open.pop_back();
      continue;
    }
    switch (ch) {
      case '(': open.push_back(')'); continue;
      case '[': open.push_back(']'); continue;
      case '{': open.push_back('}'); continue;
      case '<': open.push_back('>'); continue;
      case '\'':
      case '"': open.push_back(ch); continue;
      default: break;
    }
    r.max_depth = std::max(r.max_depth, open.size());
    if (open.empty() && ch == delim) r.top.push_back(i);
  }
  r.balanced = open.empty();
  return r;
}

// case: s=[text], n=[delimiter byte, extra max_splits]
static void run_split_context(const Case& c) {
  const string& s = c.str(0);
  char d = static_cast<char>(c.u(0));
  Scan sc = scan_context(s, d);
  string dstr(1, d);
  vector<size_t> ms;
  size_t upto = std::min<size_t>(10, sc.top.size() + 1);
  for (size_t m = 0; m <= upto; m++) ms.push_back(m);
  ms.push_back(c.u(1));
  for (size_t m : ms) {
    vector<string> pieces;
    bool threw = false;
    try {
      pieces = phosg::split_context(s, d, m);
    } catch (const std::exception&) {
      threw = true;
    }
    // "... whenever it accepts the input": which texts (and delimiters) the bracket-aware split accepts is its own decision - the
    // statement binds it only where it returns. A refusal is counted; a result for a text this scanner finds unbalanced (where
    // "top-level" has no agreed meaning) must still join back to the text.
    if (threw) {
      ctx().cls(sc.balanced ? "split_context:refused a text this scanner finds balanced" : "split_context:refused an unbalanced text");
      continue;
    }
    if (!sc.balanced) {
      ctx().cls("split_context:accepted a text this scanner finds unbalanced");
      VCHECK(phosg::join(pieces, dstr) == s, "split_context-join-inverse", "join(split_context(", hex(s), ", max_splits=", m, ")) == ", hex(phosg::join(pieces, dstr)));
      continue;
    }
    bool capped = (m != 0) && (sc.top.size() > m);
    size_t used = capped ? m : sc.top.size();
    VCHECK(pieces.size() == used + 1, "split_context-count", "split_context(", hex(s), ", max_splits=", m, ") returned ", pieces.size(), " pieces; top-level delimiters: ", sc.top.size());
    VCHECK(phosg::join(pieces, dstr) == s, "split_context-join-inverse", "join(split_context(", hex(s), ", max_splits=", m, ")) == ", hex(phosg::join(pieces, dstr)));
    size_t from = 0;
    for (size_t k = 0; k < pieces.size(); k++) {
      bool last = (k + 1 == pieces.size());
      size_t to = last ? s.size() : sc.top[k];
      VCHECK(pieces[k] == s.substr(from, to - from), "split_context-piece", "piece ", k, " of split_context(", hex(s), ", max_splits=", m, ") is ", hex(pieces[k]));
      from = to + 1;
      if (!(capped && last)) {
        Scan ps = scan_context(pieces[k], d);
        VCHECK(ps.top.empty(), "split_context-piece-has-delimiter", "piece ", k, " of split_context(", hex(s), ", max_splits=", m, ") contains a top-level delimiter");
      }
    }
  }
  bool meta = s.find_first_of("()[]{}<>'\"\\") != string::npos;
  if ((meta || !sc.top.empty()) && two_different_bytes(s)) ctx().nontrivial_case();
  ctx().cls(sc.max_depth <= 8 ? "split_context:depth<=8" : (sc.max_depth <= 32 ? "split_context:depth<=32" : (sc.max_depth <= 128 ? "split_context:depth<=128" : "split_context:depth>128")));
  ctx().cls(!sc.balanced ? "split_context:unbalanced" : (sc.top.empty() ? "split_context:balanced-no-top-delimiter" : "split_context:balanced-with-top-delimiter"));
}

// ---------------------------------------------------------------- prefix/suffix, case mapping, replace

// case: s=[text, affix]
static void run_affix(const Case& c) {
  const string& s = c.str(0);
  const string& p = c.str(1);
  bool sw = s.size() >= p.size();
  for (size_t i = 0; sw && i < p.size(); i++) sw = (s[i] == p[i]);
  bool ew = s.size() >= p.size();
  for (size_t i = 0; ew && i < p.size(); i++) ew = (s[s.size() - p.size() + i] == p[i]);
  VCHECK(phosg::starts_with(s, p) == sw, "starts_with", "starts_with(", hex(s), ", ", hex(p), ") != ", sw);
  VCHECK(phosg::ends_with(s, p) == ew, "ends_with", "ends_with(", hex(s), ", ", hex(p), ") != ", ew);
  if (!p.empty() && two_different_bytes(s)) ctx().nontrivial_case();
}

// case: s=[text]
static void run_case_map(const Case& c) {
  const string& s = c.str(0);
  string up = s, lo = s;
  bool alpha = false;
  for (size_t i = 0; i < s.size(); i++) {
    unsigned char b = s[i];
    if (b >= 'a' && b <= 'z') up[i] = static_cast<char>(b - 32);
    if (b >= 'A' && b <= 'Z') lo[i] = static_cast<char>(b + 32);
    alpha |= (b >= 'a' && b <= 'z') || (b >= 'A' && b <= 'Z');
  }
  string gu = phosg::toupper(s), gl = phosg::tolower(s);
  VCHECK(gu == up, "toupper", "toupper(", hex(s), ") == ", hex(gu));
  VCHECK(gl == lo, "tolower", "tolower(", hex(s), ") == ", hex(gl));
  if (alpha && two_different_bytes(s)) ctx().nontrivial_case();
}

// case: s=[text, target (non-empty, no NUL), replacement (no NUL)]
static void run_replace(const Case& c) {
  const string& s = c.str(0);
  const string& t = c.str(1);
  const string& r = c.str(2);
  if (t.empty() || t.find('\0') != string::npos || r.find('\0') != string::npos) throw std::logic_error("replace case outside domain");
  string expect;
  size_t hits = 0;
  for (size_t i = 0; i < s.size();) {
    if (i + t.size() <= s.size() && memcmp(s.data() + i, t.data(), t.size()) == 0) {
      expect += r;
      i += t.size();
      hits++;
    } else {
      expect += s[i++];
    }
  }
  string got = phosg::str_replace_all(s, t.c_str(), r.c_str());
  VCHECK(got == expect, "str_replace_all", "str_replace_all(", hex(s), ", ", hex(t), ", ", hex(r), ") == ", hex(got), " expected ", hex(expect));
  if (hits > 0 && two_different_bytes(s)) ctx().nontrivial_case();
  ctx().cls(hits == 0 ? "replace:no-hit" : (t.size() == r.size() ? "replace:hit-same-length" : "replace:hit-different-length"));
}

// ---------------------------------------------------------------- strip_*

static bool is_ws(char ch) { return ch == ' ' || ch == '\t' || ch == '\r' || ch == '\n'; }

// case: s=[text]
static void run_strip(const Case& c) {
  const string& s = c.str(0);
  size_t lead = 0, trail = 0, zeros = 0;
  while (lead < s.size() && is_ws(s[lead])) lead++;
  while (trail < s.size() && is_ws(s[s.size() - 1 - trail])) trail++;
  while (zeros < s.size() && s[s.size() - 1 - zeros] == '\0') zeros++;
  string e_tz = s.substr(0, s.size() - zeros);
  string e_tw = s.substr(0, s.size() - trail);
  string e_lw = s.substr(lead);
  string e_w = (lead == s.size()) ? string() : s.substr(lead, s.size() - lead - trail);
  string g;
  g = s;
  phosg::strip_trailing_zeroes(g);
  VCHECK(g == e_tz, "strip_trailing_zeroes", "strip_trailing_zeroes(", hex(s), ") == ", hex(g));
  g = s;
  phosg::strip_trailing_whitespace(g);
  VCHECK(g == e_tw, "strip_trailing_whitespace", "strip_trailing_whitespace(", hex(s), ") == ", hex(g));
  g = s;
  phosg::strip_leading_whitespace(g);
  VCHECK(g == e_lw, "strip_leading_whitespace", "strip_leading_whitespace(", hex(s), ") == ", hex(g));
  g = s;
  phosg::strip_whitespace(g);
  VCHECK(g == e_w, "strip_whitespace", "strip_whitespace(", hex(s), ") == ", hex(g));
  if ((lead || trail || zeros) && two_different_bytes(s)) ctx().nontrivial_case();
  ctx().cls(s.empty() ? "strip:empty" : ((lead == s.size() || zeros == s.size()) ? "strip:only-stripped-characters" : "strip:other"));
}

// ---------------------------------------------------------------- strip_multiline_comments

// case: s=[text]
static void run_comments(const Case& c) {
  const string& s = c.str(0);
  string expect;
  bool unterminated = false;
  size_t i = 0;
  while (i < s.size()) {
    if (s.compare(i, 2, "/*") != 0) {
      expect += s[i++];
      continue;
    }
    size_t close = s.find("*/", i + 2);
    size_t stop = (close == string::npos) ? s.size() : close;
    for (size_t k = i + 2; k < stop; k++)
      if (s[k] == '\n') expect += '\n';
    if (close == string::npos) {
      unterminated = true;
      break;
    }
    i = close + 2;
  }
  {
    string g = s;
    bool threw = false;
    try {
      phosg::strip_multiline_comments(g);
    } catch (const std::exception&) { // (which class reports malformed input is not stated)
      threw = true;
    }
    VCHECK(threw == unterminated, threw ? "comments-throws-on-terminated" : "comments-accepts-unterminated", "strip_multiline_comments(", hex(s), ") ", threw ? "threw" : "returned");
    if (!threw) VCHECK(g == expect, "strip_multiline_comments", "strip_multiline_comments(", hex(s), ") == ", hex(g), " expected ", hex(expect));
  }
  {
    string g = s;
    phosg::strip_multiline_comments(g, true);
    VCHECK(g == expect, "strip_multiline_comments-lenient", "strip_multiline_comments(", hex(s), ", true) == ", hex(g), " expected ", hex(expect));
  }
  if (s.find("/*") != string::npos && two_different_bytes(s)) ctx().nontrivial_case();
  ctx().cls(unterminated ? "comments:unterminated" : (s.find("/*") != string::npos ? "comments:terminated" : "comments:none"));
}

// ---------------------------------------------------------------- skip_*

// case: s=[text], n=[offsets...]; every offset is used with the std::string overloads (an offset beyond the length is a
// valid argument there: the plain definition "advance while offset < size and the character matches" has nothing to
// advance over and returns the offset unchanged; a skip never moves the cursor backwards) and with the C-string
// overloads only when <= strlen (beyond the terminator the C-string overloads have no defined behaviour)
static void run_skip(const Case& c) {
  const string& s = c.str(0);
  size_t clen = strlen(s.c_str());
  bool any_past_end = false;
  for (size_t k = 0; k < c.n.size(); k++) {
    size_t off = c.u(k);
    {
      const char* where = (off <= s.size()) ? "string" : "string-offset-past-end";
      any_past_end |= (off > s.size());
      size_t w = off, nw = off;
      while (w < s.size() && is_ws(s[w])) w++;
      while (nw < s.size() && !is_ws(s[nw])) nw++;
      size_t word = nw;
      while (word < s.size() && is_ws(s[word])) word++;
      size_t gw = phosg::skip_whitespace(s, off), gnw = phosg::skip_non_whitespace(s, off), gword = phosg::skip_word(s, off);
      VCHECK(gw == w, cat("skip_whitespace:", where), "skip_whitespace(", hex(s), " [", s.size(), " bytes], ", off, ") == ", gw, " expected ", w);
      VCHECK(gnw == nw, cat("skip_non_whitespace:", where), "skip_non_whitespace(", hex(s), " [", s.size(), " bytes], ", off, ") == ", gnw, " expected ", nw);
      VCHECK(gword == word, cat("skip_word:", where), "skip_word(", hex(s), " [", s.size(), " bytes], ", off, ") == ", gword, " expected ", word);
    }
    if (off <= clen) {
      // exactly-sized heap copy: reading past the terminator is an ASan error
      char* z = static_cast<char*>(malloc(clen + 1));
      memcpy(z, s.c_str(), clen + 1);
      size_t w = off, nw = off;
      while (w < clen && is_ws(z[w])) w++;
      while (nw < clen && !is_ws(z[nw])) nw++;
      size_t word = nw;
      while (word < clen && is_ws(z[word])) word++;
      size_t gw = phosg::skip_whitespace(z, off), gnw = phosg::skip_non_whitespace(z, off), gword = phosg::skip_word(z, off);
      free(z);
      VCHECK(gw == w, "skip_whitespace:cstr", "skip_whitespace(cstr ", hex(s), ", ", off, ") == ", gw, " expected ", w);
      VCHECK(gnw == nw, "skip_non_whitespace:cstr", "skip_non_whitespace(cstr ", hex(s), ", ", off, ") == ", gnw, " expected ", nw);
      VCHECK(gword == word, "skip_word:cstr", "skip_word(cstr ", hex(s), ", ", off, ") == ", gword, " expected ", word);
    }
  }
  bool ws = false;
  for (char ch : s) ws |= is_ws(ch);
  if (ws && two_different_bytes(s) && !c.n.empty()) ctx().nontrivial_case();
  ctx().cls(any_past_end ? "skip:some-offset-past-end" : "skip:offsets-within-string");
}

// ---------------------------------------------------------------- split_args

struct ArgsRef {
  bool error = false;
  bool has_empty_token = false;
  vector<string> tokens;
};

// Shell-style reference: blanks (space, tab) separate arguments outside quotes; ' and " group; a backslash makes
// the next character literal everywhere; a dangling backslash or an open quote is an error.
static ArgsRef ref_split_args(const string& s) {
  ArgsRef r;
  string cur;
  bool in_token = false;
  char quote = 0;
  size_t i = 0;
  auto flush = [&]() {
    if (in_token) {
      if (cur.empty()) r.has_empty_token = true;
      r.tokens.push_back(cur);
      cur.clear();
      in_token = false;
    }
  };
  while (i < s.size()) {
    char ch = s[i++];
    if (ch == '\\') {
      if (i >= s.size()) {
        r.error = true;
        return r;
      }
      cur += s[i++];
      in_token = true;
    } else if (quote) {
      if (ch == quote) quote = 0;
      else cur += ch;
    } else if (ch == '"' || ch == '\'') {
      quote = ch;
      in_token = true;
    } else if (ch == ' ' || ch == '\t') {
      flush();
    } else {
      cur += ch;
      in_token = true;
    }
  }
  if (quote) {
    r.error = true;
    return r;
  }
  flush();
  return r;
}

// case: s=[command line]
static void run_split_args(const Case& c) {
  const string& s = c.str(0);
  vector<string> got;
  bool threw = false;
  try {
    got = phosg::split_args(s);
  } catch (const std::exception&) { // (which class reports malformed input is not stated)
    threw = true;
  }
  if (s.find('\0') != string::npos) {
    // DESIGN section 6.5: NUL bytes in command lines are executed (memory safety) but not asserted
    ctx().exclude("split_args: input with NUL byte executed, result not asserted");
    return;
  }
  ArgsRef r = ref_split_args(s);
  VCHECK(threw == r.error, threw ? "split_args-throws-on-wellformed" : "split_args-accepts-malformed", "split_args(", hex(s), ") ", threw ? "threw" : "returned", ", reference says ", r.error ? "malformed" : "well-formed");
  if (r.error) {
    ctx().cls("split_args:malformed");
    if (two_different_bytes(s)) ctx().nontrivial_case();
    return;
  }
  if (r.has_empty_token) {
    // DESIGN section 6.5: a stand-alone "" yields no token in phosg, an empty one in a shell; not asserted
    ctx().exclude("split_args: reference tokenisation has an empty token, result not asserted");
    return;
  }
  bool same = (got.size() == r.tokens.size());
  for (size_t k = 0; same && k < got.size(); k++) same = (got[k] == r.tokens[k]);
  if (!same) {
    string g, x;
    for (auto& t : got) g += "[" + hex(t) + "]";
    for (auto& t : r.tokens) x += "[" + hex(t) + "]";
    VFAIL("split_args", "split_args(", hex(s), ") == ", g, " expected ", x);
  }
  if (s.find_first_of(" \t\"'\\") != string::npos && two_different_bytes(s)) ctx().nontrivial_case();
  ctx().cls("split_args:compared");
}

// ---------------------------------------------------------------- printf

static string ref_printf(const char* fmt, ...) __attribute__((format(printf, 1, 2)));
static string ref_printf(const char* fmt, ...) {
  va_list va, va2;
  va_start(va, fmt);
  va_copy(va2, va);
  int need = vsnprintf(nullptr, 0, fmt, va);
  va_end(va);
  if (need < 0) {
    va_end(va2);
    throw std::logic_error("reference vsnprintf failed");
  }
  vector<char> buf(static_cast<size_t>(need) + 64);
  int n = vsnprintf(buf.data(), buf.size(), fmt, va2);
  va_end(va2);
  if (n != need) throw std::logic_error("reference vsnprintf inconsistent");
  return string(buf.data(), static_cast<size_t>(n));
}

static wstring ref_wprintf(size_t cap, const wchar_t* fmt, ...) {
  vector<wchar_t> buf(cap);
  va_list va;
  va_start(va, fmt);
  int n = vswprintf(buf.data(), cap, fmt, va);
  va_end(va);
  if (n < 0) throw std::logic_error("reference vswprintf failed (buffer bound too small?)");
  return wstring(buf.data(), static_cast<size_t>(n));
}

static string cstr_of(const string& s) { return string(s.c_str()); }

// The printf helpers are functions of (format, arguments) only: the value errno happens to have when they are called
// (left behind by whatever the thread did before) is not an input. A case carries that ambient value: n[0] = format id
// + 256 * errno-on-entry (0 in cases saved before this was added).
static const vector<int>& ambient_errnos() {
  static const vector<int> v = {0, EILSEQ, EOVERFLOW, ENOMEM, EINVAL, ERANGE, EINTR, EAGAIN, E2BIG, EBADF};
  return v;
}
static string errno_name(int e) {
  switch (e) {
    case 0: return "0";
    case EILSEQ: return "EILSEQ";
    case EOVERFLOW: return "EOVERFLOW";
    case ENOMEM: return "ENOMEM";
    case EINVAL: return "EINVAL";
    case ERANGE: return "ERANGE";
    case EINTR: return "EINTR";
    case EAGAIN: return "EAGAIN";
    case E2BIG: return "E2BIG";
    case EBADF: return "EBADF";
    default: return cat(e);
  }
}

// case: n=[format id + 256 * errno on entry, numeric args...], s=[string args...]
static void run_printf(const Case& c) {
  uint64_t id = c.u(0) & 0xFF;
  int errno_in = static_cast<int>((c.u(0) >> 8) & 0xFFFF);
  string got, exp, threw;
  Watchdog wd(30);
#define BOTH(...)                              \
  do {                                         \
    exp = ref_printf(__VA_ARGS__);             \
    try {                                      \
      errno = errno_in;                        \
      got = phosg::string_printf(__VA_ARGS__); \
    } catch (const std::exception& ex) {       \
      threw = cat(" ", ex.what());             \
    }                                          \
  } while (0)
  switch (id) {
    case 0: {
      string a = cstr_of(c.str(0));
      BOTH("%s", a.c_str());
      break;
    }
    case 1: {
      int w = static_cast<int>(c.i(1)), v = static_cast<int>(c.i(2));
      if (w < -(1 << 20) || w > (1 << 20)) throw std::logic_error("width outside domain");
      BOTH("%*d", w, v);
      break;
    }
    case 2: {
      int p = static_cast<int>(c.i(1));
      double v = c.d(2);
      if (p < 0 || p > (1 << 20)) throw std::logic_error("precision outside domain");
      BOTH("%.*f", p, v);
      break;
    }
    case 3: {
      string a = cstr_of(c.str(0)), b = cstr_of(c.str(1));
      int v = static_cast<int>(c.i(1));
      BOTH("%s=%d:%s", a.c_str(), v, b.c_str());
      break;
    }
    case 4: {
      int a = static_cast<int>(c.u(1) & 0xFF), b = static_cast<int>(c.u(2) & 0xFF), d = static_cast<int>(c.u(3) & 0xFF);
      BOTH("%c%c|%c", a, b, d);
      break;
    }
    case 5: {
      string a = cstr_of(c.str(0));
      uint64_t v = c.u(1);
      uint16_t h = static_cast<uint16_t>(c.u(2));
      BOTH("%s %" PRIu64 " 0x%04hX", a.c_str(), v, h);
      break;
    }
    case 6: {
      const char* empty = "";
      BOTH(empty, 0);
      break;
    }
    case 7: {
      string a = cstr_of(c.str(0));
      int w = static_cast<int>(c.i(1));
      if (w < -(1 << 20) || w > (1 << 20)) throw std::logic_error("width outside domain");
      BOTH("%%|%5.3s|%-*s|%x", a.c_str(), w, a.c_str(), static_cast<unsigned>(c.u(2)));
      break;
    }
    // Formats 8..10: a NUL byte can only enter a formatted result through %c with argument 0; these put such bytes
    // (at the start, in the middle, at the end, several) into results of every length class, so that "embedded NUL
    // bytes" and "results far longer than any internal buffer" are exercised together and not only separately.
    case 8: {
      int c0 = static_cast<int>(c.u(1) & 0xFF), c1 = static_cast<int>(c.u(2) & 0xFF), c2 = static_cast<int>(c.u(3) & 0xFF), c3 = static_cast<int>(c.u(4) & 0xFF);
      int w1 = static_cast<int>(c.i(5)), w2 = static_cast<int>(c.i(6)), w3 = static_cast<int>(c.i(7));
      for (int w : {w1, w2, w3})
        if (w < -(1 << 20) || w > (1 << 20)) throw std::logic_error("width outside domain");
      string a = cstr_of(c.str(0));
      BOTH("%c%*s%c%*s%c%*s%c", c0, w1, a.c_str(), c1, w2, a.c_str(), c2, w3, a.c_str(), c3);
      break;
    }
    case 9: {
      int c0 = static_cast<int>(c.u(1) & 0xFF), c1 = static_cast<int>(c.u(2) & 0xFF);
      string a = cstr_of(c.str(0)), b = cstr_of(c.str(1)), d = cstr_of(c.str(2));
      BOTH("%s%c%s%c%s", a.c_str(), c0, b.c_str(), c1, d.c_str());
      break;
    }
    case 10: {
      int w0 = static_cast<int>(c.i(1)), w1 = static_cast<int>(c.i(3));
      int c0 = static_cast<int>(c.u(2) & 0xFF), c1 = static_cast<int>(c.u(4) & 0xFF);
      for (int w : {w0, w1})
        if (w < -(1 << 20) || w > (1 << 20)) throw std::logic_error("width outside domain");
      BOTH("%*c|%*c", w0, c0, w1, c1);
      break;
    }
    default: throw std::logic_error("bad printf format id");
  }
#undef BOTH
  const char* amb = errno_in ? ":ambient-errno-nonzero" : "";
  VCHECK(threw.empty(), cat("string_printf-throws-on-valid-arguments:fmt", id, amb), "string_printf threw:", threw, " (errno on entry ", errno_name(errno_in), ", expected a result of ", exp.size(), " bytes)");
  VCHECK(got.size() == exp.size(), cat("string_printf-length:fmt", id, amb), "string_printf result has ", got.size(), " bytes, vsnprintf ", exp.size(), " (errno on entry ", errno_name(errno_in), ")");
  VCHECK(got == exp, cat("string_printf-value:fmt", id, amb), "string_printf result differs from vsnprintf: ", hex(got, 40), " vs ", hex(exp, 40), " (errno on entry ", errno_name(errno_in), ")");
  if (exp.size() > 8 || id == 4) ctx().nontrivial_case();
  ctx().cls(exp.size() <= 1024 ? "printf:result<=1KiB" : (exp.size() <= 65536 ? "printf:result<=64KiB" : "printf:result>64KiB"));
  if (exp.find('\0') != string::npos) {
    ctx().cls(exp.size() < 256 ? "printf:result-contains-NUL:<256B" : (exp.size() <= 1024 ? "printf:result-contains-NUL:256B..1KiB" : (exp.size() <= 65536 ? "printf:result-contains-NUL:1KiB..64KiB" : "printf:result-contains-NUL:>64KiB")));
    if (exp.size() >= 256) ctx().cls(exp[0] == 0 ? "printf:long-result-NUL-first-byte" : (exp.back() == 0 ? "printf:long-result-NUL-last-byte" : "printf:long-result-NUL-inside"));
  }
  ctx().cls(errno_in ? "printf:errno-on-entry-nonzero" : "printf:errno-on-entry-0");
}

// case: n=[format id + 256 * errno on entry, numeric args...], s=[wide string args, 4 bytes LE per unit]
static void run_wprintf(const Case& c) {
  uint64_t id = c.u(0) & 0xFF;
  int errno_in = static_cast<int>((c.u(0) >> 8) & 0xFFFF);
  wstring got, exp;
  string threw;
  size_t fmt_len = 0;
  Watchdog wd(30);
#define WBOTH(cap, fmt, ...)                         \
  do {                                               \
    fmt_len = wcslen(fmt);                           \
    exp = ref_wprintf((cap), fmt, __VA_ARGS__);      \
    try {                                            \
      errno = errno_in;                              \
      got = phosg::wstring_printf(fmt, __VA_ARGS__); \
    } catch (const std::exception& ex) {             \
      threw = cat(" ", ex.what());                   \
    }                                                \
  } while (0)
  auto wstr_arg = [&](size_t k) {
    wstring w = decode_w(c.str(k));
    for (wchar_t ch : w)
      if (ch == 0 || static_cast<uint32_t>(ch) > 0x10FFFF || (static_cast<uint32_t>(ch) >= 0xD800 && static_cast<uint32_t>(ch) <= 0xDFFF)) throw std::logic_error("wide argument outside domain");
    return w;
  };
  switch (id) {
    case 0: WBOTH(64, L"%d", static_cast<int>(c.i(1))); break;
    case 1: {
      wstring a = wstr_arg(0);
      WBOTH(a.size() + 64, L"%ls", a.c_str());
      break;
    }
    case 2: {
      int w = static_cast<int>(c.i(1));
      if (w < -(1 << 20) || w > (1 << 20)) throw std::logic_error("width outside domain");
      WBOTH(static_cast<size_t>(w < 0 ? -w : w) + 64, L"%*d", w, static_cast<int>(c.i(2)));
      break;
    }
    case 3: {
      wstring a = wstr_arg(0), b = wstr_arg(1);
      WBOTH(a.size() + b.size() + 64, L"%ls-%d-%ls", a.c_str(), static_cast<int>(c.i(1)), b.c_str());
      break;
    }
    case 4: WBOTH(64, L"", 0); break;
    case 5: WBOTH(64, L"value = %d;  ", static_cast<int>(c.i(1))); break;
    case 6: {
      wstring a = wstr_arg(0);
      WBOTH(a.size() + 64, L"a moderately long format string with %ls in the middle", a.c_str());
      break;
    }
    case 7: {
      // L'\0' enters a wide result only through %lc with argument 0 (first / inner / last unit of the result)
      auto wc = [&](size_t k) -> wint_t {
        uint32_t v = static_cast<uint32_t>(c.u(k));
        if (v > 0x10FFFF || (v >= 0xD800 && v <= 0xDFFF)) throw std::logic_error("wide character outside domain");
        return static_cast<wint_t>(v);
      };
      int w1 = static_cast<int>(c.i(2)), w2 = static_cast<int>(c.i(4));
      for (int w : {w1, w2})
        if (w < -(1 << 20) || w > (1 << 20)) throw std::logic_error("width outside domain");
      wstring a = wstr_arg(0);
      WBOTH(static_cast<size_t>(w1 < 0 ? -w1 : w1) + static_cast<size_t>(w2 < 0 ? -w2 : w2) + 2 * a.size() + 64, L"%lc%*ls%lc%*ls%lc", wc(1), w1, a.c_str(), wc(3), w2, a.c_str(), wc(5));
      break;
    }
    default: throw std::logic_error("bad wprintf format id");
  }
#undef WBOTH
  const char* amb = errno_in ? ":ambient-errno-nonzero" : "";
  const char* fits = exp.size() > 2 * fmt_len ? "result-longer-than-first-buffer" : "result-fits-first-buffer";
  VCHECK(threw.empty(), cat("wstring_printf-throws-on-valid-arguments:", fits, amb), "wstring_printf (format #", id, ") threw:", threw, " (errno on entry ", errno_name(errno_in), ", expected a result of ", exp.size(), " characters)");
  VCHECK(got.size() == exp.size(), cat("wstring_printf-length:", fits, amb), "wstring_printf (format #", id, ") returned ", got.size(), " characters, vswprintf ", exp.size(), " (errno on entry ", errno_name(errno_in), ")");
  VCHECK(got == exp, cat("wstring_printf-value:", fits, amb), "wstring_printf (format #", id, ") differs from vswprintf: ", hex(encode_w(got), 40), " vs ", hex(encode_w(exp), 40), " (errno on entry ", errno_name(errno_in), ")");
  if (exp.size() > 2 * fmt_len) ctx().nontrivial_case();
  ctx().cls(exp.size() > 2 * fmt_len ? "wprintf:result-longer-than-2x-format" : (exp.size() == 2 * fmt_len || exp.size() + 1 == 2 * fmt_len ? "wprintf:result-at-first-buffer-edge" : "wprintf:result-shorter"));
  ctx().cls(errno_in ? "wprintf:errno-on-entry-nonzero" : "wprintf:errno-on-entry-0");
  if (exp.find(L'\0') != wstring::npos) ctx().cls(exp.size() > 2 * fmt_len ? "wprintf:result-contains-NUL:longer-than-2x-format" : "wprintf:result-contains-NUL:fits-first-buffer");
}

// ---------------------------------------------------------------- join: every way of handing the delimiter / the items over

// join() is a template over the container and over the delimiter: what it emits between two items must be the
// delimiter's VALUE, however the caller happens to hold that value - a char, a std::string, a std::string_view, a
// pointer to a C string, a string literal, or a C string stored in a char array (exactly sized, or larger than its
// contents: a buffer filled at run time, a struct field). The value of a pointer / char array is the C string it holds
// (up to the first NUL), as everywhere else in C++.
struct SeparatorField {
  int before;
  char separator[8];
  int after;
};

template <typename ContainerT>
static string ref_join(const ContainerT& items, const string& sep) {
  string r;
  size_t k = 0;
  for (const auto& it : items) {
    if (k++) r += sep;
    r += it;
  }
  return r;
}

// a char array of extent N holding the C string `value` (shorter than N); the bytes after the terminator are stale
// non-zero filler, as in a reused buffer
template <size_t N>
static void fill_buffer(char (&buf)[N], const string& value) {
  memset(buf, '#', N);
  size_t n = std::min(value.size(), N - 1);
  memcpy(buf, value.data(), n);
  buf[n] = 0;
}

// case: s=[text, multi-character delimiter], n=[delimiter byte]
static void run_join(const Case& c) {
  const string& s = c.str(0);
  const string& multi = c.str(1);
  char d = static_cast<char>(c.u(0));
  vector<string> pieces = phosg::split(s, d);
  string concat; // what an empty delimiter gives
  for (char x : s)
    if (x != d) concat += x;
  // the C string that consists of the delimiter character (the empty C string when the delimiter is NUL)
  const string& via_cstring = d ? s : concat;
  auto same = [&](const string& got, const string& want, const char* form) {
    VCHECK(got == want, cat("join-inverse:delimiter-as-", form), "join(split(", hex(s), ", ", (int)(unsigned char)d, "), <the delimiter as ", form, ">) == ", hex(got), " expected ", hex(want));
  };
  {
    char ch = d;
    const char cch = d;
    same(phosg::join(pieces, ch), s, "char");
    same(phosg::join(pieces, cch), s, "const-char");
    string str(1, d);
    const string cstr(1, d);
    same(phosg::join(pieces, str), s, "std::string");
    same(phosg::join(pieces, cstr), s, "const-std::string");
    std::string_view sv(str);
    same(phosg::join(pieces, sv), s, "string_view");
    // a view of one character in the middle of a longer buffer (not NUL-terminated)
    char around[4] = {'#', d, '#', '#'};
    std::string_view sv_mid(around + 1, 1);
    same(phosg::join(pieces, sv_mid), s, "string_view-into-larger-buffer");
    const char* ptr = str.c_str();
    same(phosg::join(pieces, ptr), via_cstring, "const-char-pointer");
    char buf16[16];
    fill_buffer(buf16, str.c_str());
    char* mptr = buf16;
    same(phosg::join(pieces, mptr), via_cstring, "char-pointer");
    if (d != 0) {
      // char arrays: the C string they hold. (With a NUL delimiter the array holds the empty C string; whether an
      // exactly sized char[2]{0,0} means "empty" or "one NUL" is left open, so those forms are compared for d != 0.)
      char exact[2] = {d, 0};
      const char cexact[2] = {d, 0};
      same(phosg::join(pieces, exact), s, "char[2]");
      same(phosg::join(pieces, cexact), s, "const-char[2]");
      char buf3[3];
      fill_buffer(buf3, str);
      same(phosg::join(pieces, buf3), s, "char[3]-buffer");
      same(phosg::join(pieces, buf16), s, "char[16]-buffer");
      char buf64[64];
      fill_buffer(buf64, str);
      same(phosg::join(pieces, buf64), s, "char[64]-buffer");
      char zbuf[16];
      memset(zbuf, 0, sizeof(zbuf));
      zbuf[0] = d;
      same(phosg::join(pieces, zbuf), s, "char[16]-zeroed-buffer");
      SeparatorField f;
      f.before = -1;
      f.after = -1;
      fill_buffer(f.separator, str);
      same(phosg::join(pieces, f.separator), s, "char[8]-struct-field");
      const SeparatorField& cf = f;
      same(phosg::join(pieces, cf.separator), s, "const-char[8]-struct-field");
    }
    // string literals: only possible for delimiters fixed at compile time
    if (d == ',') same(phosg::join(pieces, ","), s, "literal");
    if (d == 'a') same(phosg::join(pieces, "a"), s, "literal");
    if (d == ' ') same(phosg::join(pieces, " "), s, "literal");
    same(phosg::join(pieces, ""), concat, "empty-literal");
  }
  // multi-character delimiters and other containers / item types: join is "items with the delimiter between them"
  auto same2 = [&](const string& got, const string& want, const char* form) {
    VCHECK(got == want, cat("join-definition:", form), "join(", pieces.size(), " pieces of ", hex(s), ", delimiter ", hex(multi), " as ", form, ") == ", hex(got), " expected ", hex(want));
  };
  {
    string multi_c = multi.c_str();
    string want = ref_join(pieces, multi), want_c = ref_join(pieces, multi_c);
    same2(phosg::join(pieces, multi), want, "std::string");
    std::string_view mv(multi);
    same2(phosg::join(pieces, mv), want, "string_view");
    string padded = "#" + multi + "#";
    std::string_view mv_mid(padded.data() + 1, multi.size());
    same2(phosg::join(pieces, mv_mid), want, "string_view-into-larger-buffer");
    const char* mp = multi.c_str();
    same2(phosg::join(pieces, mp), want_c, "const-char-pointer");
    if (!multi_c.empty() && multi_c.size() < 8) {
      char mb8[8], mb32[32];
      fill_buffer(mb8, multi_c);
      fill_buffer(mb32, multi_c);
      same2(phosg::join(pieces, mb8), want_c, "char[8]-buffer");
      same2(phosg::join(pieces, mb32), want_c, "char[32]-buffer");
    }
    same2(phosg::join(pieces, "<>"), ref_join(pieces, "<>"), "literal");
    same2(phosg::join(pieces, ", "), ref_join(pieces, ", "), "literal");
    // containers and item types
    char buf16[16];
    fill_buffer(buf16, "+");
    char dch = d;
    std::deque<string> dq(pieces.begin(), pieces.end());
    std::list<string> li(pieces.begin(), pieces.end());
    std::multiset<string> ms(pieces.begin(), pieces.end());
    vector<const char*> ptrs;
    vector<std::string_view> views;
    vector<string> cpieces;
    for (const auto& p : pieces) {
      ptrs.push_back(p.c_str());
      views.push_back(std::string_view(p));
      cpieces.push_back(p.c_str());
    }
    vector<char> chars(s.begin(), s.end());
    vector<string> char_items;
    for (char x : s) char_items.push_back(string(1, x));
    same2(phosg::join(dq, multi), want, "deque+std::string");
    same2(phosg::join(dq, buf16), ref_join(pieces, "+"), "deque+char[16]-buffer");
    same2(phosg::join(li, multi), want, "list+std::string");
    same2(phosg::join(li, dch), ref_join(pieces, string(1, d)), "list+char");
    same2(phosg::join(li, buf16), ref_join(pieces, "+"), "list+char[16]-buffer");
    same2(phosg::join(ms, mv), ref_join(ms, multi), "multiset+string_view");
    same2(phosg::join(views, multi), want, "string_view-items+std::string");
    same2(phosg::join(views, buf16), ref_join(pieces, "+"), "string_view-items+char[16]-buffer");
    same2(phosg::join(ptrs, multi), ref_join(cpieces, multi), "c-string-items+std::string");
    same2(phosg::join(ptrs, mp), ref_join(cpieces, multi_c), "c-string-items+const-char-pointer");
    same2(phosg::join(chars, multi), ref_join(char_items, multi), "char-items+std::string");
    same2(phosg::join(chars, buf16), ref_join(char_items, "+"), "char-items+char[16]-buffer");
    same2(phosg::join(views), concat, "string_view-items-no-delimiter");
    if (pieces.size() >= 3) {
      string arr[3] = {pieces[0], pieces[1], pieces[2]};
      vector<string> first3(pieces.begin(), pieces.begin() + 3);
      same2(phosg::join(arr, multi), ref_join(first3, multi), "array+std::string");
      same2(phosg::join(arr, buf16), ref_join(first3, "+"), "array+char[16]-buffer");
    }
  }
  if (pieces.size() > 1 && two_different_bytes(s)) ctx().nontrivial_case();
  ctx().cls(d == 0 ? "join:NUL-delimiter(char-array forms not compared)" : "join:all-delimiter-forms");
}

// ---------------------------------------------------------------- the helpers called before main()

// None of the helpers has a "not yet usable" phase: they are plain functions of their arguments, and a program may call
// them from the constructor of a namespace-scope object (a registry that normalises its keys, a table built from a
// split literal, ...), i.e. during static initialisation, before main(). This translation unit is linked BEFORE the
// library objects (run/buildlib.py), so its namespace-scope objects are constructed before those of the library:
// `g_before_main` calls every C08 helper on a few fixed inputs in its constructor and keeps the results. The subcheck
// compares them with what the same call returns now (clause called-before-main:*), and runs the regular oracle of the
// helper on the same input, so that "same as now" means "same as the reference definition".
namespace before_main {

static const char* const kHelpers[] = {"split", "wsplit", "split_context", "affix", "case_map", "replace", "strip", "comments", "skip", "split_args", "printf", "wprintf", "join"};
constexpr size_t kNumHelpers = sizeof(kHelpers) / sizeof(kHelpers[0]);
constexpr size_t kNumInputs = 8;

static string input(size_t k) {
  switch (k) {
    case 0: return string();
    case 1: return "a,b,,c";
    case 2: return LIT(",Hello, World (x[1,2], \"q,r\")\t/* note,\n * more */ 'it\\'s' \\, z \n\0\0");
    case 3: {
      string s;
      for (int b = 1; b < 256; b++) s.push_back(static_cast<char>(b));
      s.push_back('\0');
      return s + "Content-Type: TEXT/plain";
    }
    case 4: return "  \t lead and trail \r\n";
    case 5: return "say \"hello world\" 'a b'\\ c  d\te";
    case 6: return "((a,b),[c,{d,<e,f>}]),g,\"(\",h";
    default: return "The Quick Brown Fox, jumps over /* the */ lazy dog; and a tail long enough to leave any small-string buffer";
  }
}

static wstring widen(const string& s) {
  wstring w;
  for (char ch : s) w.push_back(static_cast<wchar_t>(static_cast<unsigned char>(ch)));
  return w;
}

static string enc(const vector<string>& v) {
  string r = std::to_string(v.size()) + "[";
  for (const auto& p : v) r += std::to_string(p.size()) + ":" + p + ";";
  return r + "]";
}

// the phosg calls of helper `h` on input `k`, results serialised
static string call(size_t h, size_t k) {
  const string in = input(k);
  const string cs = in.c_str();
  string r;
  try {
    switch (h) {
      case 0: r = enc(phosg::split(in, ',')) + enc(phosg::split(in, ',', 2)) + enc(phosg::split(in, 'o', 1)); break;
      case 1: {
        for (const auto& p : phosg::split(widen(in), L',', 3)) r += std::to_string(p.size()) + ":" + encode_w(p) + ";";
        break;
      }
      case 2: r = enc(phosg::split_context(in, ',')) + enc(phosg::split_context(in, ',', 1)); break;
      case 3:
        r = cat(phosg::starts_with(in, in.substr(0, 3)), phosg::ends_with(in, in.substr(in.size() - std::min<size_t>(in.size(), 3))), phosg::starts_with(in, "The"), phosg::ends_with(in, "plain"), phosg::starts_with(in, ""), phosg::ends_with(in, in + "x"));
        break;
      case 4: r = phosg::toupper(in) + "|" + phosg::tolower(in); break;
      case 5: r = phosg::str_replace_all(in, "l", "LL") + "|" + phosg::str_replace_all(in, ", ", ""); break;
      case 6: {
        string a = in, b = in, c2 = in, e = in;
        phosg::strip_trailing_zeroes(a);
        phosg::strip_trailing_whitespace(b);
        phosg::strip_leading_whitespace(c2);
        phosg::strip_whitespace(e);
        r = enc({a, b, c2, e});
        break;
      }
      case 7: {
        string a = in, b = in;
        phosg::strip_multiline_comments(b, true);
        r = enc({b});
        phosg::strip_multiline_comments(a);
        r += enc({a});
        break;
      }
      case 8:
        for (size_t off : {size_t(0), size_t(1), in.size() / 2, in.size()}) {
          if (off > in.size()) continue;
          r += cat(phosg::skip_whitespace(in, off), ",", phosg::skip_non_whitespace(in, off), ",", phosg::skip_word(in, off), ";");
          if (off <= cs.size()) r += cat(phosg::skip_whitespace(cs.c_str(), off), ",", phosg::skip_non_whitespace(cs.c_str(), off), ",", phosg::skip_word(cs.c_str(), off), ";");
        }
        break;
      case 9: r = enc(phosg::split_args(in)); break;
      case 10: r = phosg::string_printf("%s=%d:%5.3s|%-8x|%c", cs.c_str(), static_cast<int>(in.size()), cs.c_str(), static_cast<unsigned>(in.size()), 'q'); break;
      case 11: r = encode_w(phosg::wstring_printf(L"%ls-%d-%ls", widen(cs).c_str(), static_cast<int>(in.size()), L"end")); break;
      default: {
        vector<string> pieces = phosg::split(in, ',');
        char ch = ',';
        string str = ",";
        const char* ptr = ",";
        char buf[16];
        fill_buffer(buf, str);
        r = enc({phosg::join(pieces, ch), phosg::join(pieces, str), phosg::join(pieces, ptr), phosg::join(pieces, ","), phosg::join(pieces, buf), phosg::join(pieces, "<>"), phosg::join(pieces)});
        break;
      }
    }
  } catch (const std::exception&) { // (which class reports malformed input is not stated)
    r += "<threw runtime_error>";
  } catch (const std::exception&) {
    r += "<threw another exception>";
  } catch (...) {
    r += "<threw a non-exception>";
  }
  return r;
}

struct Results {
  string r[kNumHelpers][kNumInputs];
  Results() {
    for (size_t h = 0; h < kNumHelpers; h++)
      for (size_t k = 0; k < kNumInputs; k++) r[h][k] = call(h, k);
  }
};
static Results g_before_main; // constructed during static initialisation, before the library's own namespace-scope objects

} // namespace before_main

// case: n=[helper index, input index]
static void run_before_main(const Case& c) {
  size_t h = c.u(0), k = c.u(1);
  if (h >= before_main::kNumHelpers || k >= before_main::kNumInputs) throw std::logic_error("before_main case outside domain");
  const string in = before_main::input(k);
  const string cs = in.c_str();
  const string& early = before_main::g_before_main.r[h][k];
  string now = before_main::call(h, k);
  VCHECK(early == now, cat("called-before-main:", before_main::kHelpers[h]), before_main::kHelpers[h], " on ", hex(in), " returned ", hex(early, 120), " when called during static initialisation (from the constructor of a namespace-scope object of a translation unit linked before the library) and ", hex(now, 120), " when called from main()");
  // ... and what it returns now is what the reference definition says (the regular oracle of that helper)
  switch (h) {
    case 0:
      run_split(Case("split").S(in).N(',').N(2));
      run_split(Case("split").S(in).N('o').N(1));
      break;
    case 1: run_wsplit(Case("wsplit").S(encode_w(before_main::widen(in))).N(',').N(3)); break;
    case 2: run_split_context(Case("split_context").S(in).N(',').N(1)); break;
    case 3:
      for (const string& p : {in.substr(0, 3), in.substr(in.size() - std::min<size_t>(in.size(), 3)), string("The"), string("plain"), string(), in + "x"}) run_affix(Case("affix").S(in).S(p));
      break;
    case 4: run_case_map(Case("case_map").S(in)); break;
    case 5:
      run_replace(Case("replace").S(in).S("l").S("LL"));
      run_replace(Case("replace").S(in).S(", ").S(""));
      break;
    case 6: run_strip(Case("strip").S(in)); break;
    case 7: run_comments(Case("comments").S(in)); break;
    case 8: run_skip(Case("skip").S(in).N(0).N(std::min<size_t>(1, in.size())).N(in.size() / 2).N(in.size())); break;
    case 9: run_split_args(Case("split_args").S(in)); break;
    case 10: {
      string exp = ref_printf("%s=%d:%5.3s|%-8x|%c", cs.c_str(), static_cast<int>(in.size()), cs.c_str(), static_cast<unsigned>(in.size()), 'q');
      VCHECK(now == exp, "string_printf-value:before-main-format", "string_printf result ", hex(now, 80), " differs from vsnprintf ", hex(exp, 80));
      break;
    }
    case 11: {
      wstring exp = ref_wprintf(cs.size() + 64, L"%ls-%d-%ls", before_main::widen(cs).c_str(), static_cast<int>(in.size()), L"end");
      VCHECK(now == encode_w(exp), "wstring_printf-value:before-main-format", "wstring_printf result differs from vswprintf for ", hex(cs));
      break;
    }
    default: run_join(Case("join").S(in).S("<>").N(',')); break;
  }
  ctx().nontrivial_case();
  ctx().cls(cat("before_main:", before_main::kHelpers[h]));
}

// ---------------------------------------------------------------- generators

static size_t gen_len(size_t big) {
  switch (vg::below(5)) {
    case 0: return vg::scaled(big);
    case 1: return vg::below(4);
    default: return vg::scaled(48);
  }
}

// text over all byte values in which `special` bytes occur often
static string gen_text(const string& special, size_t len) {
  switch (vg::below(4)) {
    case 0: return fastgen::bytes(len);
    case 1: {
      string alphabet = special + special + "ab";
      return fastgen::bytes_from(alphabet, len);
    }
    case 2: {
      // all byte values with special bytes planted at about a quarter of the positions
      string r = fastgen::bytes(len);
      if (!special.empty()) {
        string where = fastgen::bytes(len);
        for (size_t i = 0; i < len; i++)
          if ((where[i] & 3) == 0) r[i] = special[(static_cast<unsigned char>(where[i]) >> 2) % special.size()];
      }
      return r;
    }
    default: {
      string alphabet = special + LIT("abcXYZ \t\n\0\xff\x80");
      return fastgen::bytes_from(alphabet, len);
    }
  }
}

static Case gen_split() {
  char d = static_cast<char>(vg::coin() ? vg::below(256) : vg::pick<int>({',', ' ', 0, '\n', 0xFF, 'a', '\\', '"'}));
  size_t len = gen_len(4096);
  string s = gen_text(string(1, d), len);
  uint64_t m = vg::coin() ? vg::below(12) : count_char(s, d) + vg::below(3) - (count_char(s, d) ? 1 : 0);
  return Case("split").S(s).N(static_cast<unsigned char>(d)).N(m);
}

static Case gen_join() {
  char d = static_cast<char>(vg::chance(1, 3) ? vg::below(256) : vg::pick<int>({',', ' ', 'a', ';', '\n', 0, 0xFF, '#'}));
  size_t len = vg::chance(1, 8) ? vg::scaled(4096) : vg::scaled(40);
  string s = gen_text(string(1, d), len);
  string multi = vg::chance(1, 4) ? string() : fastgen::bytes_from(LIT("<>, #ab\0\xff") + string(1, d), 1 + vg::below(6));
  return Case("join").S(s).S(multi).N(static_cast<unsigned char>(d));
}

static Case gen_wsplit() {
  static const vector<uint32_t> units = {',', 'a', 'b', 0, 0x100, 0x2C2C, 0x1F600, 0x10FFFF, 0xFFFFFFFFu, 0x2C00};
  uint32_t d = vg::pick(units);
  size_t len = gen_len(160);
  wstring w;
  for (size_t i = 0; i < len; i++) w.push_back(static_cast<wchar_t>(vg::chance(1, 3) ? d : (vg::coin() ? vg::pick(units) : static_cast<uint32_t>(vg::below(0x110000)))));
  uint64_t m = vg::below(12);
  return Case("wsplit").S(encode_w(w)).N(d).N(m);
}

static const char kOpeners[4] = {'(', '[', '{', '<'};
static const char kClosers[4] = {')', ']', '}', '>'};

// Deep nests: `depth` bracket levels whose kinds follow a pattern (all random / one kind outside, another inside / two
// kinds alternating / a single kind), with delimiters, ordinary characters, closers of another kind (ordinary characters
// where they are not the expected closer), backslashes, short quoted strings and small balanced groups between the
// levels on the way in and on the way out; balanced by construction (for non-meta delimiters), then possibly damaged.
// The per-level choices come from one expanded seed (a deep nest would otherwise cost thousands of draws).
static string gen_deep_nest(char d) {
  const size_t maxdepth = ctx().thorough() ? 1200 : 160;
  size_t depth;
  switch (vg::below(4)) {
    case 0: depth = 1 + vg::scaled(maxdepth); break;
    case 1: depth = vg::pick<size_t>({7, 8, 9, 15, 16, 17, 31, 32, 33, 34, 63, 64, 65, 66, 127, 128, 129, 130, 255, 256, 257}); break; // around powers of two
    default: depth = 1 + vg::below(maxdepth); break;
  }
  if (depth > maxdepth) depth = maxdepth;
  unsigned pattern = vg::below(4);
  unsigned kind_a = vg::below(4), kind_b = vg::below(4);
  size_t outer_levels = 1 + vg::below(std::min<size_t>(depth, 4));
  unsigned density = vg::pick<unsigned>({0, 8, 40, 100}); // filler probability out of 256 per position
  string rnd = vg::expand(vg::u64(), 8 * depth + 64);
  size_t ri = 0;
  auto nxt = [&]() -> unsigned { return static_cast<unsigned char>(rnd[ri++ % rnd.size()]); };
  string s, closers;
  auto filler = [&]() {
    char expected = closers.empty() ? 0 : closers.back();
    switch (nxt() % 8) {
      case 0:
      case 1: s += d; break;
      case 2: s += 'a'; break;
      case 3: {
        unsigned ci = nxt() % 4;
        if (kClosers[ci] == expected) ci = (ci + 1) % 4;
        s += kClosers[ci];
        break;
      }
      case 4: s += '\\'; break;
      case 5: {
        char q = (nxt() & 1) ? '"' : '\'';
        s += q;
        for (unsigned n = nxt() % 4; n > 0; n--) {
          static const char inside[] = {'(', ']', '{', '>', 'b', ',', ' '};
          unsigned r = nxt() % 10;
          if (r < 7) s += inside[r];
          else if (r == 7) s += d;
          else {
            s += '\\';
            s += (r == 8) ? q : '\\';
          }
        }
        s += q;
        break;
      }
      case 6: {
        unsigned k = nxt() % 4;
        s += kOpeners[k];
        s += d;
        s += kClosers[k];
        break;
      }
      default: {
        char ch = static_cast<char>(nxt());
        if (ch != 0 && strchr("()[]{}<>'\"", ch)) ch = 'c';
        s += ch;
        break;
      }
    }
  };
  auto maybe_fill = [&]() {
    while (nxt() < density) filler();
  };
  if (nxt() & 1) {
    s += 'x';
    s += d;
  }
  maybe_fill();
  for (size_t lv = 0; lv < depth; lv++) {
    unsigned k;
    switch (pattern) {
      case 0: k = nxt() % 4; break;
      case 1: k = (lv < outer_levels) ? kind_a : kind_b; break;
      case 2: k = (lv & 1) ? kind_b : kind_a; break;
      default: k = kind_a; break;
    }
    s += kOpeners[k];
    closers += kClosers[k];
    maybe_fill();
  }
  if (nxt() & 1) filler();
  while (!closers.empty()) {
    s += closers.back();
    closers.pop_back();
    maybe_fill();
  }
  if (nxt() & 1) {
    s += d;
    s += 'y';
  }
  if (vg::chance(1, 4) && !s.empty()) {
    size_t at = vg::below(s.size());
    switch (vg::below(3)) {
      case 0: s.erase(at, 1); break;
      case 1: s[at] = kClosers[vg::below(4)]; break;
      default: s.resize(at); break;
    }
  }
  return s;
}

static Case gen_split_context() {
  static const string meta = "()[]{}<>'\"\\";
  char d = static_cast<char>(vg::chance(3, 4) ? vg::pick<int>({',', ' ', ';', 'a'}) : (vg::coin() ? meta[vg::below(meta.size())] : static_cast<char>(vg::below(256))));
  if (vg::chance(1, 5)) return Case("split_context").S(gen_deep_nest(d)).N(static_cast<unsigned char>(d)).N(vg::below(14));
  size_t len = gen_len(4096);
  string s;
  if (vg::coin()) {
    // structured: balanced by construction, then possibly damaged
    string closers;
    if (len > 200) len = 200 + len % 100; // every character of the structured form costs several draws
    for (size_t i = 0; i < len; i++) {
      bool in_q = !closers.empty() && (closers.back() == '\'' || closers.back() == '"');
      switch (vg::below(in_q ? 6 : 8)) {
        case 0: s += d; break;
        case 1:
          if (!closers.empty()) {
            s += closers.back();
            closers.pop_back();
          }
          break;
        case 2:
          if (in_q) {
            s += '\\';
            s += vg::pick<int>({'"', '\'', '\\', 'n', d});
          } else s += 'x';
          break;
        case 3: s += vg::pick<int>({'a', 'b', ')', ']', '}', '>', '(', '['}); break;
        case 4: s += static_cast<char>(vg::below(256)); break;
        case 5: s += 'a'; break;
        case 6: {
          char o = vg::pick<int>({'(', '[', '{', '<'});
          s += o;
          closers += (o == '(' ? ')' : o == '[' ? ']' : o == '{' ? '}' : '>');
          break;
        }
        default: {
          char q = vg::pick<int>({'\'', '"'});
          s += q;
          closers += q;
          break;
        }
      }
    }
    if (vg::chance(3, 4))
      while (!closers.empty()) {
        s += closers.back();
        closers.pop_back();
      }
  } else {
    s = gen_text(meta + string(1, d) + string(1, d), len);
  }
  return Case("split_context").S(s).N(static_cast<unsigned char>(d)).N(vg::below(14));
}

static Case gen_affix() {
  size_t len = gen_len(4096);
  string s = gen_text(LIT("\0"), len);
  string p;
  switch (vg::below(6)) {
    case 0: p = s.substr(0, vg::below(s.size() + 1)); break;
    case 1: p = s.substr(s.size() - vg::below(s.size() + 1)); break;
    case 2: {
      p = vg::coin() ? s.substr(0, vg::below(s.size() + 1)) : s.substr(s.size() - vg::below(s.size() + 1));
      if (!p.empty()) p[vg::below(p.size())] ^= static_cast<char>(1 + vg::below(255));
      break;
    }
    case 3: p = s + fastgen::bytes(1 + vg::below(3)); break;
    case 4: p = fastgen::bytes(1 + vg::below(3)) + s; break;
    default: p = gen_text(LIT("\0"), vg::scaled(16)); break;
  }
  return Case("affix").S(s).S(p);
}

static Case gen_case_map() {
  size_t len = gen_len(4096);
  string s = vg::coin() ? fastgen::bytes(len) : fastgen::bytes_from(LIT("azAZ@[`{mM09\xE9\xC9\0\xFF"), len);
  return Case("case_map").S(s);
}

static Case gen_replace() {
  size_t len = gen_len(4096);
  string alphabet = vg::coin() ? string("ab") : LIT("ab\0c\xff");
  string s = vg::chance(1, 5) ? fastgen::bytes(len) : fastgen::bytes_from(alphabet, len);
  string t;
  if (!s.empty() && vg::chance(3, 4)) {
    size_t a = vg::below(s.size());
    t = s.substr(a, 1 + vg::below(std::min<size_t>(s.size() - a, 5)));
    size_t z = t.find('\0');
    if (z != string::npos) t.resize(z);
  }
  if (t.empty()) t = fastgen::bytes_from("ab", 1 + vg::below(3));
  string r = fastgen::bytes_from("abxyz", vg::below(6));
  return Case("replace").S(s).S(t).S(r);
}

static Case gen_strip() {
  size_t len = gen_len(4096);
  string core = vg::chance(1, 8) ? string() : gen_text(LIT(" \t\r\n\0"), len);
  string ws = string(" \t\r\n");
  string lead = fastgen::bytes_from(ws, vg::coin() ? vg::below(6) : 0);
  string tail = vg::coin() ? fastgen::bytes_from(ws, vg::below(6)) : string(vg::below(6), '\0');
  if (vg::chance(1, 6)) tail += fastgen::bytes_from(LIT(" \0"), vg::below(5));
  return Case("strip").S(lead + core + tail);
}

static Case gen_comments() {
  size_t len = gen_len(4096);
  string s;
  if (vg::coin()) {
    s = fastgen::bytes_from(string("/*\na"), len);
  } else {
    s = gen_text("/*\n", len);
    for (size_t k = vg::below(5); k > 0 && s.size() >= 2; k--) {
      size_t at = vg::below(s.size() - 1);
      s[at] = vg::coin() ? '/' : '*';
      s[at + 1] = (s[at] == '/') ? '*' : '/';
    }
  }
  return Case("comments").S(s);
}

static Case gen_skip() {
  size_t len = gen_len(4096);
  string s = vg::coin() ? fastgen::bytes_from(LIT(" \t\r\n\0ab"), len) : gen_text(LIT(" \t\r\n"), len);
  Case c("skip");
  c.S(s);
  size_t k = 1 + vg::below(12);
  for (size_t i = 0; i < k; i++) {
    switch (vg::below(10)) {
      case 0:
      case 1: c.N(s.size() - vg::below(std::min<size_t>(s.size(), 2) + 1)); break; // at / just before the end
      case 2: c.N(s.size() + 1 + vg::below(8)); break; // a little beyond the end (std::string overloads only)
      case 3: c.N(vg::chance(1, 2) ? s.size() + 1 + vg::scaled(5000) : std::max<uint64_t>(vg::interesting64(), s.size() + 1)); break; // far beyond
      default: c.N(vg::below(s.size() + 1)); break;
    }
  }
  return c;
}

static Case gen_split_args() {
  size_t len = gen_len(4096);
  string s;
  switch (vg::below(4)) {
    case 0: s = fastgen::bytes_from(string(" \t\"'\\ab"), len); break;
    case 1: s = fastgen::bytes_from(string(" \t\"'\\abcdefgh-=\n\r\x80\xff  "), len); break;
    case 2: s = gen_text(string(" \t\"'\\"), len); break; // may contain NUL: executed, not asserted
    default: {
      // well-formed by construction: words, quoted groups, escapes
      size_t words = vg::scaled(16);
      for (size_t w = 0; w < words; w++) {
        s += fastgen::bytes_from(" \t", 1 + vg::below(3));
        size_t parts = 1 + vg::below(3);
        for (size_t p = 0; p < parts; p++) {
          switch (vg::below(4)) {
            case 0: s += fastgen::bytes_from("abcdef-=./", 1 + vg::below(6)); break;
            case 1: s += "\\" + string(1, vg::pick<int>({' ', '\t', '"', '\'', '\\', 'a', '\n'})); break;
            default: {
              char q = vg::pick<int>({'"', '\''});
              s += q;
              size_t n = vg::below(6) + (vg::chance(1, 10) ? 0 : 1);
              for (size_t i = 0; i < n; i++) {
                char ch = vg::pick<int>({'a', 'b', ' ', '\t', q == '"' ? '\'' : '"', '\\', 'z'});
                if (ch == '\\') {
                  s += '\\';
                  s += vg::pick<int>({q, '\\', 'n', ' '});
                } else s += ch;
              }
              s += q;
            }
          }
        }
      }
      s += fastgen::bytes_from(" \t", vg::below(3));
    }
  }
  return Case("split_args").S(s);
}

static string gen_cstring(size_t maxlen) {
  size_t len;
  switch (vg::below(6)) {
    case 0: len = vg::scaled(maxlen); break;
    case 1: len = maxlen - vg::below(8); break;
    case 2: len = vg::pick<size_t>({0, 1, 255, 256, 1023, 1024, 4095, 4096, 65535, 65536}); break;
    default: len = vg::scaled(200); break;
  }
  if (len > maxlen) len = maxlen;
  // bulk content: structure does not matter, only length and the absence of NUL
  string r = vg::expand(vg::u64(), len);
  for (auto& ch : r)
    if (ch == 0) ch = 'z';
  return r;
}

static Case gen_printf() {
  const size_t kMax = ctx().thorough() ? (1u << 20) : (1u << 17);
  Case c("printf");
  uint64_t id = vg::below(11);
  c.N(id + 256 * static_cast<uint64_t>(vg::coin() ? 0 : vg::pick(ambient_errnos())));
  auto width = [&]() -> int64_t {
    int64_t w = static_cast<int64_t>(vg::chance(1, 3) ? vg::scaled(kMax) : vg::scaled(300));
    return vg::chance(1, 4) ? -w : w;
  };
  // a %c argument: NUL half of the time
  auto chr = [&]() -> uint64_t { return vg::coin() ? 0 : vg::below(256); };
  // total result lengths straddling typical first-buffer sizes, and anything up to the maximum
  auto total = [&]() -> uint64_t {
    switch (vg::below(4)) {
      case 0: return vg::scaled(kMax);
      case 1: return vg::scaled(2000);
      default: {
        uint64_t base = vg::pick<uint64_t>({64, 128, 256, 512, 1024, 2048, 4096, 8192, 16384, 32768, 65536});
        return base - 2 + vg::below(5);
      }
    }
  };
  switch (id) {
    case 8: {
      // split the total into the three padded fields: NULs (c0..c3) at the start, at the end and at two inner
      // positions that are anywhere, next to an end, or next to each other
      uint64_t t = total();
      uint64_t rest = t > 4 ? t - 4 : 0;
      auto cut = [&]() -> uint64_t {
        switch (vg::below(5)) {
          case 0: return 0;
          case 1: return rest;
          case 2: return rest / 2;
          case 3: return vg::below(2) ? (rest ? 1 : 0) : (rest ? rest - 1 : 0);
          default: return vg::below(rest + 1);
        }
      };
      uint64_t p = cut(), q = cut();
      if (p > q) std::swap(p, q);
      auto sign = [&](uint64_t w) -> int64_t { return vg::chance(1, 4) ? -static_cast<int64_t>(w) : static_cast<int64_t>(w); };
      c.N(chr()).N(chr()).N(chr()).N(chr()).I(sign(p)).I(sign(q - p)).I(sign(rest - q));
      c.S(vg::chance(1, 3) ? string() : gen_cstring(6));
      break;
    }
    case 9: {
      uint64_t t = total();
      uint64_t rest = t > 2 ? t - 2 : 0;
      uint64_t p = vg::chance(1, 4) ? 0 : vg::below(rest + 1), q = vg::chance(1, 4) ? rest : vg::below(rest + 1);
      if (p > q) std::swap(p, q);
      auto filler = [&](uint64_t n) {
        string r = vg::expand(vg::u64(), n);
        for (auto& ch : r)
          if (ch == 0) ch = 'y';
        return r;
      };
      c.N(chr()).N(chr()).S(filler(p)).S(filler(q - p)).S(filler(rest - q));
      break;
    }
    case 10: {
      uint64_t t = total();
      uint64_t rest = t > 1 ? t - 1 : 0;
      uint64_t p = vg::chance(1, 3) ? vg::below(3) : vg::below(rest + 1);
      if (p > rest) p = rest;
      if (vg::coin()) p = rest - p;
      auto sign = [&](uint64_t w) -> int64_t { return vg::chance(1, 3) ? -static_cast<int64_t>(w) : static_cast<int64_t>(w); };
      c.I(sign(p)).N(chr()).I(sign(rest - p)).N(chr());
      break;
    }
    case 0: c.S(gen_cstring(kMax)); break;
    case 1: c.I(width()).I(static_cast<int32_t>(vg::interesting64())); break;
    case 2: c.I(static_cast<int64_t>(vg::chance(1, 4) ? vg::scaled(kMax) : vg::scaled(400))).D(vg::pick<double>({0.0, -0.0, 1.5, -2.25, 1e300, 3.141592653589793, 1e-300, 123456789.125, 0.1}) * (vg::coin() ? 1.0 : static_cast<double>(vg::below(1000)))); break;
    case 3: c.S(gen_cstring(kMax / 2)).S(gen_cstring(kMax / 2)).I(static_cast<int32_t>(vg::interesting64())); break;
    case 4: c.N(vg::below(256)).N(vg::chance(1, 2) ? 0 : vg::below(256)).N(vg::below(256)); break;
    case 5: c.S(gen_cstring(4096)).N(vg::interesting64()).N(vg::below(65536)); break;
    case 6: break;
    default: c.S(gen_cstring(kMax / 2)).I(width() / 2).N(vg::interesting64() & 0xFFFFFFFFu); break;
  }
  return c;
}

static string gen_wide_arg(size_t maxunits) {
  size_t len;
  switch (vg::below(5)) {
    case 0: len = vg::scaled(maxunits); break;
    case 1: len = vg::below(6); break;
    case 2: len = vg::pick<size_t>({3, 4, 5, 7, 8, 9, 100, 107, 108, 109, 110}); break; // around 2x the format lengths
    default: len = vg::scaled(300); break;
  }
  static const vector<uint32_t> units = {'a', 'Z', '0', ' ', 0xE9, 0x100, 0x20AC, 0xD7FF, 0xE000, 0x1F600, 0x10FFFF};
  wstring w;
  uint64_t seed = vg::u64();
  for (size_t i = 0; i < len; i++) {
    if (len > 64) {
      seed = seed * 6364136223846793005ULL + 1442695040888963407ULL;
      w.push_back(static_cast<wchar_t>(units[(seed >> 33) % units.size()]));
    } else {
      w.push_back(static_cast<wchar_t>(vg::pick(units)));
    }
  }
  return encode_w(w);
}

static Case gen_wprintf() {
  const size_t kMax = ctx().thorough() ? (1u << 18) : (1u << 15); // wide units: 2^18 units = 1 MiB
  Case c("wprintf");
  uint64_t id = vg::below(8);
  c.N(id + 256 * static_cast<uint64_t>(vg::coin() ? 0 : vg::pick(ambient_errnos())));
  if (id == 7) {
    // L"%lc%*ls%lc%*ls%lc": each character L'\0' half of the time; total length around 2x the format length (30),
    // around powers of two, or anything up to the maximum
    auto wchr = [&]() -> uint64_t { return vg::coin() ? 0 : vg::pick<uint64_t>({'a', 'Z', ' ', 0xE9, 0x20AC, 0xD7FF, 0xE000, 0x1F600, 0x10FFFF}); };
    uint64_t t;
    switch (vg::below(4)) {
      case 0: t = vg::scaled(kMax); break;
      case 1: t = vg::below(70); break;
      case 2: t = vg::pick<uint64_t>({64, 128, 256, 512, 1024, 2048, 4096, 8192, 16384}) - 2 + vg::below(5); break;
      default: t = vg::scaled(2000); break;
    }
    uint64_t rest = t > 3 ? t - 3 : 0;
    uint64_t p;
    switch (vg::below(4)) {
      case 0: p = 0; break;
      case 1: p = rest; break;
      case 2: p = rest / 2; break;
      default: p = vg::below(rest + 1); break;
    }
    auto sign = [&](uint64_t w) -> int64_t { return vg::chance(1, 4) ? -static_cast<int64_t>(w) : static_cast<int64_t>(w); };
    c.N(wchr()).I(sign(p)).N(wchr()).I(sign(rest - p)).N(wchr());
    c.S(vg::chance(1, 3) ? string() : gen_wide_arg(4));
    return c;
  }
  auto value = [&]() -> int64_t {
    return static_cast<int32_t>(vg::coin() ? vg::interesting64() : vg::pick<uint64_t>({0, 5, 12, 123, 1234, 12345, 123456, 1234567, 0x7FFFFFFF, 0x80000000ULL}));
  };
  switch (id) {
    case 0: c.I(value()); break;
    case 1: c.S(gen_wide_arg(kMax)); break;
    case 2: {
      int64_t w = static_cast<int64_t>(vg::chance(1, 3) ? vg::scaled(4 * kMax) : vg::scaled(40));
      c.I(vg::chance(1, 4) ? -w : w).I(value());
      break;
    }
    case 3: c.S(gen_wide_arg(kMax / 2)).S(gen_wide_arg(kMax / 2)).I(value()); break;
    case 4: break;
    case 5: c.I(value()); break;
    default: c.S(gen_wide_arg(kMax)); break;
  }
  return c;
}

// ---------------------------------------------------------------- enumerators

static void enum_split(Enum& e) {
  size_t maxlen = e.thorough() ? 10 : 8;
  uint64_t idx = 0;
  for (char d : {',', 'a', '\0'}) {
    string alphabet = (d == ',') ? string(",ab") : (d == 'a' ? string("abc") : LIT("\0ab"));
    for_all_strings(alphabet, maxlen, [&](const string& s) {
      if (e.mine(idx++)) e.exec(Case("split").S(s).N(static_cast<unsigned char>(d)).N(11));
      return !e.stop;
    });
  }
  // every delimiter value on a few shapes
  for (int d = 0; d < 256 && !e.stop; d++) {
    char o = (d == 'x') ? 'y' : 'x';
    string D(1, static_cast<char>(d)), O(1, o);
    for (const string& s : {string(), D, D + D, D + O, O + D, D + O + D, O + D + D + O, D + D + O, O + O})
      if (e.mine(idx++)) e.exec(Case("split").S(s).N(d).N(1));
  }
  e.complete(cat("every string of length <= ", maxlen, " over {delimiter, 2 other bytes} for delimiters ',', 'a', NUL x max_splits 0..11; 9 shapes x all 256 delimiters"));
}

static void enum_join(Enum& e) {
  size_t maxlen = e.thorough() ? 8 : 6;
  uint64_t idx = 0;
  const vector<string> multis = {string(), "<>", ", ", LIT("a\0b")};
  for (char d : {',', 'a', ' ', '\0'}) {
    string alphabet = (d == ',') ? string(",ab") : (d == 'a' ? string("abc") : (d == ' ' ? string(" ab") : LIT("\0ab")));
    for_all_strings(alphabet, maxlen, [&](const string& s) {
      if (e.mine(idx++)) e.exec(Case("join").S(s).S(multis[idx % multis.size()]).N(static_cast<unsigned char>(d)));
      return !e.stop;
    });
  }
  for (int d = 0; d < 256 && !e.stop; d++) {
    char o = (d == 'x') ? 'y' : 'x';
    string D(1, static_cast<char>(d)), O(1, o);
    for (const string& s : {string(), D, D + D, D + O, O + D, D + O + D, O + D + D + O, D + D + O, O + O})
      if (e.mine(idx++)) e.exec(Case("join").S(s).S(D + D).N(d));
  }
  e.complete(cat("every string of length <= ", maxlen, " over {delimiter, 2 other bytes} for delimiters ',', 'a', space, NUL and 9 shapes x all 256 delimiters, each joined with the delimiter held as char, const char, std::string, string_view (own / into a larger buffer), const char*, char*, char[2], char[3]/[16]/[64] buffers with stale bytes after the terminator, a zeroed char[16], a char[8] struct field, string literals; multi-character delimiters in the same forms; vector, deque, list, multiset, array containers; std::string, string_view, const char* and char items"));
}

static void enum_before_main(Enum& e) {
  uint64_t idx = 0;
  for (size_t h = 0; h < before_main::kNumHelpers; h++)
    for (size_t k = 0; k < before_main::kNumInputs; k++)
      if (e.mine(idx++)) e.exec(Case("before_main").N(h).N(k));
  e.complete(cat("every C08 helper (", before_main::kNumHelpers, " groups) x ", before_main::kNumInputs, " fixed inputs, called from the constructor of a namespace-scope object of the harness translation unit (linked before the library) and again from main()"));
}

static void enum_wsplit(Enum& e) {
  size_t maxlen = e.thorough() ? 9 : 7;
  uint64_t idx = 0;
  const uint32_t map[3] = {0x2C, 'a', 0x1F600};
  for_all_strings("dab", maxlen, [&](const string& s) {
    if (e.mine(idx++)) {
      wstring w;
      for (char ch : s) w.push_back(static_cast<wchar_t>(map[ch == 'd' ? 0 : ch == 'a' ? 1 : 2]));
      e.exec(Case("wsplit").S(encode_w(w)).N(0x2C).N(11));
    }
    return !e.stop;
  });
  e.complete(cat("every wide string of length <= ", maxlen, " over {L',', L'a', U+1F600} x max_splits 0..11"));
}

static void enum_split_context(Enum& e) {
  size_t maxlen = e.thorough() ? 7 : 5;
  uint64_t idx = 0;
  for_all_strings(",()[]\"'\\a", maxlen, [&](const string& s) {
    if (e.mine(idx++)) e.exec(Case("split_context").S(s).N(',').N(0));
    return !e.stop;
  });
  // the other bracket kinds and unusual delimiters at a smaller length
  size_t maxlen2 = e.thorough() ? 6 : 4;
  for_all_strings(";{}<>\"\\b", maxlen2, [&](const string& s) {
    if (e.mine(idx++)) e.exec(Case("split_context").S(s).N(';').N(0));
    return !e.stop;
  });
  for (char d : {')', '(', '"', '\\'}) {
    for_all_strings(",()\"\\a", maxlen2, [&](const string& s) {
      if (e.mine(idx++)) e.exec(Case("split_context").S(s).N(static_cast<unsigned char>(d)).N(0));
      return !e.stop;
    });
  }
  // nesting depth as the enumerated dimension: every depth x every (outer kind, inner kind) x 5 shapes
  size_t maxdepth = e.thorough() ? 300 : 80;
  for (size_t depth = 1; depth <= maxdepth && !e.stop; depth++) {
    for (unsigned o = 0; o < 4; o++) {
      for (unsigned k = 0; k < 4; k++) {
        if (!e.mine(idx++)) continue;
        string in_open(depth - 1, kOpeners[k]), in_close(depth - 1, kClosers[k]);
        string alt_open, alt_close;
        for (size_t lv = 0; lv < depth; lv++) {
          alt_open += kOpeners[(lv & 1) ? k : o];
          alt_close.insert(alt_close.begin(), kClosers[(lv & 1) ? k : o]);
        }
        char O = kOpeners[o], C = kClosers[o], other = kClosers[(o + 1) % 4];
        // delimiters at the deepest level, at level 1 and at top level
        e.exec(Case("split_context").S(string("x,") + O + in_open + ",a" + in_close + ",b" + C + ",y").N(',').N(0));
        // a closer of another kind at level 1 is an ordinary character there
        e.exec(Case("split_context").S(string() + O + in_open + in_close + other + ",r" + C + ",z").N(',').N(0));
        // the outermost bracket closed by the wrong kind: unbalanced
        e.exec(Case("split_context").S(string() + O + in_open + in_close + other + ",z").N(',').N(0));
        // two kinds alternating
        e.exec(Case("split_context").S(alt_open + "," + alt_close + ",q").N(',').N(0));
        // a quoted string at the deepest level
        e.exec(Case("split_context").S(string("p,") + O + in_open + "\"" + C + ",\\\"" + "\"" + in_close + C).N(',').N(0));
      }
    }
  }
  e.complete(cat("every string of length <= ", maxlen, " over {, ( ) [ ] \" ' \\ a} with delimiter ','; nesting depths 1..", maxdepth, " x 16 (outer, inner) bracket kinds x 5 shapes; length <= ", maxlen2, " over {; { } < > \" \\ b} with ';' and over {, ( ) \" \\ a} with delimiters ) ( \" \\; max_splits 0..min(10, top-level delimiters + 1)"));
}

static void enum_affix(Enum& e) {
  size_t maxlen = e.thorough() ? 6 : 5;
  uint64_t idx = 0;
  vector<string> all;
  for_all_strings(LIT("ab\0"), maxlen, [&](const string& s) {
    all.push_back(s);
    return true;
  });
  for (size_t i = 0; i < all.size() && !e.stop; i++) {
    if (!e.mine(idx++)) continue;
    for (size_t j = 0; j < all.size() && all[j].size() <= 4; j++) e.exec(Case("affix").S(all[i]).S(all[j]));
  }
  e.complete(cat("every (text, affix) pair over {a, b, NUL} with |text| <= ", maxlen, ", |affix| <= 4"));
}

static void enum_case_map(Enum& e) {
  uint64_t idx = 0;
  for (int a = 0; a < 256; a++) {
    if (!e.mine(idx++)) continue;
    e.exec(Case("case_map").S(string(1, static_cast<char>(a))));
    for (int b = 0; b < 256; b++) e.exec(Case("case_map").S(string(1, static_cast<char>(a)) + string(1, static_cast<char>(b))));
  }
  if (e.mine(idx++)) e.exec(Case("case_map").S(""));
  e.complete("every byte string of length <= 2");
}

static void enum_replace(Enum& e) {
  size_t maxlen = e.thorough() ? 9 : 7;
  uint64_t idx = 0;
  const vector<string> targets = {"a", "b", "aa", "ab", "ba", "aba", "aab", "abab"};
  const vector<string> repls = {"", "a", "b", "ab", "ba", "aa", "aab", "xyzw"};
  for_all_strings(LIT("ab\0"), maxlen, [&](const string& s) {
    if (e.mine(idx++))
      for (const auto& t : targets)
        for (const auto& r : repls) e.exec(Case("replace").S(s).S(t).S(r));
    return !e.stop;
  });
  e.complete(cat("every string of length <= ", maxlen, " over {a, b, NUL} x 8 targets x 8 replacements (lengths 0..4)"));
}

static void enum_strip(Enum& e) {
  size_t maxlen = e.thorough() ? 8 : 6;
  uint64_t idx = 0;
  for_all_strings(LIT(" \t\r\n\0a"), maxlen, [&](const string& s) {
    if (e.mine(idx++)) e.exec(Case("strip").S(s));
    return !e.stop;
  });
  e.complete(cat("every string of length <= ", maxlen, " over {space, tab, CR, LF, NUL, a}"));
}

static void enum_comments(Enum& e) {
  size_t maxlen = e.thorough() ? 10 : 8;
  uint64_t idx = 0;
  for_all_strings("/*\na", maxlen, [&](const string& s) {
    if (e.mine(idx++)) e.exec(Case("comments").S(s));
    return !e.stop;
  });
  e.complete(cat("every string of length <= ", maxlen, " over {/, *, LF, a}, strict and lenient mode"));
}

static void enum_skip(Enum& e) {
  size_t maxlen = e.thorough() ? 8 : 6;
  uint64_t idx = 0;
  for_all_strings(LIT(" \t\r\n\0a"), maxlen, [&](const string& s) {
    if (e.mine(idx++)) {
      Case c("skip");
      c.S(s);
      for (size_t off = 0; off <= s.size() + 3; off++) c.N(off);
      c.N(SIZE_MAX);
      e.exec(c);
    }
    return !e.stop;
  });
  e.complete(cat("every string of length <= ", maxlen, " over {space, tab, CR, LF, NUL, a} x every offset 0..length (std::string and C-string overloads) and length+1..length+3, SIZE_MAX (std::string overloads)"));
}

static void enum_split_args(Enum& e) {
  size_t maxlen = e.thorough() ? 8 : 6;
  uint64_t idx = 0;
  for_all_strings(" \t\"'\\ab", maxlen, [&](const string& s) {
    if (e.mine(idx++)) e.exec(Case("split_args").S(s));
    return !e.stop;
  });
  e.complete(cat("every string of length <= ", maxlen, " over {space, tab, \", ', \\, a, b}"));
}

static void enum_wprintf(Enum& e) {
  uint64_t idx = 0;
  // results of every length 1..12 against the 4-unit first buffer of L"%d", and around the edges of the others;
  // everything once per ambient errno value
  for (int err : ambient_errnos()) {
    auto F = [&](uint64_t id) { return id + 256 * static_cast<uint64_t>(err); };
    int64_t v = 1;
    for (int digits = 1; digits <= 10 && !e.stop; digits++) {
      for (int64_t val : {v, -v}) {
        if (val < INT32_MIN || val > INT32_MAX) continue;
        if (e.mine(idx++)) e.exec(Case("wprintf").N(F(0)).I(val));
        if (e.mine(idx++)) e.exec(Case("wprintf").N(F(5)).I(val));
      }
      v = v * 10 + (digits + 1) % 10;
    }
    for (int64_t w = -40; w <= 40 && !e.stop; w++)
      if (e.mine(idx++)) e.exec(Case("wprintf").N(F(2)).I(w).I(7));
    for (size_t len = 0; len <= 130 && !e.stop; len++) {
      wstring a(len, L'q');
      if (e.mine(idx++)) e.exec(Case("wprintf").N(F(1)).S(encode_w(a)));
      if (e.mine(idx++)) e.exec(Case("wprintf").N(F(6)).S(encode_w(a)));
      if (e.mine(idx++)) e.exec(Case("wprintf").N(F(3)).S(encode_w(a)).S(encode_w(a.substr(0, len / 3))).I(static_cast<int64_t>(len) * 1000));
    }
    if (e.mine(idx++)) e.exec(Case("wprintf").N(F(4)));
    // L"%lc%*ls%lc%*ls%lc" (first buffer: 30 units): every total length 3..70 and around 256 / 1024 / 4096, every subset
    // of the first / middle / last character L'\0'
    for (size_t len = 3; len <= 4097 && !e.stop; len++) {
      if (len > 70 && !(len >= 255 && len <= 257) && !(len >= 1023 && len <= 1025) && !(len >= 4095 && len <= 4097)) continue;
      int64_t rest = static_cast<int64_t>(len) - 3, w = rest / 2;
      for (unsigned mask = 0; mask < 8; mask++) {
        if (!e.mine(idx++)) continue;
        Case k("wprintf");
        k.N(F(7)).N(mask & 1 ? 0 : 'A').I(w).N(mask & 2 ? 0 : 0x20AC).I(-(rest - w)).N(mask & 4 ? 0 : 'C').S(encode_w(wstring()));
        e.exec(k);
      }
    }
  }
  e.complete(cat("L\"%d\" with 1..10 digit values of both signs, L\"%*d\" widths -40..40, L\"%ls\" arguments of every length 0..130 (all result lengths around 2x the format length), "
                 "L\"%lc%*ls%lc%*ls%lc\" with every subset of the three characters L'\\0' at every total length 3..70 and 2^k-1..2^k+1 (k=8,10,12), each with ", ambient_errnos().size(), " values of errno on entry (0, EILSEQ, EOVERFLOW, ENOMEM, EINVAL, ERANGE, EINTR, EAGAIN, E2BIG, EBADF)"));
}

// string_printf: results around typical first-buffer sizes, once per ambient errno value
static void enum_printf(Enum& e) {
  uint64_t idx = 0;
  for (int err : ambient_errnos()) {
    auto F = [&](uint64_t id) { return id + 256 * static_cast<uint64_t>(err); };
    for (size_t len : {0, 1, 2, 7, 8, 9, 15, 16, 17, 31, 32, 33, 63, 64, 65, 127, 128, 129, 255, 256, 257, 511, 512, 513, 1023, 1024, 1025, 4095, 4096, 4097}) {
      if (e.stop) break;
      string a(len, 'q');
      if (e.mine(idx++)) e.exec(Case("printf").N(F(0)).S(a));
      if (e.mine(idx++)) e.exec(Case("printf").N(F(1)).I(static_cast<int64_t>(len)).I(-7));
      if (e.mine(idx++)) e.exec(Case("printf").N(F(1)).I(-static_cast<int64_t>(len)).I(7));
      if (e.mine(idx++)) e.exec(Case("printf").N(F(2)).I(static_cast<int64_t>(len)).D(0.1));
      if (e.mine(idx++)) e.exec(Case("printf").N(F(3)).S(a).S(a.substr(0, len / 3)).I(static_cast<int64_t>(len)));
    }
    if (e.mine(idx++)) e.exec(Case("printf").N(F(6)));
    if (e.mine(idx++)) e.exec(Case("printf").N(F(4)).N('a').N(0).N('b'));
    // results of total length 2^k-1, 2^k, 2^k+1 (k=3..12, 16) in which every subset of four %c characters (first byte,
    // one third, two thirds, last byte) is NUL
    for (size_t len : {7, 8, 9, 15, 16, 17, 31, 32, 33, 63, 64, 65, 127, 128, 129, 255, 256, 257, 511, 512, 513, 1023, 1024, 1025, 4095, 4096, 4097, 65535, 65536, 65537}) {
      if (e.stop) break;
      int64_t rest = static_cast<int64_t>(len) - 4, w = rest / 3;
      for (unsigned mask = 0; mask < 16; mask++) {
        if (!e.mine(idx++)) continue;
        e.exec(Case("printf").N(F(8)).N(mask & 1 ? 0 : 'A').N(mask & 2 ? 0 : 'B').N(mask & 4 ? 0 : 'C').N(mask & 8 ? 0 : 'D').I(w).I(-w).I(rest - 2 * w).S("x"));
      }
      if (e.mine(idx++)) e.exec(Case("printf").N(F(9)).N(0).N(0).S(string((len - 2) / 2, 'p')).S("").S(string(len - 2 - (len - 2) / 2, 'r')));
      if (e.mine(idx++)) e.exec(Case("printf").N(F(10)).I(static_cast<int64_t>(len) - 2).N(0).I(-1).N(0));
      if (e.mine(idx++)) e.exec(Case("printf").N(F(10)).I(-(static_cast<int64_t>(len) - 2)).N(0).I(1).N('e'));
    }
  }
  e.complete(cat("\"%s\", \"%*d\", \"%.*f\", \"%s=%d:%s\" with argument lengths / widths / precisions 0,1,2 and 2^k-1, 2^k, 2^k+1 for k=3..12, the empty format and \"%c%c|%c\" with a NUL character, "
                 "\"%c%*s%c%*s%c%*s%c\" with every subset of the four characters NUL, \"%s%c%s%c%s\" and \"%*c|%*c\" with NUL characters at total result lengths 2^k-1, 2^k, 2^k+1 for k=3..12 and 16, each with ",
                 ambient_errnos().size(), " values of errno on entry"));
}

int main(int argc, char** argv) {
  vector<SubCheck> checks;
  checks.push_back({"split", run_split, gen_split, 120000, 600000, 100, enum_split});
  checks.push_back({"join", run_join, gen_join, 40000, 250000, 100, enum_join});
  checks.push_back({"before_main", run_before_main, nullptr, 0, 0, 100, enum_before_main});
  checks.push_back({"wsplit", run_wsplit, gen_wsplit, 40000, 200000, 100, enum_wsplit});
  checks.push_back({"split_context", run_split_context, gen_split_context, 120000, 600000, 100, enum_split_context});
  checks.push_back({"affix", run_affix, gen_affix, 60000, 400000, 100, enum_affix});
  checks.push_back({"case_map", run_case_map, gen_case_map, 40000, 300000, 100, enum_case_map});
  checks.push_back({"replace", run_replace, gen_replace, 80000, 500000, 100, enum_replace});
  checks.push_back({"strip", run_strip, gen_strip, 80000, 500000, 100, enum_strip});
  checks.push_back({"comments", run_comments, gen_comments, 80000, 500000, 100, enum_comments});
  checks.push_back({"skip", run_skip, gen_skip, 80000, 500000, 100, enum_skip});
  checks.push_back({"split_args", run_split_args, gen_split_args, 120000, 600000, 100, enum_split_args});
  checks.push_back({"printf", run_printf, gen_printf, 16000, 100000, 100, enum_printf});
  checks.push_back({"wprintf", run_wprintf, gen_wprintf, 16000, 100000, 100, enum_wprintf});
  // every case runs under a watchdog: a non-terminating helper kills the shard and the journal names the case
  for (auto& sc : checks) {
    auto inner = sc.run;
    sc.run = [inner](const Case& c) {
      Watchdog wd(30);
      inner(c);
    };
  }
  return main_(argc, argv, checks);
}
