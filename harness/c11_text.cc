// C11 - text encodings: base64 (both alphabets), rot13, URL / control / quote escapers, render_netloc / parse_netloc.
//
// Every oracle here is written from the specification (RFC 4648, RFC 3986 section 2.3, the C escape syntax),
// independently of phosg's tables; oracle/c11_text.py cross-checks the same functions against Python's
// base64 / codecs / urllib.parse through shim/c11_shim.cc.
#include <phosg/Encoding.hh>
#include <phosg/Network.hh>
#include <phosg/Strings.hh>

#include <atomic>
#include <thread>

#include "verif.hh"
#include "c11/ambient.hh"

using namespace verif;

// ---------------------------------------------------------------- RFC 4648 reference

// alphabet kinds: 0 = default (nullptr argument), 1 = DEFAULT_ALPHABET passed explicitly, 2 = URLSAFE_ALPHABET
static const char* kAlphaNames[3] = {"default", "default-explicit", "urlsafe"};
static const char* phosg_alphabet(uint64_t kind) {
  switch (kind) {
    case 0: return nullptr;
    case 1: return phosg::DEFAULT_ALPHABET;
    case 2: return phosg::URLSAFE_ALPHABET;
    default: throw std::logic_error("bad alphabet kind");
  }
}
// value of a character in the alphabet, -1 when it is not a member (RFC 4648 tables 1 and 2)
static inline int ref_b64_value(unsigned char ch, bool urlsafe) {
  if (ch >= 'A' && ch <= 'Z') return ch - 'A';
  if (ch >= 'a' && ch <= 'z') return 26 + (ch - 'a');
  if (ch >= '0' && ch <= '9') return 52 + (ch - '0');
  if (!urlsafe && ch == '+') return 62;
  if (!urlsafe && ch == '/') return 63;
  if (urlsafe && ch == '-') return 62;
  if (urlsafe && ch == '_') return 63;
  return -1;
}
static inline char ref_b64_char(unsigned v, bool urlsafe) {
  if (v < 26) return static_cast<char>('A' + v);
  if (v < 52) return static_cast<char>('a' + (v - 26));
  if (v < 62) return static_cast<char>('0' + (v - 52));
  if (v == 62) return urlsafe ? '-' : '+';
  return urlsafe ? '_' : '/';
}
static std::string ref_b64_encode(const std::string& data, bool urlsafe) {
  std::string out;
  size_t i = 0;
  while (i < data.size()) {
    size_t take = std::min<size_t>(3, data.size() - i);
    uint32_t acc = 0;
    for (size_t k = 0; k < 3; k++) acc = (acc << 8) | (k < take ? static_cast<unsigned char>(data[i + k]) : 0);
    for (size_t k = 0; k < 4; k++) {
      if (k <= take) out += ref_b64_char((acc >> (18 - 6 * k)) & 63, urlsafe);
      else out += '=';
    }
    i += take;
  }
  return out;
}
// the rejection rule of the property statement: length not a multiple of four, a character outside the
// alphabet anywhere, or padding anywhere but the last one or two positions
static bool ref_b64_valid(const std::string& s, bool urlsafe) {
  if (s.size() % 4 != 0) return false;
  size_t n = s.size();
  for (size_t i = 0; i < n; i++) {
    unsigned char ch = static_cast<unsigned char>(s[i]);
    if (ch == '=') {
      bool last = (i == n - 1);
      bool second_last = (i == n - 2) && s[n - 1] == '=';
      if (!last && !second_last) return false;
    } else if (ref_b64_value(ch, urlsafe) < 0) {
      return false;
    }
  }
  return true;
}
// a text of valid shape whose last character before the padding carries non-zero bits that belong to no byte ("MR==", "MTF="): no
// encoder produces it. The statement demands success for encoder output (the round trip) and rejection for the three listed defects;
// whether such a text is decoded (dropping the bits, as /repo and Python do) or refused as non-canonical is left open
static bool ref_b64_noncanonical(const std::string& s, bool urlsafe) {
  if (!ref_b64_valid(s, urlsafe) || s.empty()) return false;
  size_t n = s.size();
  size_t pad = (s[n - 1] == '=') + (n >= 2 && s[n - 2] == '=' && s[n - 1] == '=');
  if (pad == 0) return false;
  int v = ref_b64_value(static_cast<unsigned char>(s[n - 1 - pad]), urlsafe);
  return (v & (pad == 1 ? 0x3 : 0xF)) != 0;
}
// decode of a valid text: bit stream of the non-padding characters, whole bytes only
static std::string ref_b64_decode(const std::string& s, bool urlsafe) {
  std::string out;
  uint32_t acc = 0;
  int bits = 0;
  for (unsigned char ch : s) {
    if (ch == '=') break;
    acc = (acc << 6) | static_cast<uint32_t>(ref_b64_value(ch, urlsafe));
    bits += 6;
    if (bits >= 8) {
      bits -= 8;
      out += static_cast<char>((acc >> bits) & 0xFF);
    }
  }
  return out;
}

struct B64Mismatch {
  const char* clause;
  std::string detail;
};

// encode clauses for one byte string; returns nullptr clause when everything holds
static inline const char* b64_round_check(const std::string& data, uint64_t kind, std::string* detail) {
  bool urlsafe = (kind == 2);
  const char* alpha = phosg_alphabet(kind);
  std::string enc = phosg::base64_encode(data, alpha);
  std::string ref = ref_b64_encode(data, urlsafe);
  if (enc != ref) {
    if (detail) *detail = cat("base64_encode(", hex(data), ") = '", enc, "' expected '", ref, "'");
    return "encode-value";
  }
  std::string enc2 = phosg::base64_encode(data.data(), data.size(), alpha);
  if (enc2 != enc) {
    if (detail) *detail = cat("pointer overload returned '", enc2, "' string overload '", enc, "'");
    return "encode-overloads";
  }
  std::string dec;
  try {
    dec = phosg::base64_decode(enc, alpha);
  } catch (const std::exception& e) {
    if (detail) *detail = cat("base64_decode('", enc, "') threw ", typeid(e).name(), ": ", e.what());
    return "roundtrip-throws";
  }
  if (dec != data) {
    if (detail) *detail = cat("base64_decode(base64_encode(", hex(data), ")) = ", hex(dec));
    return "roundtrip-value";
  }
  return nullptr;
}

// case: n = [alphabet kind], s = [data]
static void run_b64_round(const Case& c) {
  uint64_t kind = c.u(0);
  const std::string& data = c.str(0);
  std::string detail;
  const char* clause = b64_round_check(data, kind, &detail);
  if (clause) VFAIL(cat(clause, ":", kAlphaNames[kind]), detail);
  // structure of the output, stated separately so that a wrong reference encoder cannot hide it
  std::string enc = phosg::base64_encode(data, phosg_alphabet(kind));
  VCHECK(enc.size() == (data.size() + 2) / 3 * 4, "encode-length", "encoded length ", enc.size(), " for ", data.size(), " bytes");
  size_t pad = (3 - data.size() % 3) % 3;
  for (size_t i = 0; i < enc.size(); i++) {
    bool must_pad = i >= enc.size() - pad;
    VCHECK((enc[i] == '=') == must_pad, "encode-padding", "'", enc, "' has wrong padding for ", data.size(), " bytes");
    if (!must_pad) VCHECK(ref_b64_value(static_cast<unsigned char>(enc[i]), kind == 2) >= 0, "encode-alphabet", "'", enc, "' contains a character outside the ", kAlphaNames[kind], " alphabet");
  }
  if (data.size() % 3 != 0) ctx().nontrivial_case();
  ctx().cls(cat("b64_round:len%3=", data.size() % 3));
}

// decode clauses; 0 = ok
static inline const char* b64_decode_check(const std::string& text, uint64_t kind, std::string* detail) {
  bool urlsafe = (kind == 2);
  bool valid = ref_b64_valid(text, urlsafe);
  std::string got;
  bool threw = false, right_type = false;
  std::string tname, what;
  try {
    got = phosg::base64_decode(text, phosg_alphabet(kind));
  } catch (const std::invalid_argument& e) {
    threw = true;
    right_type = true;
    tname = typeid(e).name();
    what = e.what();
  } catch (const std::exception& e) {
    threw = true;
    tname = typeid(e).name();
    what = e.what();
  }
  if (!valid) {
    if (!threw) {
      if (detail) *detail = cat("base64_decode('", text, "' = ", hex(text), ") returned ", hex(got), " instead of throwing invalid_argument");
      // root-cause class: what makes the text invalid
      if (text.size() % 4 != 0) return "accepts-bad-length";
      bool bad_char = false;
      for (unsigned char ch : text) bad_char |= (ch != '=' && ref_b64_value(ch, urlsafe) < 0);
      return bad_char ? "accepts-non-alphabet-character" : "accepts-misplaced-padding";
    }
    if (!right_type) {
      if (detail) *detail = cat("base64_decode('", text, "') threw ", tname, " (", what, ") instead of invalid_argument");
      return "wrong-exception-type";
    }
    return nullptr;
  }
  if (threw) {
    if (ref_b64_noncanonical(text, urlsafe) && right_type) {
      verif::ctx().cls("b64_decode:refuses a non-canonical text (unused bits set)");
      return nullptr;
    }
    if (detail) *detail = cat("base64_decode('", text, "') threw ", tname, " (", what, ") for a valid text");
    return "rejects-valid";
  }
  std::string ref = ref_b64_decode(text, urlsafe);
  if (got != ref) {
    if (detail) *detail = cat("base64_decode('", text, "') = ", hex(got), " expected ", hex(ref));
    return "decode-value";
  }
  return nullptr;
}

// case: n = [alphabet kind], s = [text]
static void run_b64_decode(const Case& c) {
  uint64_t kind = c.u(0);
  const std::string& text = c.str(0);
  std::string detail;
  const char* clause = b64_decode_check(text, kind, &detail);
  if (clause) VFAIL(cat(clause, ":", kAlphaNames[kind]), detail);
  // the pointer overload must agree (result or exception)
  bool t1 = false, t2 = false;
  std::string r1, r2;
  try {
    r1 = phosg::base64_decode(text, phosg_alphabet(kind));
  } catch (const std::invalid_argument&) {
    t1 = true;
  }
  try {
    r2 = phosg::base64_decode(text.data(), text.size(), phosg_alphabet(kind));
  } catch (const std::invalid_argument&) {
    t2 = true;
  }
  VCHECK(t1 == t2 && r1 == r2, "decode-overloads", "string and pointer overloads disagree on '", text, "'");
  bool has_pad = text.find('=') != std::string::npos;
  bool has_invalid = false;
  for (unsigned char ch : text) has_invalid |= (ch != '=' && ref_b64_value(ch, kind == 2) < 0);
  if (has_pad || has_invalid) ctx().nontrivial_case();
  ctx().cls(ref_b64_valid(text, kind == 2) ? "b64_decode:valid" : (text.size() % 4 ? "b64_decode:bad-length" : has_invalid ? "b64_decode:invalid-character" : "b64_decode:misplaced-padding"));
}

// ---------------------------------------------------------------- rot13

static inline unsigned char ref_rot13(unsigned char ch) {
  static const char* up = "ABCDEFGHIJKLMNOPQRSTUVWXYZ";
  static const char* lo = "abcdefghijklmnopqrstuvwxyz";
  for (int i = 0; i < 26; i++) {
    if (ch == static_cast<unsigned char>(up[i])) return static_cast<unsigned char>(up[(i + 13) % 26]);
    if (ch == static_cast<unsigned char>(lo[i])) return static_cast<unsigned char>(lo[(i + 13) % 26]);
  }
  return ch;
}
static inline bool is_ascii_letter(unsigned char ch) { return (ch >= 'A' && ch <= 'Z') || (ch >= 'a' && ch <= 'z'); }

// case: s = [data]
static void run_rot13(const Case& c) {
  const std::string& data = c.str(0);
  std::string r = phosg::rot13(data.data(), data.size());
  VCHECK(r.size() == data.size(), "rot13-length", "rot13 changed the length from ", data.size(), " to ", r.size());
  bool letters = false;
  for (size_t i = 0; i < data.size(); i++) {
    unsigned char a = static_cast<unsigned char>(data[i]), b = static_cast<unsigned char>(r[i]);
    if (!is_ascii_letter(a)) VCHECK(a == b, "rot13-non-letter-changed", "byte 0x", std::hex, (int)a, " became 0x", (int)b);
    VCHECK(b == ref_rot13(a), "rot13-value", "rot13 of byte 0x", std::hex, (int)a, " is 0x", (int)b, " expected 0x", (int)ref_rot13(a));
    letters |= is_ascii_letter(a);
  }
  std::string rr = phosg::rot13(r.data(), r.size());
  VCHECK(rr == data, "rot13-involution", "rot13(rot13(x)) != x for x = ", hex(data));
  if (letters) ctx().nontrivial_case();
}

// ---------------------------------------------------------------- escapers

static inline int hexval(unsigned char ch) {
  if (ch >= '0' && ch <= '9') return ch - '0';
  if (ch >= 'a' && ch <= 'f') return ch - 'a' + 10;
  if (ch >= 'A' && ch <= 'F') return ch - 'A' + 10;
  return -1;
}
static inline bool is_unreserved(unsigned char ch) { // RFC 3986 section 2.3
  return (ch >= 'A' && ch <= 'Z') || (ch >= 'a' && ch <= 'z') || (ch >= '0' && ch <= '9') || ch == '-' || ch == '.' || ch == '_' || ch == '~';
}

// case: n = [escape_slash], s = [data]
static void run_esc_url(const Case& c) {
  bool escape_slash = c.u(0) != 0;
  const std::string& data = c.str(0);
  std::string out = phosg::escape_url(data, escape_slash);
  // (a) permitted characters only
  for (unsigned char ch : out) {
    bool ok = is_unreserved(ch) || ch == '=' || ch == '&' || ch == '%' || (!escape_slash && ch == '/');
    VCHECK(ok, "url-forbidden-character", "escape_url(", hex(data), ", ", escape_slash, ") = '", out, "' contains byte 0x", std::hex, (int)ch);
  }
  // (b) independent percent-decoder (exactly two hex digits after every '%') restores the input
  std::string back;
  std::vector<bool> literal; // per decoded byte: was it emitted literally?
  for (size_t i = 0; i < out.size(); i++) {
    unsigned char ch = static_cast<unsigned char>(out[i]);
    if (ch == '%') {
      VCHECK(i + 2 < out.size() && hexval(out[i + 1]) >= 0 && hexval(out[i + 2]) >= 0, "url-malformed-escape", "'", out, "' has a '%' not followed by two hex digits");
      back += static_cast<char>(hexval(out[i + 1]) * 16 + hexval(out[i + 2]));
      literal.push_back(false);
      i += 2;
    } else {
      back += static_cast<char>(ch);
      literal.push_back(true);
    }
  }
  VCHECK(back == data, "url-roundtrip", "unescaping '", out, "' gives ", hex(back), " instead of ", hex(data));
  // Which of the permitted characters an escaper leaves literal is its own policy (the statement asks for permitted output and an
  // exact inverse): escaping more than RFC 3986 requires - '~', '=', '&', '/' - is counted, not reported.
  bool nt = false;
  for (size_t i = 0; i < data.size(); i++) {
    unsigned char ch = static_cast<unsigned char>(data[i]);
    if (is_unreserved(ch) && !literal[i]) ctx().cls("esc_url:escapes-an-unreserved-character");
    if ((ch == '/' && !escape_slash && !literal[i]) || ((ch == '=' || ch == '&') && !literal[i])) ctx().cls("esc_url:escapes-a-permitted-delimiter");
    nt |= !literal[i];
  }
  if (nt) ctx().nontrivial_case();
}

// inverse of escape_controls, written from the C escape syntax: \" \' \\ \t \r \n \f \b \a \v and \x followed by exactly two hex digits
static bool ref_unescape_controls(const std::string& s, std::string* out, std::string* err) {
  out->clear();
  for (size_t i = 0; i < s.size(); i++) {
    char ch = s[i];
    if (ch != '\\') {
      *out += ch;
      continue;
    }
    if (i + 1 >= s.size()) {
      *err = "trailing backslash";
      return false;
    }
    char e = s[++i];
    switch (e) {
      case '"': *out += '"'; break;
      case '\'': *out += '\''; break;
      case '\\': *out += '\\'; break;
      case 't': *out += '\t'; break;
      case 'r': *out += '\r'; break;
      case 'n': *out += '\n'; break;
      case 'f': *out += '\f'; break;
      case 'b': *out += '\b'; break;
      case 'a': *out += '\a'; break;
      case 'v': *out += '\v'; break;
      case 'x':
        if (i + 2 >= s.size() || hexval(s[i + 1]) < 0 || hexval(s[i + 2]) < 0) {
          *err = "\\x not followed by two hex digits";
          return false;
        }
        *out += static_cast<char>(hexval(s[i + 1]) * 16 + hexval(s[i + 2]));
        i += 2;
        break;
      default:
        *err = cat("unknown escape \\", e);
        return false;
    }
  }
  return true;
}

// case: n = [escape_non_ascii], s = [data]
static void run_esc_controls(const Case& c) {
  bool ascii = c.u(0) != 0;
  const std::string& data = c.str(0);
  std::string out = phosg::escape_controls(data, ascii);
  bool nt = false;
  for (unsigned char ch : out) {
    bool ok = (ch >= 0x20 && ch <= 0x7E) || (!ascii && ch >= 0x80);
    VCHECK(ok, ascii ? "controls-ascii-forbidden-byte" : "controls-utf8-forbidden-byte", "escape_controls(", hex(data), ", ", ascii, ") emitted byte 0x", std::hex, (int)ch);
  }
  std::string back, err;
  VCHECK(ref_unescape_controls(out, &back, &err), "controls-malformed-escape", "'", out, "': ", err);
  VCHECK(back == data, ascii ? "controls-ascii-roundtrip" : "controls-utf8-roundtrip", "unescaping '", out, "' gives ", hex(back), " instead of ", hex(data));
  if (ascii) {
    VCHECK(phosg::escape_controls_ascii(data) == out, "controls-alias", "escape_controls_ascii differs from escape_controls(s, true)");
  } else {
    VCHECK(phosg::escape_controls_utf8(data) == out, "controls-alias", "escape_controls_utf8 differs from escape_controls(s, false)");
  }
  for (unsigned char ch : data) nt |= (ch < 0x20 || ch >= 0x7F || ch == '"' || ch == '\'' || ch == '\\');
  if (nt) ctx().nontrivial_case();
}

// case: s = [data]
static void run_esc_quotes(const Case& c) {
  const std::string& data = c.str(0);
  std::string out = phosg::escape_quotes(data);
  bool nt = false, has_backslash = false;
  for (size_t i = 0; i < out.size(); i++) {
    unsigned char ch = static_cast<unsigned char>(out[i]);
    VCHECK(ch >= 0x20 && ch <= 0x7E, "quotes-non-printable", "escape_quotes(", hex(data), ") emitted byte 0x", std::hex, (int)ch);
    if (ch == '"') VCHECK(i > 0 && out[i - 1] == '\\', "quotes-raw-quote", "escape_quotes(", hex(data), ") = '", out, "' has an unescaped quote at ", i);
  }
  for (unsigned char ch : data) {
    nt |= (ch < 0x20 || ch > 0x7E || ch == '"');
    has_backslash |= (ch == '\\');
  }
  if (!has_backslash) {
    // without backslashes in the input the output is uniquely decodable: \" and \xHH only
    std::string back;
    bool ok = true;
    for (size_t i = 0; i < out.size() && ok; i++) {
      if (out[i] != '\\') {
        back += out[i];
      } else if (i + 1 < out.size() && out[i + 1] == '"') {
        back += '"';
        i += 1;
      } else if (i + 3 < out.size() && out[i + 1] == 'x' && hexval(out[i + 2]) >= 0 && hexval(out[i + 3]) >= 0) {
        back += static_cast<char>(hexval(out[i + 2]) * 16 + hexval(out[i + 3]));
        i += 3;
      } else {
        ok = false;
      }
    }
    // (the statement promises of the quote escaper only "no raw quote or non-printable byte"; which escape spelling it uses - \\xHH,
    // \\n, \\t ... - and hence whether this two-form reader decodes it, is counted, not judged)
    ctx().cls((ok && back == data) ? "esc_quotes:decoded back by the \\\" / \\xHH reader" : "esc_quotes:uses other escape spellings");
  }
  if (nt) ctx().nontrivial_case();
}

// The same clauses as run_esc_url / run_esc_controls / run_esc_quotes, as plain predicates for the hot loops of the 3-byte
// enumeration (no Case, no message); a string that fails is handed to the full oracle, which names the clause.
static bool esc_url_holds(const std::string& data, bool escape_slash) {
  std::string out = phosg::escape_url(data, escape_slash);
  size_t k = 0;
  for (size_t i = 0; i < out.size(); i++, k++) {
    unsigned char ch = static_cast<unsigned char>(out[i]);
    if (k >= data.size()) return false;
    unsigned char in = static_cast<unsigned char>(data[k]);
    bool literal = ch != '%';
    if (!(is_unreserved(ch) || ch == '=' || ch == '&' || ch == '%' || (!escape_slash && ch == '/'))) return false;
    if (!literal) {
      if (!(i + 2 < out.size() && hexval(out[i + 1]) >= 0 && hexval(out[i + 2]) >= 0)) return false;
      ch = static_cast<unsigned char>(hexval(out[i + 1]) * 16 + hexval(out[i + 2]));
      i += 2;
    }
    if (ch != in) return false;
  }
  return k == data.size();
}
static bool esc_controls_holds(const std::string& data, bool ascii) {
  std::string out = phosg::escape_controls(data, ascii);
  for (unsigned char ch : out)
    if (!((ch >= 0x20 && ch <= 0x7E) || (!ascii && ch >= 0x80))) return false;
  std::string back, err;
  if (!ref_unescape_controls(out, &back, &err) || back != data) return false;
  return (ascii ? phosg::escape_controls_ascii(data) : phosg::escape_controls_utf8(data)) == out;
}
static bool esc_quotes_holds(const std::string& data) {
  std::string out = phosg::escape_quotes(data);
  bool has_backslash = data.find('\\') != std::string::npos;
  std::string back;
  for (size_t i = 0; i < out.size(); i++) {
    unsigned char ch = static_cast<unsigned char>(out[i]);
    if (!(ch >= 0x20 && ch <= 0x7E)) return false;
    if (ch == '"' && !(i > 0 && out[i - 1] == '\\')) return false;
    if (has_backslash) continue;
    if (ch != '\\') back += out[i];
    else if (i + 1 < out.size() && out[i + 1] == '"') {
      back += '"';
      i += 1;
    } else if (i + 3 < out.size() && out[i + 1] == 'x' && hexval(out[i + 2]) >= 0 && hexval(out[i + 3]) >= 0) {
      back += static_cast<char>(hexval(out[i + 2]) * 16 + hexval(out[i + 3]));
      i += 3;
    } else has_backslash = true; // another escape spelling: the round trip through this two-form reader is not judged
  }
  return true;
}

// ---------------------------------------------------------------- netloc

static std::string ref_decimal(uint64_t v) {
  if (v == 0) return "0";
  std::string r;
  while (v) {
    r.insert(r.begin(), static_cast<char>('0' + v % 10));
    v /= 10;
  }
  return r;
}

static void check_netloc_pair(const std::string& host, uint64_t port, uint64_t dflt);
// case: n = [port, default_port], s = [host]  (host non-empty, colon-free)
static void run_netloc(const Case& c) {
  uint64_t port = c.u(0), dflt = c.u(1);
  const std::string& host = c.str(0);
  check_netloc_pair(host, port, dflt);
  if (port != 0) ctx().nontrivial_case();
}
static void check_netloc_pair(const std::string& host, uint64_t port, uint64_t dflt) {
  if (host.empty() || host.find(':') != std::string::npos || port > 65535 || dflt > 65535) throw std::logic_error("netloc case outside the domain");
  std::string text = phosg::render_netloc(host, static_cast<int>(port));
  std::string expected_text = port ? host + ":" + ref_decimal(port) : host;
  // the statement promises the round trip, not the spelling: "host" or "host:0" for port 0 are both fine (counted)
  if (text != expected_text) ctx().cls("netloc:rendering differs from host[:port]");
  auto back = phosg::parse_netloc(text, static_cast<int>(dflt));
  uint64_t want_port = port ? port : dflt;
  if (port == 0 && back.second == 0) want_port = 0; // a port 0 that is written out parses back as 0 rather than as the default
  VCHECK(back.first == host, "netloc-host", "parse_netloc('", text, "').first = ", hex(back.first), " expected ", hex(host));
  VCHECK(back.second == want_port, "netloc-port", "parse_netloc('", text, "', ", dflt, ").second = ", back.second, " expected ", want_port);
}

// Feedback: the texts render_netloc ITSELF emits - in particular for the degenerate inputs outside the round-trip domain
// (empty host with any port, where it prints a placeholder or the bare port) - are non-empty strings like any other and are
// legitimate hosts once they are colon-free. The host of the pair under test is derived from a first rendering:
// case: n = [port, default_port, first-stage port, derivation, a, b], s = [first-stage host (may be empty, colon-free)]
//   derivation 0 the rendering up to its first colon, 1 the part after the first colon, 2 the rendering with colons replaced by ';',
//   3 the substring [a, a+b) of (2), 4 (2) with byte a replaced by the byte b, 5 (2) with the byte b inserted at a,
//   6 (2) in upper case, 7 (2) twice; an empty result falls back to (2).
static std::string feedback_host(const Case& c) {
  uint64_t port1 = c.u(2), how = c.u(3), a = c.u(4), b = c.u(5);
  const std::string& host1 = c.str(0);
  if (host1.find(':') != std::string::npos || port1 > 65535 || how > 7) throw std::logic_error("netloc_fb case outside the domain");
  std::string text = phosg::render_netloc(host1, static_cast<int>(port1));
  std::string whole = text;
  for (auto& ch : whole)
    if (ch == ':') ch = ';';
  if (whole.empty()) whole = "h"; // what the first stage prints for a degenerate input is not a clause of C11
  size_t colon = text.find(':');
  std::string h;
  switch (how) {
    case 0: h = text.substr(0, colon); break;
    case 1: h = colon == std::string::npos ? "" : text.substr(colon + 1); break;
    case 2: h = whole; break;
    case 3: h = whole.substr(a % whole.size(), 1 + b % whole.size()); break;
    case 4:
      h = whole;
      h[a % h.size()] = static_cast<char>(b);
      break;
    case 5:
      h = whole;
      h.insert(h.begin() + (a % (h.size() + 1)), static_cast<char>(b));
      break;
    case 6:
      h = whole;
      for (auto& ch : h)
        if (ch >= 'a' && ch <= 'z') ch = static_cast<char>(ch - 32);
      break;
    default: h = whole + whole;
  }
  for (auto& ch : h)
    if (ch == ':') ch = ';';
  return h.empty() ? whole : h;
}
static void run_netloc_fb(const Case& c) {
  std::string host = feedback_host(c);
  check_netloc_pair(host, c.u(0), c.u(1));
  ctx().cls(c.str(0).empty() ? (c.u(2) ? "netloc_fb:host from the rendering of (empty host, port)" : "netloc_fb:host from the rendering of (empty host, 0)") : "netloc_fb:host from the rendering of a regular pair");
  if (c.str(0).empty()) ctx().nontrivial_case();
}

// ---------------------------------------------------------------- (pointer, size) overloads on sub-ranges at every misalignment
//
// base64_encode / base64_decode / rot13 take (pointer, size): the range is whatever the caller says - a slice of a larger buffer,
// at any address, of any length including 0 - and nothing outside it may be read or influence the result. A std::string's data()
// is always aligned to the allocator's granularity and followed by a terminator, which hides both. Every case is run twice:
//   (a) the range is a slice [mis, mis+size) of a larger buffer filled with letters / alphabet characters on both sides (a
//       result that depends on the neighbours - too long, or converted beyond the range - fails a value clause), and
//   (b) the range is placed at misalignment `mis` (0..15) inside an exactly sized heap block (ASan sees any read past the end).
// case: n = [mis, alphabet kind, surround pattern], s = [data]
struct Placed {
  std::vector<char> block;
  const char* p;
  size_t n;
  Placed(const std::string& d, size_t mis) : block(d.size() + mis), p(block.data() + mis), n(d.size()) {
    for (size_t k = 0; k < mis; k++) block[k] = static_cast<char>('A' + k);
    if (n) memcpy(block.data() + mis, d.data(), n);
  }
};
static void placed_clauses(const char* where, const char* p, size_t n, const std::string& data, uint64_t kind) {
  bool urlsafe = (kind == 2);
  const char* alpha = phosg_alphabet(kind);
  std::string r = phosg::rot13(p, n);
  VCHECK(r.size() == n, cat("placed:rot13-length:", where), "rot13(ptr, ", n, ") returned ", r.size(), " bytes (", hex(r, 80), ") for the ", n, "-byte range ", hex(data, 80), " [", where, "]");
  for (size_t i = 0; i < n; i++)
    VCHECK(static_cast<unsigned char>(r[i]) == ref_rot13(static_cast<unsigned char>(data[i])), cat("placed:rot13-value:", where), "rot13(ptr, ", n, ") byte ", i, " is 0x", std::hex, (int)(unsigned char)r[i], " for input byte 0x", (int)(unsigned char)data[i], std::dec, " [", where, "]");
  std::string enc = phosg::base64_encode(p, n, alpha);
  std::string ref = ref_b64_encode(data, urlsafe);
  VCHECK(enc == ref, cat("placed:encode-value:", where), "base64_encode(ptr, ", n, ") = '", enc, "' expected '", ref, "' for the range ", hex(data, 80), " [", where, "]");
  // the range taken as a base64 TEXT: result or invalid_argument by the rule of the statement
  bool valid = ref_b64_valid(data, urlsafe), threw = false;
  std::string dec;
  try {
    dec = phosg::base64_decode(p, n, alpha);
  } catch (const std::invalid_argument&) {
    threw = true;
  }
  if (valid && threw && ref_b64_noncanonical(data, urlsafe)) return; // (refusing a non-canonical text is left open, see ref_b64_noncanonical)
  VCHECK(threw == !valid, cat(valid ? "placed:rejects-valid:" : "placed:accepts-invalid:", where), "base64_decode(ptr, ", n, ") of the range '", data, "' ", threw ? "threw" : "returned", " [", where, "]");
  if (valid) VCHECK(dec == ref_b64_decode(data, urlsafe), cat("placed:decode-value:", where), "base64_decode(ptr, ", n, ") of the range '", data, "' = ", hex(dec, 80), " [", where, "]");
}
static void run_placed(const Case& c) {
  uint64_t mis = c.u(0), kind = c.u(1), pattern = c.u(2);
  const std::string& data = c.str(0);
  if (mis > 15 || kind > 2 || pattern > 2) throw std::logic_error("C11: placed case outside the domain");
  // (a) slice of a larger buffer: `mis` bytes before, 24 after, all of them letters (rot13 would convert them) that are also alphabet characters
  {
    static const char* fill[3] = {"NOPQRSTUVWXYZabcdefghijklm", "AAAAAAAAAAAAAAAAAAAAAAAAAA", "zyxwvutsrqponmlkjihgfedcba"};
    std::string big(mis + data.size() + 24, 'A');
    for (size_t k = 0; k < big.size(); k++) big[k] = fill[pattern][k % 26];
    if (!data.empty()) memcpy(&big[mis], data.data(), data.size());
    placed_clauses("slice-of-a-larger-buffer", big.data() + mis, data.size(), data, kind);
  }
  // (b) exactly sized heap block
  Placed pl(data, mis);
  placed_clauses("exactly-sized-heap-block", pl.p, pl.n, data, kind);
  // a valid encoding placed the same way decodes back
  std::string enc = ref_b64_encode(data, kind == 2);
  Placed pe(enc, mis);
  std::string back;
  try {
    back = phosg::base64_decode(pe.p, pe.n, phosg_alphabet(kind));
  } catch (const std::exception& e) {
    VFAIL("placed:roundtrip-throws", "base64_decode(ptr, ", pe.n, ") of the valid encoding '", enc, "' at misalignment ", mis, " threw ", typeid(e).name(), ": ", e.what());
  }
  VCHECK(back == data, "placed:roundtrip-value", "base64_decode(ptr, ", pe.n, ") of '", enc, "' at misalignment ", mis, " = ", hex(back, 80), " expected ", hex(data, 80));
  bool letters = false;
  for (unsigned char ch : data) letters |= is_ascii_letter(ch);
  if (letters && (mis & 7)) ctx().nontrivial_case();
  ctx().cls(cat("placed:size", data.size() == 0 ? "=0" : data.size() < 8 ? "<8" : data.size() <= 24 ? "<=24" : ">24", (mis & 7) ? ":misaligned" : ":8-aligned"));
}
static std::string from_alphabet(const std::string& alphabet, size_t len);
static std::string gen_data(size_t max);
static Case gen_placed() {
  size_t len = vg::chance(3, 4) ? vg::below(25) : vg::scaled(300);
  std::string d;
  switch (vg::below(4)) {
    case 0: d = from_alphabet("AMNZamnz@[`{ \x80\xc1\xe1", len); break;
    case 1: d = from_alphabet("ABCDwxyz0189+/-_", len - len % 4); break; // a valid base64 text (for two of the alphabets at least)
    case 2: d = from_alphabet("AQgz09+/-_==*", len); break;
    default: d = gen_data(len + 1).substr(0, len); break;
  }
  return Case("placed").N(vg::below(16)).N(vg::below(3)).N(vg::below(3)).S(d);
}
static void enum_placed(Enum& e) {
  uint64_t idx = 0;
  // every misalignment 0..15 x every size 0..40 x four contents x the default and the URL-safe alphabet
  static const std::string contents[4] = {"nopqrstuvwxyzABCDEFGHIJKLMnopqrstuvwxyzABCDEFGHIJKLM", "AAAAAAAAAAAAAAAAAAAAAAAAAAAAAAAAAAAAAAAAAAAAAAAAAAAAA", "Zm9vYmFyZm9vYmFyZm9vYmFyZm9vYmFyZm9vYmFyZm9vYmFyZm9v",
      std::string("a\x00Z\xff=m*N\x80z-A_n/M+ \n~a\x00Z\xff=m*N\x80z-A_n/M+ \n~a\x00Z\xff=m*N\x80z-A_n/M+ \n~", 60)};
  for (uint64_t mis = 0; mis < 16 && !e.stop; mis++)
    for (size_t size = 0; size <= 40 && !e.stop; size++, idx++) {
      if (!e.mine(idx)) continue;
      for (const auto& cts : contents)
        for (uint64_t kind : {0, 2}) e.exec(Case("placed").N(mis).N(kind).N((mis + size) % 3).S(cts.substr(0, size)));
    }
  e.complete("(pointer, size) overloads of rot13 / base64_encode / base64_decode on ranges of every size 0..40 at every misalignment 0..15, as a slice of a larger buffer and in an exactly sized heap block: four contents (letters, one letter, a valid base64 text, mixed bytes) x default and URL-safe alphabet");
}

// ---------------------------------------------------------------- ambient process state
//
// The functions of this property are functions of their arguments: the process-wide locale (a std::ostringstream takes on the global
// C++ locale, whose numpunct facet groups digits; isalnum/isprint follow the C locale) and errno are not among them. Everything phosg
// returns for one input is collected while an ambient state of c11/ambient.hh is in force (nothing of the harness formats text
// meanwhile) and compared afterwards: base64 / rot13 / netloc with the references of this file, the escapers with the call under
// untouched state, which first goes through the complete single-state oracle above.
// case: n = [ambient mode 1..3, port, default port], s = [data, host (non-empty, colon-free)]
struct Collected {
  std::string enc[3], dec[3], text_dec[3], rot, url[2], ctl[2], quo, netloc, parsed_host;
  int text_threw[3] = {0, 0, 0}; // 0 returned, 1 invalid_argument, 2 something else
  uint64_t parsed_port = 0;
  std::string unexpected;
};
static Collected collect_all(const std::string& data, const std::string& host, int port, int dflt, uint64_t ambient) {
  Collected r;
  c11::Ambient guard(ambient);
  try {
    for (uint64_t k = 0; k < 3; k++) {
      r.enc[k] = phosg::base64_encode(data, phosg_alphabet(k));
      r.dec[k] = phosg::base64_decode(r.enc[k], phosg_alphabet(k));
      try {
        r.text_dec[k] = phosg::base64_decode(data, phosg_alphabet(k));
      } catch (const std::invalid_argument&) {
        r.text_threw[k] = 1;
      } catch (const std::exception&) {
        r.text_threw[k] = 2;
      }
    }
    r.rot = phosg::rot13(data.data(), data.size());
    for (int k = 0; k < 2; k++) {
      r.url[k] = phosg::escape_url(data, k == 1);
      r.ctl[k] = phosg::escape_controls(data, k == 1);
    }
    r.quo = phosg::escape_quotes(data);
    r.netloc = phosg::render_netloc(host, port);
    auto back = phosg::parse_netloc(r.netloc, dflt);
    r.parsed_host = back.first;
    r.parsed_port = back.second;
  } catch (const std::exception& e) {
    r.unexpected = std::string(typeid(e).name()) + ": " + e.what();
  }
  return r;
}
static void run_ambient(const Case& c) {
  uint64_t mode = c.u(0), port = c.u(1), dflt = c.u(2);
  const std::string& data = c.str(0);
  const std::string& host = c.str(1);
  if (mode < 1 || mode >= c11::kAmbientModes || port > 65535 || dflt > 65535 || host.empty() || host.find(':') != std::string::npos) throw std::logic_error("C11: ambient case outside the domain");
  const char* mname = c11::kAmbientNames[mode];
  // untouched state first: the complete oracle (a defect that does not depend on the ambient state keeps its plain signature)
  for (uint64_t k = 0; k < 3; k++) run_b64_round(Case("b64_round").N(k).S(data));
  run_rot13(Case("rot13").S(data));
  for (uint64_t k = 0; k < 2; k++) {
    run_esc_url(Case("esc_url").N(k).S(data));
    run_esc_controls(Case("esc_controls").N(k).S(data));
  }
  run_esc_quotes(Case("esc_quotes").S(data));
  check_netloc_pair(host, port, dflt);
  Collected plain = collect_all(data, host, static_cast<int>(port), static_cast<int>(dflt), 0);
  Collected amb = collect_all(data, host, static_cast<int>(port), static_cast<int>(dflt), mode);
  VCHECK(plain.unexpected.empty(), "unexpected-exception", plain.unexpected);
  VCHECK(amb.unexpected.empty(), cat("ambient:unexpected-exception:", mname), "with ambient state ", mname, ": ", amb.unexpected);
  auto same = [&](const char* fn, const std::string& got, const std::string& want) {
    VCHECK(got == want, cat("ambient:", fn, ":", mname), fn, " returned ", hex(got, 120), " (", got.size(), " bytes) with ambient state ", mname, "; expected ", hex(want, 120), " (", want.size(), " bytes)");
  };
  for (uint64_t k = 0; k < 3; k++) {
    same("base64_encode", amb.enc[k], ref_b64_encode(data, k == 2));
    same("base64_decode", amb.dec[k], data);
    bool valid = ref_b64_valid(data, k == 2);
    if (valid && amb.text_threw[k] == 1 && ref_b64_noncanonical(data, k == 2)) continue; // refusing a non-canonical text is left open
    VCHECK(amb.text_threw[k] == (valid ? 0 : 1), cat("ambient:base64_decode-strictness:", mname), "base64_decode of the text ", hex(data, 120), " (", valid ? "valid" : "invalid", ") ",
        amb.text_threw[k] == 0 ? "returned" : amb.text_threw[k] == 1 ? "threw invalid_argument" : "threw another exception", " with ambient state ", mname);
    if (valid) same("base64_decode", amb.text_dec[k], ref_b64_decode(data, k == 2));
  }
  std::string rot = data;
  for (auto& ch : rot) ch = static_cast<char>(ref_rot13(static_cast<unsigned char>(ch)));
  same("rot13", amb.rot, rot);
  for (int k = 0; k < 2; k++) {
    same("escape_url", amb.url[k], plain.url[k]);
    same("escape_controls", amb.ctl[k], plain.ctl[k]);
  }
  same("escape_quotes", amb.quo, plain.quo);
  // (the spelling of a rendered pair is the library's: compared with the untouched-state call, which went through the round-trip oracle)
  same("render_netloc", amb.netloc, plain.netloc);
  same("parse_netloc-host", amb.parsed_host, host);
  VCHECK(amb.parsed_port == (port ? port : dflt) || (port == 0 && amb.parsed_port == plain.parsed_port), cat("ambient:parse_netloc-port:", mname), "parse_netloc('", amb.netloc, "', ", dflt, ").second = ", amb.parsed_port, " with ambient state ", mname, "; expected ", port ? port : dflt);
  if (port >= 1000) ctx().nontrivial_case();
  ctx().cls(cat("ambient:", mname));
  ctx().cls(port == 0 ? "ambient:port=0" : port < 1000 ? "ambient:port<1000" : "ambient:port>=1000");
}
static Case gen_netloc();
static uint64_t gen_port();
static Case gen_ambient() {
  std::string host = gen_netloc().str(0);
  if (host.size() > 60) host.resize(60);
  return Case("ambient").N(1 + vg::below(c11::kAmbientModes - 1)).N(gen_port()).N(vg::coin() ? 0 : vg::below(65536)).S(gen_data(vg::chance(3, 4) ? 64 : 600)).S(host);
}
static const uint64_t kPortClasses[] = {0, 1, 9, 10, 80, 443, 999, 1000, 8080, 9999, 10000, 12345, 32768, 65535};
static void enum_ambient(Enum& e) {
  uint64_t idx = 0;
  static const std::vector<std::string> datas = {"", "Hello, World 1234567.5", std::string("\x00\xff 1000000 \"q\" 100% a/b?c=d&e~\n\t\x7f\xc3\xa9", 36), "QUJDRA==", "12345678"};
  for (uint64_t mode = 1; mode < c11::kAmbientModes; mode++)
    for (uint64_t port : kPortClasses)
      for (const char* host : {"a", "localhost", "10.0.0.1", "1000000"})
        for (const auto& d : datas) {
          if (e.stop) break;
          if (e.mine(idx++)) e.exec(Case("ambient").N(mode).N(port).N(port % 3 ? 8080 : 0).S(d).S(host));
        }
  e.complete("every function of the property under 3 ambient states (global C++ locale grouping digits by 3 / by 1-2 with errno set, C.UTF-8 C locale with errno set) x 14 port classes x 4 hosts x 5 texts");
}

// ---------------------------------------------------------------- concurrent callers
//
// Every function of this property is a pure function of its arguments: calls running at the same time on different
// inputs must each return the result for their own input (a shared scratch buffer or lazily built table would make
// callers corrupt each other while every single-threaded call stays right). Each thread owns one input; the expected
// results are fixed before the threads start - from the references of this file for base64 / rot13 / netloc, and for
// the escapers (whose exact spelling the property leaves open) from a single-threaded call that has first been put
// through the complete single-threaded oracle (permitted characters + independent unescaper) above.
// n = [threads, len, seed, reps, pattern]
static std::string concurrent_input(uint64_t pattern, uint64_t seed, uint64_t t, uint64_t len) {
  std::string d = vg::expand(seed + t * 7919, len);
  switch (pattern) {
    case 0: break; // uniform bytes
    case 1: { // the special-character alphabet of gen_data
      static const char raw[] = "\x00\xff\x7f\x80 aZ~/+-_=&%\"'\\\n\t\x1f\x7e";
      static const std::string alpha(raw, sizeof(raw) - 1);
      for (auto& ch : d) ch = alpha[static_cast<unsigned char>(ch) % alpha.size()];
      break;
    }
    default: { // a few byte values of the thread's own (so that a result belonging to another thread cannot pass for this one's)
      unsigned base = static_cast<unsigned>((seed >> 8) + 41 * t);
      for (size_t i = 0; i < d.size(); i++) d[i] = static_cast<char>((base + (static_cast<unsigned char>(d[i]) % 3) * 64) & 0xFF);
      break;
    }
  }
  return d;
}
static void run_concurrent(const Case& c) {
  uint64_t threads = c.u(0), len = c.u(1), seed = c.u(2), reps = c.u(3), pattern = c.u(4);
  if (threads < 2 || threads > 8 || len > (1 << 14) || reps > 2000 || pattern > 2) throw std::logic_error("C11: concurrent case outside the domain");
  struct Job {
    std::string data, host;
    int port = 0, dflt = 0;
    std::string b64[2], bad64[2], rot, url[2], ctl[2], quo, netloc;
    std::string failure, detail;
  };
  std::vector<Job> jobs(threads);
  for (uint64_t t = 0; t < threads; t++) {
    Job& j = jobs[t];
    j.data = concurrent_input(pattern, seed, t, len + t);
    // the single-threaded oracle on this input first (throws its own clause when the sequential result is already wrong)
    run_esc_url(Case("esc_url").N(0).S(j.data));
    run_esc_url(Case("esc_url").N(1).S(j.data));
    run_esc_controls(Case("esc_controls").N(0).S(j.data));
    run_esc_controls(Case("esc_controls").N(1).S(j.data));
    run_esc_quotes(Case("esc_quotes").S(j.data));
    for (int k = 0; k < 2; k++) {
      j.b64[k] = ref_b64_encode(j.data, k == 1);
      j.bad64[k] = j.b64[k];
      if (!j.bad64[k].empty()) j.bad64[k][(seed + t) % j.bad64[k].size()] = '*';
      else j.bad64[k] = "*";
      j.url[k] = phosg::escape_url(j.data, k == 1);
      j.ctl[k] = phosg::escape_controls(j.data, k == 1);
    }
    j.rot = j.data;
    for (auto& ch : j.rot) ch = static_cast<char>(ref_rot13(static_cast<unsigned char>(ch)));
    j.quo = phosg::escape_quotes(j.data);
    j.host = j.data.substr(0, 40);
    for (auto& ch : j.host)
      if (ch == ':') ch = ';';
    if (j.host.empty()) j.host = cat("h", t);
    j.port = static_cast<int>(1 + mix(seed, t) % 65535);
    j.dflt = static_cast<int>(mix(seed, t + 100) % 65536);
    j.netloc = j.host + ":" + ref_decimal(static_cast<uint64_t>(j.port));
  }
  std::atomic<int> ready(0);
  std::vector<std::thread> ts;
  for (uint64_t t = 0; t < threads; t++) {
    ts.emplace_back([&, t] {
      Job& j = jobs[t];
      ready.fetch_add(1);
      while (ready.load() < static_cast<int>(threads)) std::this_thread::yield();
      auto differs = [&](const char* what, const std::string& got, const std::string& want) {
        if (got == want) return false;
        j.failure = what;
        j.detail = cat("returned ", hex(got, 200), " (", got.size(), " bytes); the result for this thread's own input is ", hex(want, 200), " (", want.size(), " bytes)");
        return true;
      };
      try {
        for (uint64_t r = 0; r < reps && j.failure.empty(); r++) {
          bool bad = false;
          for (int k = 0; k < 2 && !bad; k++) {
            const char* alpha = k ? phosg::URLSAFE_ALPHABET : nullptr;
            bad = differs(k ? "base64_encode:urlsafe" : "base64_encode:default", phosg::base64_encode(j.data, alpha), j.b64[k]) ||
                differs(k ? "base64_decode:urlsafe" : "base64_decode:default", phosg::base64_decode(j.b64[k], alpha), j.data);
            if (bad) break;
            try {
              std::string got = phosg::base64_decode(j.bad64[k], alpha);
              j.failure = "base64_decode:accepts-invalid";
              j.detail = cat("base64_decode(", hex(j.bad64[k], 200), ") returned instead of throwing invalid_argument");
              bad = true;
            } catch (const std::invalid_argument&) {
            }
          }
          if (bad) break;
          if (differs("rot13", phosg::rot13(j.data.data(), j.data.size()), j.rot)) break;
          if (differs("escape_url", phosg::escape_url(j.data, false), j.url[0])) break;
          if (differs("escape_url", phosg::escape_url(j.data, true), j.url[1])) break;
          if (differs("escape_controls", phosg::escape_controls(j.data, false), j.ctl[0])) break;
          if (differs("escape_controls", phosg::escape_controls(j.data, true), j.ctl[1])) break;
          if (differs("escape_quotes", phosg::escape_quotes(j.data), j.quo)) break;
          if (differs("render_netloc", phosg::render_netloc(j.host, j.port), j.netloc)) break;
          auto back = phosg::parse_netloc(j.netloc, j.dflt);
          if (back.first != j.host || back.second != j.port) {
            j.failure = "parse_netloc";
            j.detail = cat("parse_netloc(", hex(j.netloc), ") = (", hex(back.first), ", ", back.second, ")");
            break;
          }
        }
      } catch (const std::exception& e) {
        j.failure = "unexpected-exception";
        j.detail = cat(typeid(e).name(), ": ", e.what());
      }
    });
  }
  for (auto& t : ts) t.join();
  for (uint64_t t = 0; t < threads; t++)
    VCHECK(jobs[t].failure.empty(), cat("concurrent:", jobs[t].failure), jobs[t].failure, " on a ", jobs[t].data.size(), "-byte input while ", threads - 1, " other threads were calling the same functions on other inputs ", jobs[t].detail);
  ctx().nontrivial_case();
  ctx().cls(cat("concurrent-callers:pattern=", pattern));
}
static Case gen_concurrent() {
  uint64_t len = vg::chance(3, 4) ? vg::below(64) : vg::scaled(1024);
  return Case("concurrent").N(2 + vg::below(5)).N(len).N(vg::u64()).N(len > 256 ? 10 : 100).N(vg::below(3));
}

// ---------------------------------------------------------------- generators

// Short strings are drawn byte by byte (shrinkable); long ones are expanded from one drawn seed (a draw per byte costs
// ~0.2 us under ASan and dominated the run time).
static std::string from_alphabet(const std::string& alphabet, size_t len) {
  if (len <= 48) return vg::bytes_from(alphabet, len);
  std::string r = vg::expand(vg::u64(), len);
  for (auto& ch : r) ch = alphabet[static_cast<unsigned char>(ch) % alphabet.size()];
  return r;
}
// Well-known multi-byte sequences: byte order marks, Unicode line/paragraph separators and other invisible characters,
// line endings, terminal escape sequences, overlong / invalid / boundary UTF-8, and the escape syntaxes of the functions under
// test and of their neighbours (%XX, \\x.., \\n, &amp; ...). Uniform random bytes produce any given 3-byte sequence at a given place
// once in 2^24 strings; text from the real world starts with them all the time.
static const std::vector<std::string>& dictionary() {
  static const std::vector<std::string> d = {
      "\xEF\xBB\xBF", "\xFF\xFE", "\xFE\xFF", std::string("\xFF\xFE\x00\x00", 4), std::string("\x00\x00\xFE\xFF", 4), "\x2B\x2F\x76\x38", // BOMs: UTF-8, UTF-16 LE/BE, UTF-32 LE/BE, UTF-7
      "\xE2\x80\xA8", "\xE2\x80\xA9", "\xC2\x85", "\xC2\xA0", "\xE2\x80\x8B", "\xE2\x80\x8E", "\xE2\x80\x8F", "\xE2\x80\xAE", "\xE2\x81\xA0", "\xC2\xAD", // LS, PS, NEL, NBSP, ZWSP, LRM, RLM, RLO, WJ, SHY
      "\xEF\xBF\xBD", "\xEF\xBF\xBE", "\xEF\xBF\xBF", "\xEF\xB7\x90", // U+FFFD, the non-characters U+FFFE U+FFFF U+FDD0
      "\xC0\x80", "\xC0\xAF", "\xC1\xBF", "\xE0\x80\x80", "\xE0\x9F\xBF", "\xF0\x80\x80\x80", "\xF0\x8F\xBF\xBF", // overlong encodings
      "\xED\xA0\x80", "\xED\xBF\xBF", "\xF4\x8F\xBF\xBF", "\xF4\x90\x80\x80", "\xF8\x88\x80\x80\x80", "\xC2", "\xE2\x80", "\xF0\x9F\x98", "\x80", "\xBF", // surrogates, U+10FFFF, beyond, truncated, lone continuation
      "\xC3\xA9", "\xE2\x82\xAC", "\xF0\x9F\x98\x80", "\xDF\xBF", "\xE0\xA0\x80", "\xF0\x90\x80\x80", "\x7F", // ordinary 2/3/4-byte characters and the first of each length
      "\r\n", "\n\r", "\r", "\n", std::string("\x00", 1), "\t", "\x0B", "\x0C", "\x1A", "\x07", "\x08", // line endings and controls
      "\x1B[0m", "\x1B[31;1m", "\x1B[2J", "\x1B]0;t\x07", "\x1B", "\x9B" "0m", // ANSI / OSC sequences, ESC alone, 8-bit CSI
      "%", "%%", "%0", "%00", "%20", "%2F", "%2f", "%25", "%zz", "%u00e9", "+", // percent syntax
      "\\", "\\\\", "\\x", "\\x0", "\\x00", "\\x41", "\\xZZ", "\\n", "\\\"", "\\'", "\\0", "\\u0041", "\\U0001F600", "\\e", // backslash syntax
      "\"", "'", "\"\"", "`", "&amp;", "&lt;", "&#39;", "&#x27;", "&", "&&", "=", "==", "===", "====", "?a=b&c=d", "#", "://", "//", "/", "/../", "~", // quotes, entities, URL pieces
      "A", "Zz", "AbCd", "NOPnop", "====A", // letters (rot13), padding-like
  };
  return d;
}
// 1..3 dictionary entries spliced into a string: at the start, at the end, or in the middle
static std::string splice_dictionary(std::string base) {
  const auto& d = dictionary();
  for (size_t k = 1 + vg::below(3); k > 0; k--) {
    const std::string& w = d[vg::below(d.size())];
    switch (vg::below(3)) {
      case 0: base = w + base; break;
      case 1: base += w; break;
      default: base.insert(vg::below(base.size() + 1), w);
    }
  }
  return base;
}
static std::string gen_plain_data(size_t max);
static std::string gen_data(size_t max) {
  if (vg::chance(1, 3)) {
    std::string r = splice_dictionary(vg::chance(1, 4) ? std::string() : gen_plain_data(vg::chance(3, 4) ? 24 : max));
    ctx().cls("generator:dictionary sequence spliced in");
    return r;
  }
  return gen_plain_data(max);
}
static std::string gen_plain_data(size_t max) {
  size_t len;
  switch (vg::below(4)) {
    case 0: len = vg::below(8); break;
    case 1: len = vg::below(70); break;
    default: len = vg::scaled(max); break;
  }
  switch (vg::below(3)) {
    case 0: return len <= 48 ? vg::bytes(len) : vg::expand(vg::u64(), len);
    case 1: return from_alphabet(std::string("\x00\xff\x7f\x80 aZ~/+-_=&%\"'\\\n\t\x1f\x7e", 23), len);
    default: return vg::expand(vg::u64(), len);
  }
}

static Case gen_b64_round() {
  return Case("b64_round").N(vg::below(3)).S(gen_data(2048));
}

static const std::string kB64Std = "ABCDEFGHIJKLMNOPQRSTUVWXYZabcdefghijklmnopqrstuvwxyz0123456789+/";
static const std::string kB64Url = "ABCDEFGHIJKLMNOPQRSTUVWXYZabcdefghijklmnopqrstuvwxyz0123456789-_";

static Case gen_b64_decode() {
  uint64_t kind = vg::below(3);
  const std::string& alpha = kind == 2 ? kB64Url : kB64Std;
  std::string text;
  switch (vg::below(5)) {
    case 0: { // arbitrary text over a mixed alphabet
      text = vg::bytes_from("AQgz09+/-_==*\n ", vg::below(4) == 0 ? vg::below(70) : 4 * vg::below(6));
      break;
    }
    case 4: { // a valid encoding decorated the way lenient decoders accept it: wrapped lines (MIME 76, PEM 64, ...), blanks, a trailing newline
      std::string enc = ref_b64_encode(gen_data(vg::coin() ? 300 : 1200), kind == 2);
      std::string brk = vg::pick<const char*>({"\n", "\r\n", "\r", " ", "\t", "\n\n"});
      switch (vg::below(4)) {
        case 0: {
          size_t pitch = vg::coin() ? vg::pick<size_t>({76, 64, 72, 60, 4, 8, 20, 1}) : 1 + vg::below(100);
          bool last = vg::coin();
          for (size_t i = 0; i < enc.size(); i += pitch) {
            text += enc.substr(i, pitch);
            if (i + pitch < enc.size() || last) text += brk;
          }
          break;
        }
        case 1: text = enc + brk; break;
        case 2: text = brk + enc; break;
        default: {
          text = enc;
          size_t at = enc.size() / 4 ? 4 * vg::below(enc.size() / 4 + 1) : 0;
          text.insert(at, brk);
          break;
        }
      }
      break;
    }
    case 1: { // alphabet characters with padding placed at the end (valid, possibly with non-zero trailing bits)
      size_t quads = 1 + vg::below(8);
      text = vg::bytes_from(alpha, 4 * quads);
      size_t pad = vg::below(3);
      for (size_t k = 0; k < pad; k++) text[text.size() - 1 - k] = '=';
      break;
    }
    default: { // a valid encoding, then up to three edits
      text = ref_b64_encode(gen_data(300), kind == 2);
      size_t edits = vg::below(4);
      for (size_t k = 0; k < edits; k++) {
        size_t pos = text.empty() ? 0 : vg::below(text.size());
        // bias positions towards the last quad, where the padding rules live
        if (!text.empty() && vg::coin()) pos = text.size() - 1 - vg::below(std::min<size_t>(8, text.size()));
        switch (vg::below(6)) {
          case 5: text.insert(pos, dictionary()[vg::below(dictionary().size())]); break;
          case 0:
            if (!text.empty()) text[pos] = static_cast<char>(vg::below(256));
            break;
          case 1:
            if (!text.empty()) text[pos] = '=';
            break;
          case 2:
            if (!text.empty()) text[pos] = vg::pick<char>({'+', '/', '-', '_', '*', ' ', '\n', '\0', '\x80', '\xff', '.', '~'});
            break;
          case 3: text.insert(text.begin() + pos, alpha[vg::below(64)]); break;
          default:
            if (!text.empty()) text.erase(text.begin() + pos);
            break;
        }
      }
    }
  }
  return Case("b64_decode").N(kind).S(text);
}
static Case gen_rot13() {
  if (vg::coin()) return Case("rot13").S(from_alphabet("AMNZamnz@[`{ \x80\xc1\xe1", vg::scaled(200)));
  return Case("rot13").S(gen_data(2048));
}
static Case gen_esc_url() { return Case("esc_url").N(vg::below(2)).S(gen_data(2048)); }
static Case gen_esc_controls() { return Case("esc_controls").N(vg::below(2)).S(gen_data(2048)); }
static Case gen_esc_quotes() { return Case("esc_quotes").S(gen_data(2048)); }
static Case gen_netloc() {
  size_t len = 1 + (vg::coin() ? vg::below(12) : vg::scaled(200));
  std::string host;
  switch (vg::below(3)) {
    case 0: host = from_alphabet("abcxyz0189.-", len); break;
    case 1: host = from_alphabet(std::string("a1. \x00\xff[]/@%;9", 13), len); break;
    default: host = len <= 48 ? vg::bytes(len) : vg::expand(vg::u64(), len); break;
  }
  if (vg::chance(1, 4)) {
    host = splice_dictionary(vg::coin() ? std::string() : host.substr(0, 12));
    ctx().cls("generator:dictionary sequence spliced in");
  }
  for (auto& ch : host)
    if (ch == ':') ch = ';'; // colon-free by construction
  uint64_t port;
  switch (vg::below(4)) {
    case 0: port = vg::pick<uint64_t>({0, 1, 9, 10, 80, 99, 100, 443, 999, 1000, 9999, 10000, 32767, 32768, 65534, 65535}); break;
    case 1: port = 0; break;
    default: port = vg::below(65536); break;
  }
  uint64_t dflt = vg::coin() ? 0 : vg::below(65536);
  return Case("netloc").N(port).N(dflt).S(host);
}

static uint64_t gen_port() {
  switch (vg::below(4)) {
    case 0: return vg::pick<uint64_t>({0, 1, 9, 10, 80, 99, 100, 443, 999, 1000, 9999, 10000, 32767, 32768, 65534, 65535});
    case 1: return 0;
    default: return vg::below(65536);
  }
}
static Case gen_netloc_fb() {
  // first stage: half of the time the empty host (degenerate, where render_netloc prints a placeholder or the bare port)
  std::string host1;
  if (vg::coin()) {
    host1 = gen_netloc().str(0);
    if (host1.size() > 40) host1.resize(40);
  }
  return Case("netloc_fb").N(gen_port()).N(vg::coin() ? 0 : vg::below(65536)).N(gen_port()).N(vg::below(8)).N(vg::below(64)).N(vg::chance(1, 3) ? vg::pick<uint64_t>({0, 0x20, 0x3A, 0x3C, 0x3E, 0x41, 0x61, 0x80, 0xFF}) : vg::below(256)).S(host1);
}

// ---------------------------------------------------------------- enumerators

// quick tier: which share of the 2^16 (first byte, second byte) blocks of the 3-byte enumerations of rot13 and the escapers is swept
static const unsigned kQuickStride = 4;

template <typename F>
static void for_each_dictionary_text(F&& f);

static void enum_b64_round(Enum& e) {
  uint64_t idx = 0;
  // lengths 0..2 journalled case by case for all three alphabet arguments
  for (uint64_t kind = 0; kind < 3; kind++) {
    if (e.mine(idx++)) e.exec(Case("b64_round").N(kind).S(""));
    for (int a = 0; a < 256 && !e.stop; a++) {
      if (!e.mine(idx++)) continue;
      e.exec(Case("b64_round").N(kind).S(std::string(1, static_cast<char>(a))));
      for (int b = 0; b < 256; b++) {
        std::string d;
        d += static_cast<char>(a);
        d += static_cast<char>(b);
        e.exec(Case("b64_round").N(kind).S(d));
      }
    }
  }
  // the dictionary texts for all three alphabet arguments
  for (uint64_t kind = 0; kind < 3; kind++) {
    uint64_t n = 0;
    for_each_dictionary_text([&](const std::string& t) {
      if (e.mine(idx + (n++ >> 6)) && !e.stop) e.exec(Case("b64_round").N(kind).S(t));
    });
    idx += (n >> 6) + 1;
  }
  // length 3: all 2^24 strings for the default and the URL-safe alphabet, hot loop per (first byte, second byte)
  // (quick: the URL-safe alphabet differs from the default one in two table entries only; every fourth block of it is swept)
  for (uint64_t kind : {0, 2}) {
    for (int a = 0; a < 256 && !e.stop; a++) {
      for (int b = 0; b < 256 && !e.stop; b++, idx++) {
        if (!e.mine(idx)) continue;
        if (kind == 2 && !e.thorough() && ((a + b) & 3) != 0) continue;
        std::string d(3, '\0');
        d[0] = static_cast<char>(a);
        d[1] = static_cast<char>(b);
        e.journal_block(Case("b64_round").N(kind).S(d));
        for (int k = 0; k < 256; k++) {
          d[2] = static_cast<char>(k);
          if (b64_round_check(d, kind, nullptr)) {
            e.exec_light(Case("b64_round").N(kind).S(d));
            break;
          }
        }
        e.x.count(256);
      }
    }
  }
  e.complete(cat("every byte string of length 0..3 (2^24 + 2^16 + 2^8 + 1) through base64_encode/base64_decode with the default alphabet",
      e.thorough() ? " and the URL-safe alphabet" : "; URL-safe alphabet: lengths 0..2 and one quarter of the 3-byte strings (all in thorough)",
      "; lengths 0..2 also with DEFAULT_ALPHABET passed explicitly; the dictionary texts (well-known multi-byte sequences at the start / middle / end of short texts, tripled, every ordered pair) with all three alphabet arguments"));
}

static void enum_b64_decode(Enum& e) {
  uint64_t idx = 0;
  const std::string sym = "AQ=*-/";
  // all 4-character strings over {A,Q,=,*,-,/}, journalled
  for (uint64_t kind : {0, 2}) {
    for_all_strings(sym, 4, [&](const std::string& s) {
      if (s.size() == 4 && e.mine(idx++)) e.exec(Case("b64_decode").N(kind).S(s));
      return !e.stop;
    });
  }
  // all 8-character strings over the same six symbols (6^8 = 1.68 M; quick: five symbols {A,=,*,-,/}, 5^8 = 0.39 M) for both
  // alphabets, hot loop per 4-character prefix
  const std::string sym8 = e.thorough() ? sym : std::string("A=*-/");
  for (uint64_t kind : {0, 2}) {
    for_all_strings(sym8, 4, [&](const std::string& prefix) {
      if (prefix.size() != 4) return true;
      if (!e.mine(idx++)) return true;
      e.journal_block(Case("b64_decode").N(kind).S(prefix + "AAAA"));
      uint64_t n = 0;
      for_all_strings(sym8, 4, [&](const std::string& suffix) {
        if (suffix.size() != 4) return true;
        n++;
        std::string text = prefix + suffix;
        if (b64_decode_check(text, kind, nullptr)) {
          e.exec_light(Case("b64_decode").N(kind).S(text));
          return false;
        }
        return true;
      });
      e.x.count(n);
      e.x.nontrivial(mix(0xB64D8, hash_str(prefix, kind)));
      return !e.stop;
    });
  }
  // single-character corruptions: for every data length 0..48 (encodings of 0..64 characters, all paddings), every position x all 256 byte values;
  // plus every truncation and one-character extension (all lengths mod 4)
  for (uint64_t kind : {0, 2}) {
    for (size_t len = 0; len <= 48 && !e.stop; len++, idx++) {
      if (!e.mine(idx)) continue;
      std::string data = vg::expand(0xC11 + len * 7 + kind, len);
      std::string enc = ref_b64_encode(data, kind == 2);
      e.exec(Case("b64_decode").N(kind).S(enc));
      for (size_t pos = 0; pos < enc.size(); pos++) {
        for (int v = 0; v < 256; v++) {
          std::string t = enc;
          t[pos] = static_cast<char>(v);
          e.exec(Case("b64_decode").N(kind).S(t));
        }
      }
      for (size_t cut = 0; cut < enc.size(); cut++) e.exec(Case("b64_decode").N(kind).S(enc.substr(0, cut)));
      for (char extra : {'A', '=', '*'}) e.exec(Case("b64_decode").N(kind).S(enc + extra));
    }
  }
  // what lenient decoders accept and this one must not ("any position holds a character outside the alphabet"): encodings broken into
  // lines of every pitch 1..80 by LF / CRLF / CR / blank / tab (with and without a break after the last line), a trailing or leading break
  for (uint64_t kind : {0, 2}) {
    for (size_t len : {1, 2, 3, 45, 48, 56, 57, 58, 59, 60, 114, 171, 229}) {
      if (!e.mine(idx++) || e.stop) continue;
      std::string enc = ref_b64_encode(vg::expand(0xB64 + len * 3 + kind, len), kind == 2);
      for (const char* brk : {"\n", "\r\n", "\r", " ", "\t"}) {
        e.exec(Case("b64_decode").N(kind).S(enc + brk));
        e.exec(Case("b64_decode").N(kind).S(brk + enc));
        for (size_t pitch = 1; pitch <= 80; pitch++) {
          if (pitch >= enc.size()) break;
          for (int last = 0; last < 2; last++) {
            std::string t;
            for (size_t i = 0; i < enc.size(); i += pitch) {
              t += enc.substr(i, pitch);
              if (i + pitch < enc.size() || last) t += brk;
            }
            e.exec(Case("b64_decode").N(kind).S(t));
          }
        }
      }
    }
  }
  e.complete(cat("all 4-character texts over {A,Q,=,*,-,/} and all 8-character texts over ", e.thorough() ? "{A,Q,=,*,-,/}" : "{A,=,*,-,/}", " for both alphabets") + "; every single-character substitution (256 values x every position), every truncation and one-character extension of valid encodings of 0..48 bytes; encodings of 13 lengths up to 229 bytes wrapped at every pitch 1..80 with LF / CRLF / CR / blank / tab, or with one of them in front or behind");
}

// dictionary sequences at the start, in the middle and at the end of short texts, doubled, and every ordered pair of them
template <typename F>
static void for_each_dictionary_text(F&& f) {
  const auto& d = dictionary();
  static const std::vector<std::string> bases = {"", "a", "ab", "x\ny", "\xC3\xA9t\xC3\xA9 100%", std::string("\x00\xFF", 2)};
  for (const auto& w : d) {
    for (const auto& b : bases) {
      f(w + b);
      if (!b.empty()) f(b + w);
      if (b.size() >= 2) f(b.substr(0, b.size() / 2) + w + b.substr(b.size() / 2));
    }
    f(w + w + w);
  }
  for (const auto& w1 : d)
    for (const auto& w2 : d) f(w1 + w2);
}

// every byte string of length 0..2 (journalled case by case), the dictionary texts, and every byte string of length 3 (hot loop per
// (first byte, second byte) block through `holds`; quick tier: the blocks with (first + second byte) % quick_stride == 0)
static void enum_bytes_pairs(Enum& e, const char* check, std::vector<uint64_t> flags, const std::string& what, std::function<bool(const std::string&, uint64_t)> holds, unsigned quick_stride) {
  uint64_t idx = 0;
  for (uint64_t f : flags) {
    auto mk = [&](const std::string& d) {
      Case c(check);
      if (flags.size() > 1 || flags[0] != 99) c.N(f);
      c.S(d);
      return c;
    };
    if (e.mine(idx++)) e.exec(mk(""));
    for (int a = 0; a < 256 && !e.stop; a++) {
      if (!e.mine(idx++)) continue;
      e.exec(mk(std::string(1, static_cast<char>(a))));
      for (int b = 0; b < 256; b++) {
        std::string d;
        d += static_cast<char>(a);
        d += static_cast<char>(b);
        e.exec(mk(d));
      }
    }
    uint64_t n = 0;
    for_each_dictionary_text([&](const std::string& t) {
      if (e.mine(idx + (n++ >> 6)) && !e.stop) e.exec(mk(t));
    });
    idx += (n >> 6) + 1;
    unsigned stride = e.thorough() ? 1 : quick_stride;
    for (int a = 0; a < 256 && !e.stop; a++) {
      for (int b = 0; b < 256 && !e.stop; b++, idx++) {
        if (!e.mine(idx)) continue;
        if (stride > 1 && ((a + b) % stride) != 0) continue;
        std::string d(3, '\0');
        d[0] = static_cast<char>(a);
        d[1] = static_cast<char>(b);
        e.journal_block(mk(d));
        for (int k = 0; k < 256; k++) {
          d[2] = static_cast<char>(k);
          if (!holds(d, f)) {
            e.exec_light(mk(d));
            break;
          }
        }
        e.x.count(256);
        e.x.nontrivial(mix(hash_str(check, f), static_cast<uint64_t>(a) << 8 | static_cast<uint64_t>(b)));
      }
    }
  }
  e.complete(cat(what, "; ", dictionary().size(), " well-known multi-byte sequences (byte order marks, invisible and separator characters, overlong/invalid UTF-8, terminal sequences, "
      "escape syntaxes) at the start / middle / end of six short texts, tripled, and every ordered pair of them; every byte string of length 3",
      e.thorough() || quick_stride == 1 ? "" : cat(" whose first two bytes sum to a multiple of ", quick_stride, " (all of them in the thorough tier)")));
}
static void enum_rot13(Enum& e) {
  enum_bytes_pairs(e, "rot13", {99}, "every byte string of length 0..2", [](const std::string& d, uint64_t) {
    std::string r = phosg::rot13(d.data(), d.size());
    if (r.size() != d.size()) return false;
    for (size_t i = 0; i < d.size(); i++)
      if (static_cast<unsigned char>(r[i]) != ref_rot13(static_cast<unsigned char>(d[i]))) return false;
    return phosg::rot13(r.data(), r.size()) == d; }, kQuickStride);
}
static void enum_esc_url(Enum& e) {
  enum_bytes_pairs(e, "esc_url", {0, 1}, "every byte string of length 0..2 x escape_slash in {false,true}", [](const std::string& d, uint64_t f) { return esc_url_holds(d, f != 0); }, kQuickStride);
}
static void enum_esc_controls(Enum& e) {
  enum_bytes_pairs(e, "esc_controls", {0, 1}, "every byte string of length 0..2 x escape_non_ascii in {false,true}", [](const std::string& d, uint64_t f) { return esc_controls_holds(d, f != 0); }, kQuickStride);
}
static void enum_esc_quotes(Enum& e) {
  enum_bytes_pairs(e, "esc_quotes", {99}, "every byte string of length 0..2", [](const std::string& d, uint64_t) { return esc_quotes_holds(d); }, kQuickStride);
}

static void enum_netloc(Enum& e) {
  uint64_t idx = 0;
  std::vector<std::string> hosts = {"a", "localhost", "127.0.0.1", std::string("\x00\xff", 2), "[", "h h", "65535", "x.example.com"};
  for (const auto& h : hosts)
    for (uint64_t port = 0; port < 65536 && !e.stop; port++)
      if (e.mine(idx++)) e.exec(Case("netloc").N(port).N(port % 3 == 0 ? 0 : (port * 7 + 1) % 65536).S(h));
  // the dictionary texts as hosts (colons replaced), with every port class
  uint64_t n = 0;
  for_each_dictionary_text([&](const std::string& t) {
    if (!e.mine(idx + (n++ >> 6)) || e.stop || t.empty()) return;
    std::string h = t;
    for (auto& ch : h)
      if (ch == ':') ch = ';';
    for (uint64_t port : {0, 1, 80, 65535}) e.exec(Case("netloc").N(port).N(port == 80 ? 0 : 8080).S(h));
  });
  e.complete(cat("ports 0..65535 for eight hosts (plain names, dotted quad, bytes 0x00/0xFF, punctuation, all-digit host); ", dictionary().size(),
      " well-known multi-byte sequences (alone, inside short texts, tripled, in ordered pairs) as hosts x ports {0,1,80,65535}"));
}

static const uint64_t kFbPortClasses[] = {0, 1, 9, 10, 80, 443, 8080, 9999, 10000, 65535};
static void enum_netloc_fb(Enum& e) {
  uint64_t idx = 0;
  // first stage: the empty host and three regular hosts x every port class; every derivation; second stage: every port class x two defaults
  for (const char* host1 : {"", "a", "localhost", "h;x"})
    for (uint64_t port1 : kFbPortClasses)
      for (uint64_t how = 0; how < 8 && !e.stop; how++, idx++) {
        if (!e.mine(idx)) continue;
        for (uint64_t port : kFbPortClasses)
          for (uint64_t dflt : {0, 8080}) {
            if (how >= 3 && how <= 5) {
              for (uint64_t a = 0; a < 10; a++)
                for (uint64_t b : {0, 1, 2, 0x20, 0x3A, 0x3C, 0x3E, 0x41, 0x80, 0xFF}) e.exec(Case("netloc_fb").N(port).N(dflt).N(port1).N(how).N(a).N(b).S(host1));
            } else {
              e.exec(Case("netloc_fb").N(port).N(dflt).N(port1).N(how).N(0).N(0).S(host1));
            }
          }
      }
  e.complete("hosts derived from what render_netloc prints for (empty host | 3 regular hosts) x 10 port classes: 8 derivations (part before / after the colon, whole, "
             "substrings, one byte replaced / inserted, upper case, doubled) x 10 port classes x default port {0, 8080}");
}

int main(int argc, char** argv) {
  std::vector<SubCheck> checks;
  checks.push_back({"b64_decode", run_b64_decode, gen_b64_decode, 100000, 1500000, 100, enum_b64_decode});
  checks.push_back({"b64_round", run_b64_round, gen_b64_round, 60000, 600000, 100, enum_b64_round});
  checks.push_back({"rot13", run_rot13, gen_rot13, 40000, 400000, 100, enum_rot13});
  checks.push_back({"esc_url", run_esc_url, gen_esc_url, 40000, 400000, 100, enum_esc_url});
  checks.push_back({"esc_controls", run_esc_controls, gen_esc_controls, 40000, 400000, 100, enum_esc_controls});
  checks.push_back({"esc_quotes", run_esc_quotes, gen_esc_quotes, 40000, 400000, 100, enum_esc_quotes});
  checks.push_back({"netloc", run_netloc, gen_netloc, 60000, 600000, 100, enum_netloc});
  checks.push_back({"netloc_fb", run_netloc_fb, gen_netloc_fb, 40000, 400000, 100, enum_netloc_fb});
  checks.push_back({"placed", run_placed, gen_placed, 40000, 400000, 100, enum_placed});
  checks.push_back({"ambient", run_ambient, gen_ambient, 6000, 60000, 100, enum_ambient});
  checks.push_back({"concurrent", run_concurrent, gen_concurrent, 400, 4000, 100, nullptr});
  return main_(argc, argv, checks);
}
