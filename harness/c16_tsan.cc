// C16 - stress of the real parallel_range* templates (real std::atomic / std::thread) under ThreadSanitizer.
// The controlled-scheduler harness (c16_parallel.cc) decides the logical property for small configurations;
// this one adds what it cannot see: data races on the real atomics, many threads, long ranges, all IntT widths.
#include <stdint.h>

#include <atomic>
#include <functional>
#include <set>
#include <unordered_set>
#include <vector>

// the progress loop of parallel_range sleeps a full second between polls: shorten it for the stress runs
#include <unistd.h>
#define usleep(x) (::usleep)(200)
#include <phosg/Tools.hh>
#undef usleep

#include "verif.hh"

using namespace verif;

// case: n = [variant, type, threads, start(raw), count, block, hit_mod, hit_rem, repetitions, rendezvous]
//   callback returns true for values whose offset from start satisfies off % hit_mod == hit_rem (hit_mod 0: never)
//   rendezvous: a callback about to return true first waits (bounded spin, <= 3 ms) until a second worker is inside
//   a true callback as well, so that two hits are reported at the same moment - the situation in which unsynchronised
//   access to the shared result or cursor becomes a data race ThreadSanitizer can see. The wait only steers timing;
//   the oracle does not depend on it.
//   progress: 1 = pass a (counting) progress function instead of nullptr
//   big: k > 0 = the range has k * 2^32 values (variant 0) or blocks (variant 1) and `count` is ignored; the callback
//        returns true at offset hit_rem (< 4096), which ends the job long before the range is exhausted
struct Cfg {
  uint64_t variant, type, threads, start, count, block, hit_mod, hit_rem, reps, rendezvous, progress, big;
  uint64_t auto_threads = 0; // 1: pass num_threads = 0 to the call (threads holds the machine's core count)
};
static const char* kVariant[3] = {"range", "blocks", "multi"};
static const char* kType[5] = {"u8", "u16", "u32", "u64", "s64"};

template <typename IntT>
static void run_typed(const Cfg& c) {
  typedef std::make_unsigned_t<IntT> U;
  std::string tag = cat(kVariant[c.variant], ":", kType[c.type]);
  IntT start = static_cast<IntT>(c.start);
  const uint64_t count = c.big ? (c.big << 32) * (c.variant ? c.block : 1) : c.count;
  IntT end = static_cast<IntT>(static_cast<U>(start) + static_cast<U>(count));
  std::atomic<uint64_t> progress_calls(0);
  std::function<void(IntT, IntT, IntT, uint64_t)> progress;
  if (c.progress) progress = [&](IntT, IntT, IntT, uint64_t) { progress_calls.fetch_add(1); };
  for (uint64_t rep = 0; rep < c.reps; rep++) {
    // one private log per thread number: if two workers ever shared a thread_num, TSan reports the race
    std::vector<std::vector<uint64_t>> logs(c.threads);
    bool bad_thread_num = false;
    std::atomic<int> inside_hit(0), arrived(0);
    std::atomic<bool> gate_done(false);
    std::vector<uint8_t> seen_thread(c.threads, 0); // per-thread flag, written only by that thread
    std::function<bool(IntT, size_t)> fn = [&](IntT v, size_t tn) -> bool {
      uint64_t off = static_cast<uint64_t>(static_cast<U>(static_cast<U>(v) - static_cast<U>(start)));
      if (tn >= c.threads) {
        bad_thread_num = true;
        return false;
      }
      if (logs[tn].size() < 2100000) logs[tn].push_back(off);
      // start gate: the first worker to get a value waits (bounded, <= 1 ms) for a second worker to arrive, so the
      // run really is concurrent instead of one thread finishing the range before the others have started
      if (!seen_thread[tn]) {
        seen_thread[tn] = 1;
        arrived.fetch_add(1);
      }
      if (c.threads >= 2 && c.count >= 2 && !gate_done.load() && arrived.load() < 2) {
        uint64_t t0 = phosg::now();
        while (arrived.load() < 2 && phosg::now() - t0 < 1000) {
        }
        gate_done.store(true); // one wait per run: with a single block only one worker ever gets work
      }
      bool hit = c.big ? (off == c.hit_rem) : (c.hit_mod != 0 && (off % c.hit_mod) == c.hit_rem);
      if (hit && c.rendezvous && c.threads >= 2) {
        inside_hit.fetch_add(1);
        uint64_t t0 = phosg::now();
        while (inside_hit.load() < 2 && phosg::now() - t0 < 3000) {
        }
      }
      return hit;
    };
    uint64_t ret_off = 0;
    std::vector<uint64_t> ret_set;
    if (c.variant == 0) {
      IntT r = phosg::parallel_range<IntT>(fn, start, end, c.auto_threads ? 0 : c.threads, progress);
      ret_off = static_cast<uint64_t>(static_cast<U>(static_cast<U>(r) - static_cast<U>(start)));
    } else if (c.variant == 1) {
      IntT r = phosg::parallel_range_blocks<IntT>(fn, start, end, static_cast<IntT>(c.block), c.auto_threads ? 0 : c.threads, progress);
      ret_off = static_cast<uint64_t>(static_cast<U>(static_cast<U>(r) - static_cast<U>(start)));
    } else {
      auto r = phosg::parallel_range_blocks_multi<IntT>(fn, start, end, static_cast<IntT>(c.block), c.auto_threads ? 0 : c.threads, progress);
      for (IntT v : r) ret_set.push_back(static_cast<uint64_t>(static_cast<U>(static_cast<U>(v) - static_cast<U>(start))));
      std::sort(ret_set.begin(), ret_set.end());
    }
    VCHECK(!bad_thread_num, cat("thread-num:", tag), "callback received thread_num >= num_threads");
    if (c.big) {
      // huge range with an early hit: nothing outside, nothing twice, the hit is found and returned
      std::set<uint64_t> seen_big;
      uint64_t hits_big = 0;
      for (auto& l : logs)
        for (uint64_t off : l) {
          VCHECK(off < count, cat("outside-range:", tag), "callback invoked for start+", off, " but the range has ", count, " values");
          VCHECK(seen_big.insert(off).second, cat("invoked-twice:", tag), "callback invoked twice for start+", off);
          if (off == c.hit_rem) hits_big++;
        }
      VCHECK(hits_big > 0, cat("hit-never-invoked:", tag), "a range of ", count, " values with a hit at start+", c.hit_rem, ": the callback was never invoked for it (", seen_big.size(), " invocations in all)");
      VCHECK(ret_off == c.hit_rem, cat("hit-result:", tag), "returned start+", ret_off, " but the only value for which the callback returned true is start+", c.hit_rem);
      ctx().cls("runs-over-k*2^32-values-or-blocks");
      ctx().cls("runs");
      continue;
    }
    std::vector<uint8_t> seen(c.count, 0);
    uint64_t hits = 0, busy_threads = 0;
    for (auto& l : logs) {
      if (!l.empty()) busy_threads++;
      for (uint64_t off : l) {
        VCHECK(off < c.count, cat("outside-range:", tag), "callback invoked for start+", off, " but the range has ", c.count, " values");
        VCHECK(seen[off] == 0, cat("invoked-twice:", tag), "callback invoked twice for start+", off);
        seen[off] = 1;
        if (c.hit_mod != 0 && (off % c.hit_mod) == c.hit_rem) hits++;
      }
    }
    if (c.progress) ctx().cls("runs-with-progress-function");
    bool any_hit_in_range = c.hit_mod != 0 && c.hit_rem < c.count;
    if (c.variant == 2) {
      std::vector<uint64_t> expect;
      for (uint64_t i = 0; i < c.count; i++) {
        VCHECK(seen[i], cat("missed-value:", tag), "start+", i, " was never passed to the callback");
        if (c.hit_mod != 0 && (i % c.hit_mod) == c.hit_rem) expect.push_back(i);
      }
      VCHECK(ret_set == expect, cat("multi-result:", tag), "returned set has ", ret_set.size(), " values, expected ", expect.size());
    } else if (!any_hit_in_range) {
      for (uint64_t i = 0; i < c.count; i++) VCHECK(seen[i], cat("missed-value:", tag), "start+", i, " was never passed to the callback");
      VCHECK(ret_off == c.count, cat("no-hit-result:", tag), "no callback returned true but the call returned start+", ret_off);
    } else {
      VCHECK(hits > 0, cat("hit-never-invoked:", tag), "no true callback was invoked");
      VCHECK(ret_off < c.count && (ret_off % c.hit_mod) == c.hit_rem && seen[ret_off], cat("hit-result:", tag), "returned start+", ret_off, " for which the callback did not return true");
    }
    if (busy_threads >= 2) ctx().cls("runs-with->=2-busy-threads");
    if (c.rendezvous && hits >= 2) ctx().cls("runs-with-simultaneous-hits");
    ctx().cls("runs");
  }
  if (c.threads >= 2 && c.count >= 2) ctx().nontrivial_case();
}

static void run_stress(const Case& k) {
  Cfg c{k.u(0), k.u(1), k.u(2), k.u(3), k.u(4), k.u(5), k.u(6), k.u(7), k.u(8), k.n.size() > 9 ? k.u(9) : 0, k.n.size() > 10 ? k.u(10) : 0, k.n.size() > 11 ? k.u(11) : 0};
  if (c.variant > 2 || c.type > 4 || c.threads > 16 || c.count > 2000000 || c.reps > 1000) throw std::logic_error("configuration outside the generated domain");
  if (c.threads == 0) {
    // automatic thread count: the callee uses std::thread::hardware_concurrency(); the logs are sized accordingly
    c.auto_threads = 1;
    c.threads = std::max(1u, std::thread::hardware_concurrency());
  }
  if (c.count > 5000 && (c.variant == 0 || c.type < 2 || c.block < 1000)) throw std::logic_error("long ranges are generated only for the block variants with large blocks");
  if (c.big && (c.big > 4 || c.type < 3 || c.variant == 2 || c.block > 64 || c.block == 0 || c.hit_rem >= 4096)) throw std::logic_error("big-range configuration outside the generated domain");
  if (c.big) c.count = 0;
  if (c.variant != 0 && (c.block == 0 || c.count % c.block)) throw std::logic_error("block must divide the range");
  switch (c.type) {
    case 0: run_typed<uint8_t>(c); break;
    case 1: run_typed<uint16_t>(c); break;
    case 2: run_typed<uint32_t>(c); break;
    case 3: run_typed<uint64_t>(c); break;
    case 4: run_typed<int64_t>(c); break;
  }
}

static Case gen_stress() {
  Cfg c;
  c.variant = vg::below(3);
  c.type = vg::below(5);
  c.threads = vg::pick<uint64_t>({1, 2, 2, 3, 4, 8, 16, 0});
  uint64_t maxcount = c.type == 0 ? 255 : 5000;
  switch (vg::below(3)) {
    case 0: c.count = vg::below(9); break;
    case 1: c.count = vg::below(std::min<uint64_t>(maxcount, 300) + 1); break;
    default: c.count = vg::below(maxcount + 1); break;
  }
  c.block = 1;
  if (c.variant != 0) {
    std::vector<uint64_t> divs;
    for (uint64_t b = 1; b <= std::max<uint64_t>(c.count, 1) && b <= 512; b++)
      if (c.count % b == 0) divs.push_back(b);
    c.block = vg::pick(divs);
  }
  if (vg::chance(2, 5)) {
    c.hit_mod = 0;
    c.hit_rem = 0;
  } else {
    c.hit_mod = 1 + vg::below(std::max<uint64_t>(c.count, 1) + 3);
    c.hit_rem = vg::below(c.hit_mod);
  }
  static const uint64_t bits[5] = {8, 16, 32, 64, 64};
  uint64_t tmax = bits[c.type] == 64 ? UINT64_MAX : ((1ULL << bits[c.type]) - 1);
  switch (vg::below(3)) {
    case 0: c.start = 0; break;
    case 1: { // ends at (or one below) the type maximum
      uint64_t slack = vg::below(2);
      if (c.type != 4 && c.count + slack > tmax) slack = 0;
      c.start = (c.type == 4 ? static_cast<uint64_t>(INT64_MAX) : tmax) - c.count - slack;
      break;
    }
    default: c.start = (c.type == 4) ? static_cast<uint64_t>(-static_cast<int64_t>(vg::below(c.count + 2))) : (tmax - c.count > 1000 ? vg::below(1000) : 0); break;
  }
  c.reps = c.count <= 64 ? 20 : 3;
  c.rendezvous = 0;
  if (c.variant != 2 && c.threads >= 2 && c.count >= 2 && vg::chance(1, 4)) {
    // simultaneous hits: every value is a hit and the first two workers report together
    c.hit_mod = 1;
    c.hit_rem = 0;
    c.rendezvous = 1;
    c.reps = 6;
  }
  if (vg::chance(1, 15)) {
    // large blocks (the block variants walk a whole block between two looks at the shared cursor)
    c.variant = 1 + vg::below(2);
    c.type = 2 + vg::below(3);
    c.block = vg::pick<uint64_t>({4096, 65535, 65536, 65537, 70000, 131072, 200000, 262144 + 1});
    c.count = c.block * (1 + vg::below(4));
    c.threads = vg::pick<uint64_t>({1, 2, 3, 4, 8});
    if (vg::chance(2, 3)) {
      c.hit_mod = 0;
      c.hit_rem = 0;
    } else {
      c.hit_mod = c.count + 1;
      c.hit_rem = vg::below(c.count);
    }
    c.rendezvous = 0;
    c.reps = 2;
    c.start = (c.type == 4) ? static_cast<uint64_t>(-static_cast<int64_t>(vg::below(c.count + 2))) : vg::below(1000);
  }
  c.progress = vg::chance(1, 5) ? 1 : 0;
  c.big = 0;
  if (vg::chance(1, 12)) {
    c.big = 1 + vg::below(4);
    c.variant = vg::below(2);
    c.type = 3 + vg::below(2);
    c.block = c.variant ? vg::pick<uint64_t>({1, 2, 16, 64}) : 1;
    c.hit_mod = 1;
    c.hit_rem = vg::below(4096);
    c.rendezvous = 0;
    c.count = 0;
    c.start = (c.type == 4 && vg::coin()) ? static_cast<uint64_t>(-static_cast<int64_t>(vg::below(100000))) : vg::below(100000);
    c.reps = 3;
  }
  Case k("stress");
  k.N(c.variant).N(c.type).N(c.threads).N(c.start).N(c.count).N(c.block).N(c.hit_mod).N(c.hit_rem).N(c.reps).N(c.rendezvous).N(c.progress).N(c.big);
  return k;
}

int main(int argc, char** argv) {
  std::vector<SubCheck> checks;
  SubCheck sc;
  sc.name = "stress";
  sc.run = run_stress;
  sc.gen = gen_stress;
  sc.quick_cases = 1200;
  sc.thorough_cases = 40000;
  checks.push_back(sc);
  return main_(argc, argv, checks);
}
