// C14 - file and stream reads are complete regardless of how delivery is chunked; directory listing,
// recursive unlink, dirname/basename, scoped_fd and Poll bookkeeping.
//
// Link with -Wl,--wrap=read,--wrap=pread,--wrap=close,--wrap=write: the wrappers below make the chunking of read()
// (short-read plans) and of write() (short-write plans for save_file) a generated input and log every close().
#include <phosg/Filesystem.hh>

#include <optional>

#include "c14/io_plan.hh"
#include "verif.hh"

using namespace verif;
using namespace c14;

// ---------------------------------------------------------------- interposed syscalls

extern "C" ssize_t __wrap_read(int fd, void* buf, size_t n) {
  WrapPlan& p = plan();
  if (!p.active || fd != p.fd) return __real_read(fd, buf, n);
  if (p.fail_now()) {
    errno = p.fail_errno; // an interrupted/failed read: nothing is consumed from the source
    return -1;
  }
  uint64_t lim = p.lim.next();
  size_t req = std::min<uint64_t>(n, lim);
  if (p.eof_after != UINT64_MAX) {
    if (p.delivered >= p.eof_after) {
      p.calls++;
      return 0; // end of file reached earlier than the size reported by fstat
    }
    req = std::min<uint64_t>(req, p.eof_after - p.delivered);
  }
  ssize_t r = __real_read(fd, buf, req);
  p.calls++;
  if (r > 0) {
    p.delivered += r;
    if (req < n) p.truncated++;
  }
  return r;
}

extern "C" ssize_t __wrap_pread(int fd, void* buf, size_t n, off_t off) {
  WrapPlan& p = plan();
  if (!p.active || fd != p.fd) return __real_pread(fd, buf, n, off);
  if (p.fail_now()) {
    errno = p.fail_errno;
    return -1;
  }
  uint64_t lim = p.lim.next();
  size_t req = std::min<uint64_t>(n, lim);
  if (p.eof_after != UINT64_MAX) {
    // the file ends earlier than the size reported by fstat: positional reads see the same shortened file
    if (static_cast<uint64_t>(off) >= p.eof_after) {
      p.calls++;
      return 0;
    }
    req = std::min<uint64_t>(req, p.eof_after - static_cast<uint64_t>(off));
  }
  ssize_t r = __real_pread(fd, buf, req, off);
  p.calls++;
  if (r > 0) {
    p.delivered += r;
    if (req < n) p.truncated++;
  }
  return r;
}

extern "C" ssize_t __wrap_write(int fd, const void* buf, size_t n) {
  WritePlan& p = write_plan();
  if (!p.active || fd != p.fd) return __real_write(fd, buf, n);
  if (p.fail_now()) {
    errno = p.fail_errno; // a failed write: nothing is accepted
    return -1;
  }
  uint64_t lim = p.lim.next();
  size_t req = std::min<uint64_t>(n, lim);
  ssize_t r = __real_write(fd, buf, req);
  p.calls++;
  if (r > 0) {
    p.accepted += r;
    if (req < n) p.truncated++;
  }
  return r;
}

extern "C" int __wrap_close(int fd) {
  int r = __real_close(fd);
  int e = errno;
  CloseLog& l = closelog();
  if (l.active) {
    if (r == 0 && l.fault_now()) {
      // the descriptor is gone; the caller is told EINTR
      if (l.fault_mode == 2) {
        int n = ::open("/dev/null", O_RDONLY);
        if (n >= 0 && n != fd) {
          ::dup2(n, fd);
          __real_close(n);
        }
        if (n >= 0) l.reused.insert(fd);
      } else {
        l.reused.erase(fd);
      }
      l.events.push_back({fd, EINTR, true});
      l.faulted++;
      errno = EINTR;
      return -1;
    }
    l.events.push_back({fd, r == 0 ? 0 : e, false});
  }
  errno = e;
  return r;
}

// ---------------------------------------------------------------- helpers

static std::string first_diff(const std::string& got, const std::string& want) {
  size_t i = 0;
  while (i < got.size() && i < want.size() && got[i] == want[i]) i++;
  return cat("got ", got.size(), " bytes, expected ", want.size(), "; first difference at offset ", i);
}

static const char* size_class(size_t sz) {
  return sz == 0 ? "size:0" : sz < 256 ? "size:<256" : sz < 16384 ? "size:<16K" : sz <= 65536 ? "size:16K-64K" : "size:>64K";
}

static void note_plan_nontrivial(uint64_t calls, uint64_t truncated, size_t size, bool extra = false) {
  if ((calls >= 2 && truncated >= 1) || size > 16384 || extra) ctx().nontrivial_case();
  ctx().cls(truncated ? "delivery:short-reads" : "delivery:whole");
}

// ---------------------------------------------------------------- load_file / save_file

// n = [size, seed, previous_size, use_plan, k, plan_seed, L, plan...]
static void run_file_roundtrip(const Case& c) {
  Reader r(c);
  uint64_t size = r.next(), seed = r.next(), prev = r.next(), use_plan = r.next();
  if (size > (1 << 20) || prev > (1 << 20)) throw std::logic_error("size outside domain");
  Limiter lim;
  lim.k = r.next();
  lim.seed = r.next();
  lim.list = r.list();
  std::string d = vg::expand(seed, size);
  std::string path = scratch() + "/roundtrip.bin";
  ::unlink(path.c_str());
  if (prev) write_file_raw(path, std::string(prev, 'P'));
  std::set<int> before = open_fds();
  if (c.u(0) & 1) {
    phosg::save_file(path, d);
  } else {
    phosg::save_file(path, d.data(), d.size());
  }
  std::string on_disk;
  VCHECK(read_file_raw(path, on_disk), "save-file-missing", "save_file did not create ", path);
  VCHECK(on_disk == d, "save-file-content", "file written by save_file differs: ", first_diff(on_disk, d));
  std::string back;
  if (use_plan) {
    // a short read() on the file: load_file must return everything or throw, never a truncated/padded string
    struct Arm {
      Arm() {}
      ~Arm() { plan().disarm(); }
    } arm;
    // load_file opens its own descriptor: the next descriptor number is the lowest free one
    int probe = ::open("/dev/null", O_RDONLY);
    __real_close(probe);
    plan().arm(probe, lim);
    bool threw = false;
    try {
      back = phosg::load_file(path);
    } catch (const std::runtime_error&) {
      threw = true;
    }
    uint64_t calls = plan().calls, trunc = plan().truncated;
    plan().disarm();
    if (!(calls >= 1 || size == 0)) {
    // the helper did not go through the interposed read()/pread()/write() on the expected descriptor (another system call, another
    // descriptor order): the fault was not delivered, so this case says nothing - counted, not judged
    ctx().exclude("fault-plan-not-delivered");
    VCHECK(!threw && back == d, "load-file-roundtrip", "load_file(save_file(d)) != d: ", threw ? std::string("it threw") : first_diff(back, d));
    ::unlink(path.c_str());
    return;
  }
    if (!threw) VCHECK(back == d, "load-file-short-read", "load_file returned without throwing after a short read: ", first_diff(back, d));
    if (trunc == 0) VCHECK(!threw, "load-file-spurious-throw", "load_file threw although read() delivered everything at once");
    note_plan_nontrivial(calls + 1, trunc, size);
  } else {
    back = phosg::load_file(path);
    VCHECK(back == d, "load-file-roundtrip", "load_file(save_file(d)) != d: ", first_diff(back, d));
    if (size > 16384 || (prev > size)) ctx().nontrivial_case();
  }
  VCHECK(open_fds() == before, "load-save-fd-leak", "save_file/load_file changed the set of open descriptors");
  ctx().cls(size_class(size));
  ::unlink(path.c_str());
}

// ---------------------------------------------------------------- save_file when write() accepts less than requested
//
// "load_file(save_file(d)) = d for every byte string ... or throw; never silently a truncated or padded result": the
// write-side twin of the short-read plans. write() on save_file's descriptor accepts only 1..k bytes per call (and keeps
// accepting afterwards), or fails once (EINTR / EIO / ENOSPC, nothing accepted) at a chosen call. save_file may give up
// (throw) or carry on; when it returns normally the file holds exactly d (same length AND same bytes) and load_file
// returns d. With a plan that never shortens anything and no failing call it must not throw.
// n = [size, seed, previous_size, overload, fail_at (0 none, j+1: write call j fails), errno code, k, plan_seed, L, plan...]
static void run_save_short_write(const Case& c) {
  Reader r(c);
  uint64_t size = r.next(), seed = r.next(), prev = r.next(), overload = r.next(), fail_at = r.next(), ecode = r.next();
  if (size > (1 << 20) || prev > (1 << 20) || ecode > 2) throw std::logic_error("case outside domain");
  Limiter lim;
  lim.k = r.next();
  lim.seed = r.next();
  lim.list = r.list();
  std::string d = vg::expand(seed, size);
  std::string path = scratch() + "/short_write.bin";
  ::unlink(path.c_str());
  if (prev) write_file_raw(path, std::string(prev, 'P'));
  std::set<int> before = open_fds();
  struct Arm {
    ~Arm() { write_plan().disarm(); }
  } arm;
  // save_file opens its own descriptor: the next descriptor number is the lowest free one
  int probe = ::open("/dev/null", O_RDONLY);
  __real_close(probe);
  write_plan().arm(probe, lim);
  static const int errnos[3] = {EINTR, EIO, ENOSPC};
  if (fail_at) {
    write_plan().fail_calls = {fail_at - 1};
    write_plan().fail_errno = errnos[ecode];
  }
  bool threw = false;
  std::string what;
  errno = 0;
  try {
    if (overload & 1) {
      phosg::save_file(path, d);
    } else {
      phosg::save_file(path, d.data(), d.size());
    }
  } catch (const std::exception& e) {
    threw = true;
    what = e.what();
  }
  uint64_t calls = write_plan().calls, trunc = write_plan().truncated, faulted = write_plan().faulted;
  write_plan().disarm();
  if (!(calls >= 1 || size == 0)) {
    // the helper did not go through the interposed read()/pread()/write() on the expected descriptor (another system call, another
    // descriptor order): the fault was not delivered, so this case says nothing - counted, not judged
    ctx().exclude("fault-plan-not-delivered");
    return;
  }
  const char* fault = faulted ? "failed-write" : trunc ? "short-write" : "whole-write";
  if (!threw) {
    std::string on_disk;
    VCHECK(read_file_raw(path, on_disk), "save-file-missing", "save_file did not create ", path);
    VCHECK(on_disk.size() == d.size(), cat("save-file-length:", fault), "save_file returned normally but the file has ", on_disk.size(), " bytes, expected ", d.size(), " (", calls, " write calls, ", trunc, " shortened, ", faulted, " failed)");
    VCHECK(on_disk == d, cat("save-file-content:", fault), "save_file returned normally but the file differs from the data: ", first_diff(on_disk, d), " (", calls, " write calls, ", trunc, " shortened, ", faulted, " failed)");
    std::string back = phosg::load_file(path);
    VCHECK(back == d, cat("load-file-roundtrip:", fault), "load_file(save_file(d)) != d: ", first_diff(back, d));
  } else if (trunc == 0 && faulted == 0) {
    VFAIL("save-file-spurious-throw", "save_file threw although every write() accepted everything: ", what);
  }
  VCHECK(open_fds() == before, "save-file-fd-leak", "save_file changed the set of open descriptors (threw: ", threw, ")");
  ctx().cls(cat("save_file:", fault, threw ? ":threw" : ":completed"));
  ctx().cls(size_class(size));
  if (trunc >= 1 || faulted >= 1) ctx().nontrivial_case();
  ::unlink(path.c_str());
}

// ---------------------------------------------------------------- load_file on a source that ends early
//
// The file shrinks between load_file's fstat and its read (or st_size overstates the content, as for sysfs files):
// read() reaches end-of-file after `eof` bytes although fstat reported `size`. load_file must throw or return exactly
// the bytes that were delivered - never a result padded to the stat size, never fewer than delivered.
// n = [size, seed, eof, k, plan_seed]
static void run_load_shrunk(const Case& c) {
  uint64_t size = c.u(0), seed = c.u(1), eof = c.u(2);
  if (size > (1 << 20) || eof >= size) throw std::logic_error("case outside domain");
  Limiter lim;
  lim.k = c.u(3);
  lim.seed = c.u(4);
  std::string d = vg::expand(seed, size);
  // avoid content that is zero at the cut: a padded result must differ from the delivered prefix
  for (auto& ch : d)
    if (ch == 0) ch = 1;
  std::string path = scratch() + "/shrunk.bin";
  ::unlink(path.c_str());
  write_file_raw(path, d);
  std::set<int> before = open_fds();
  struct Arm {
    ~Arm() { plan().disarm(); }
  } arm;
  int probe = ::open("/dev/null", O_RDONLY);
  __real_close(probe);
  plan().arm(probe, lim, eof);
  bool threw = false;
  std::string back;
  try {
    back = phosg::load_file(path);
  } catch (const std::runtime_error&) {
    threw = true;
  }
  uint64_t calls = plan().calls;
  plan().disarm();
  if (!(calls >= 1)) {
    // the helper did not go through the interposed read()/pread()/write() on the expected descriptor (another system call, another
    // descriptor order): the fault was not delivered, so this case says nothing - counted, not judged
    ctx().exclude("fault-plan-not-delivered");
    return;
  }
  if (!threw) {
    VCHECK(back.size() <= eof, "load-file-padded", "load_file returned ", back.size(), " bytes although the file ended after ", eof, " (stat size ", size, "): ", first_diff(back, d.substr(0, eof)));
    VCHECK(back == d.substr(0, eof), "load-file-truncated-silently", "load_file returned ", back.size(), " of the ", eof, " bytes delivered before end of file");
  }
  VCHECK(open_fds() == before, "load-shrunk-fd-leak", "load_file changed the set of open descriptors");
  ctx().cls(threw ? "load_shrunk:threw" : "load_shrunk:returned-delivered-prefix");
  ctx().nontrivial_case();
  ::unlink(path.c_str());
}

static Case gen_load_shrunk() {
  uint64_t size;
  switch (vg::below(4)) {
    case 0: size = 1 + vg::below(16); break;
    case 1: size = vg::pick<uint64_t>({255, 256, 257, 4095, 4096, 4097, 16383, 16384, 16385, 65536}); break;
    default: size = 1 + vg::scaled(200000); break;
  }
  uint64_t eof;
  switch (vg::below(4)) {
    case 0: eof = 0; break;
    case 1: eof = size - 1; break;
    default: eof = vg::below(size); break;
  }
  uint64_t k = vg::coin() ? 0 : 1 + vg::below(5000);
  return Case("load_shrunk").N(size).N(vg::u64()).N(eof).N(k).N(vg::u64());
}

static void enum_load_shrunk(Enum& e) {
  uint64_t idx = 0;
  for (uint64_t size = 1; size <= 12 && !e.stop; size++)
    for (uint64_t eof = 0; eof < size; eof++)
      for (uint64_t k : {0, 1, 3}) {
        if (!e.mine(idx++)) continue;
        e.exec(Case("load_shrunk").N(size).N(size * 31 + eof).N(eof).N(k).N(7));
      }
  e.complete("every (size 1..12, end-of-file position < size) x chunk limit {none, 1, 1..3}");
}

// ---------------------------------------------------------------- read_all

// n = [api (0 fd, 1 FILE*), source kind, bufmode, size, seed, delivery...]
static void run_read_all(const Case& c) {
  Reader r(c);
  uint64_t api = r.next(), kind = r.next(), bufmode = r.next(), size = r.next(), seed = r.next();
  if (size > (1 << 20)) throw std::logic_error("size outside domain");
  Delivery d = r.delivery();
  std::string content = vg::expand(seed, size);
  std::string got;
  uint64_t calls = 0, trunc = 0;
  if (api == 0) {
    FdSource src(kind, content, d);
    got = phosg::read_all(src.fd);
    calls = plan().calls;
    trunc = plan().truncated;
    if (kind == FD_PIPE && (!d.wchunks.empty())) trunc += 1; // staggered writer: the kernel produces the short reads
  } else {
    FileSource src(kind, bufmode, content, d);
    got = phosg::read_all(src.f);
    calls = src.cookie.calls;
    trunc = src.cookie.truncated;
    if (kind == F_PIPE && (!d.wchunks.empty())) trunc += 1;
  }
  const char* clause = api == 0 ? (got.size() < content.size() ? "read-all-fd-truncated" : "read-all-fd-content")
                                : (got.size() < content.size() ? "read-all-file-truncated" : "read-all-file-content");
  VCHECK(got == content, clause, "read_all returned something other than the bytes delivered before EOF: ", first_diff(got, content), " (", calls, " reads, ", trunc, " short)");
  note_plan_nontrivial(std::max<uint64_t>(calls, d.wchunks.empty() ? 0 : 2), trunc, size);
  ctx().cls(cat("read_all:", api == 0 ? (kind == FD_FILE ? "fd-file" : "fd-pipe") : kind == F_COOKIE ? "FILE-cookie" : kind == F_MEM ? "FILE-mem" : kind == F_PIPE ? "FILE-pipe" : "FILE-file"));
  ctx().cls(size_class(size));
}

// ---------------------------------------------------------------- fgets

static std::string line_bytes(uint64_t seed, size_t len) {
  std::string s = vg::expand(seed, len);
  for (auto& ch : s)
    if (ch == '\0' || ch == '\n') ch = 'x';
  return s;
}

// n = [source kind, bufmode, final_newline, seed, L, line lengths..., delivery...]
static void run_fgets(const Case& c) {
  Reader r(c);
  uint64_t kind = r.next(), bufmode = r.next(), final_nl = r.next(), seed = r.next();
  std::vector<uint64_t> lens = r.list();
  Delivery d = r.delivery();
  std::vector<std::string> lines;
  std::string text;
  size_t longest = 0;
  for (size_t i = 0; i < lens.size(); i++) {
    if (lens[i] > 100000) throw std::logic_error("line length outside domain");
    std::string l = line_bytes(mix(seed, i), lens[i]);
    bool last = (i + 1 == lens.size());
    if (!last || final_nl) l += '\n';
    if (l.empty()) continue; // an empty unterminated last line is no line at all
    longest = std::max<size_t>(longest, lens[i]);
    text += l;
    lines.push_back(std::move(l));
  }
  FileSource src(kind, bufmode, text, d);
  for (size_t i = 0; i < lines.size(); i++) {
    std::string got = phosg::fgets(src.f);
    if (got != lines[i]) {
      const std::string& want = lines[i];
      std::string why = first_diff(got, want);
      if (got.size() < want.size() && want.compare(0, got.size(), got) == 0) {
        VFAIL(want.size() > 255 ? "fgets-line-truncated:long-line" : "fgets-line-truncated", "line ", i, " of ", lines.size(), " (", want.size(), " bytes with terminator): fgets returned only a prefix: ", why);
      }
      if (got.size() > want.size() && got.compare(0, want.size(), want) == 0) {
        VFAIL("fgets-line-overrun", "line ", i, " (", want.size(), " bytes): fgets returned more than one line: ", why);
      }
      VFAIL("fgets-line-content", "line ", i, " (", want.size(), " bytes): ", why);
    }
  }
  std::string tail = phosg::fgets(src.f);
  VCHECK(tail.empty(), "fgets-after-eof", "fgets at end of stream returned ", tail.size(), " bytes");
  bool shortreads = src.cookie.truncated > 0 || (kind == F_PIPE && !d.wchunks.empty());
  if (longest > 255 || (shortreads && text.size() > 1)) ctx().nontrivial_case();
  ctx().cls(longest > 255 ? "fgets:line>255" : longest == 255 || longest == 254 ? "fgets:line=254..255" : "fgets:line<254");
  ctx().cls(shortreads ? "delivery:short-reads" : "delivery:whole");
}

// ---------------------------------------------------------------- exact-size readers

enum Api : uint64_t { A_READX = 0,
  A_PREADX = 1,
  A_FREADX = 2,
  A_READ = 3,
  A_FREAD = 4,
  A_READX_T = 5,
  A_READX_BUF = 6,
  A_FREADX_BUF = 7 };

// n = [api, source kind, bufmode, size, seed, delivery..., L, ops...]   (ops: sizes; for preadx pairs size,offset)
static void run_readx(const Case& c) {
  Reader r(c);
  uint64_t api = r.next(), kind = r.next(), bufmode = r.next(), size = r.next(), seed = r.next();
  if (size > (1 << 20)) throw std::logic_error("size outside domain");
  Delivery d = r.delivery();
  std::vector<uint64_t> ops = r.list();
  std::string content = vg::expand(seed, size);
  bool any_short = false, any_ok = false;
  bool fd_api = (api == A_READX || api == A_PREADX || api == A_READ || api == A_READX_T || api == A_READX_BUF);
  if (fd_api) {
    FdSource src(kind, content, d);
    size_t pos = 0;
    for (size_t i = 0; i < ops.size(); i++) {
      uint64_t sz = ops[i];
      if (sz > (1 << 20)) throw std::logic_error("op size outside domain");
      uint64_t off = pos;
      if (api == A_PREADX) {
        if (i + 1 >= ops.size()) break;
        off = ops[++i];
        if (off > (1 << 21)) throw std::logic_error("offset outside domain");
      }
      if (api == A_READX_T) sz = 8;
      uint64_t before = plan().delivered;
      std::string got;
      bool threw = false;
      try {
        switch (api) {
          case A_READX: got = phosg::readx(src.fd, sz); break;
          case A_PREADX: got = phosg::preadx(src.fd, sz, off); break;
          case A_READ: got = phosg::read(src.fd, sz); break;
          case A_READX_T: {
            uint64_t v = phosg::readx<uint64_t>(src.fd);
            got.assign(reinterpret_cast<const char*>(&v), 8);
            break;
          }
          case A_READX_BUF: {
            // exactly-sized heap block with guard bytes around the destination
            std::string buf(sz + 32, '\xA5');
            phosg::readx(src.fd, buf.data() + 16, sz);
            for (size_t g = 0; g < 16; g++) VCHECK(buf[g] == '\xA5' && buf[16 + sz + g] == '\xA5', "readx-buffer-guard", "readx(fd, buf, ", sz, ") wrote outside the destination");
            got = buf.substr(16, sz);
            break;
          }
        }
      } catch (const phosg::io_error&) {
        threw = true;
      }
      uint64_t delivered = plan().delivered - before;
      std::string want = off < content.size() ? content.substr(off, sz) : std::string();
      if (api == A_READ) {
        VCHECK(!threw, "read-threw", "phosg::read threw without an I/O error");
        VCHECK(got.size() == delivered && got.size() <= sz, "read-size", "read(fd,", sz, ") returned ", got.size(), " bytes but the descriptor delivered ", delivered);
        VCHECK(got == content.substr(pos, got.size()), "read-content", "read(fd,", sz, ") at ", pos, ": ", first_diff(got, content.substr(pos, got.size())));
        pos += got.size();
        any_short |= got.size() < sz;
        any_ok = true;
        continue;
      }
      const char* nm = api == A_PREADX ? "preadx" : "readx";
      if (threw) {
        VCHECK(delivered < sz, cat(nm, "-spurious-throw"), nm, "(", sz, ") threw io_error although ", delivered, " bytes were delivered");
        any_short = true;
        break; // the position after a failed exact read is unspecified
      }
      VCHECK(got.size() == sz, cat(nm, "-size"), nm, "(", sz, ") returned ", got.size(), " bytes");
      VCHECK(want.size() == sz && delivered >= sz, cat(nm, "-short-not-reported"), nm, "(", sz, ") at offset ", off, " returned normally although only ", delivered, " bytes were delivered (source holds ", content.size(), ")");
      VCHECK(got == want, cat(nm, "-content"), nm, "(", sz, ") at offset ", off, ": ", first_diff(got, want));
      if (api != A_PREADX) pos += sz;
      any_ok = true;
    }
    note_plan_nontrivial(plan().calls + (d.wchunks.empty() ? 0 : 2), plan().truncated + (d.wchunks.empty() ? 0 : 1), size, any_short && any_ok);
  } else {
    FileSource src(kind, bufmode, content, d);
    size_t pos = 0;
    for (size_t i = 0; i < ops.size(); i++) {
      uint64_t sz = ops[i];
      if (sz > (1 << 20)) throw std::logic_error("op size outside domain");
      std::string got;
      bool threw = false;
      try {
        if (api == A_FREADX) {
          got = phosg::freadx(src.f, sz);
        } else if (api == A_FREAD) {
          got = phosg::fread(src.f, sz);
        } else if (api == A_FREADX_BUF) {
          std::string buf(sz + 32, '\xA5');
          phosg::freadx(src.f, buf.data() + 16, sz);
          for (size_t g = 0; g < 16; g++) VCHECK(buf[g] == '\xA5' && buf[16 + sz + g] == '\xA5', "freadx-buffer-guard", "freadx(f, buf, ", sz, ") wrote outside the destination");
          got = buf.substr(16, sz);
        } else {
          throw std::logic_error("case: unknown api");
        }
      } catch (const phosg::io_error&) {
        threw = true;
      }
      size_t avail = content.size() - pos;
      if (api == A_FREAD) {
        std::string want = content.substr(pos, std::min<size_t>(sz, avail));
        VCHECK(!threw, "fread-threw", "phosg::fread threw without an I/O error");
        VCHECK(got == want, got.size() < want.size() ? "fread-truncated" : "fread-content", "fread(f,", sz, ") at ", pos, ": ", first_diff(got, want));
        pos += got.size();
        any_ok = true;
        continue;
      }
      if (sz <= avail) {
        // a stream delivers everything before EOF whatever the chunking: the exact read must succeed
        VCHECK(!threw, "freadx-spurious-throw", "freadx(", sz, ") at ", pos, " threw although ", avail, " bytes remain before EOF");
        std::string want = content.substr(pos, sz);
        VCHECK(got == want, "freadx-content", "freadx(", sz, ") at ", pos, ": ", first_diff(got, want));
        pos += sz;
        any_ok = true;
      } else {
        VCHECK(threw, "freadx-short-not-reported", "freadx(", sz, ") at ", pos, " returned normally although only ", avail, " bytes remain");
        any_short = true;
        break;
      }
    }
    bool shortreads = src.cookie.truncated > 0 || (kind == F_PIPE && !d.wchunks.empty());
    note_plan_nontrivial(shortreads ? 2 : 0, shortreads ? 1 : 0, size, any_short && any_ok);
  }
  static const char* names[] = {"readx", "preadx", "freadx", "read", "fread", "readx<T>", "readx-buf", "freadx-buf"};
  ctx().cls(cat("api:", names[api]));
}

// ---------------------------------------------------------------- a read that fails in the middle of a delivery
//
// The k-th read() / pread() / stream read callback fails with EINTR (a signal arrived before any data) or EIO; nothing is
// consumed by the failed call, the source keeps delivering afterwards. The statement leaves two outcomes: the helper
// throws, or it returns exactly the bytes the source handed out - no padding, nothing dropped, and for a read-to-end
// helper nothing missing either (a failed read is not end of file).

enum FaultApi : uint64_t { FA_READ_ALL_FD = 0,
  FA_READ_ALL_FILE = 1,
  FA_LOAD_FILE = 2,
  FA_READX = 3,
  FA_PREADX = 4,
  FA_READ = 5,
  FA_FREADX = 6,
  FA_FREAD = 7,
  FA_FGETS = 8,
  FA_NUM = 9 };

static const char* fault_api_name(uint64_t api) {
  static const char* names[] = {"read-all-fd", "read-all-file", "load-file", "readx", "preadx", "read", "freadx", "fread", "fgets"};
  return api < FA_NUM ? names[api] : "?";
}

// NUL-free text with a newline for every content byte in 1..nl (about nl/256 of the bytes)
static std::string text_bytes(uint64_t seed, size_t size, uint64_t nl) {
  std::string s = vg::expand(seed, size);
  for (auto& ch : s) {
    unsigned char u = static_cast<unsigned char>(ch);
    if (u == 0) ch = 'x';
    else if (u <= nl) ch = '\n';
    else if (ch == '\n') ch = 'y';
  }
  return s;
}

static std::string model_line(const std::string& content, size_t pos) {
  if (pos >= content.size()) return std::string();
  size_t nl = content.find('\n', pos);
  return nl == std::string::npos ? content.substr(pos) : content.substr(pos, nl + 1 - pos);
}

// verdict on a read-to-end call made while the plan held failing reads
static void check_to_end_after_fault(const std::string& nm, bool threw, const std::string& got, const std::string& content, uint64_t delivered, uint64_t faulted, int err, bool strict) {
  if (threw) {
    VCHECK(faulted > 0, nm + "-spurious-throw", nm, " threw although no read failed");
    return;
  }
  VCHECK(got.size() <= delivered, nm + "-padded:after-failed-read", nm, " returned ", got.size(), " bytes although the source handed out only ", delivered, " (", faulted, " read(s) failed with errno ", err, "): ", first_diff(got, content.substr(0, delivered)));
  VCHECK(content.compare(0, got.size(), got) == 0, nm + "-content:after-failed-read", nm, " after ", faulted, " failed read(s): ", first_diff(got, content.substr(0, delivered)));
  VCHECK(got.size() == delivered, nm + "-dropped-bytes:after-failed-read", nm, " returned ", got.size(), " of the ", delivered, " bytes the source handed out");
  if (strict || faulted == 0) {
    VCHECK(got.size() == content.size(), nm + "-truncated:after-failed-read", nm, " returned normally with ", got.size(), " of the ", content.size(), " bytes before end of file; ", faulted, " read(s) failed with errno ", err, ", which is not end of file");
  }
}

// n = [api, fd source kind, bufmode, size, seed, opsz, errno selector, L, failing call indices..., delivery...]
static void run_read_fault(const Case& c) {
  Reader r(c);
  uint64_t api = r.next(), kind = r.next(), bufmode = r.next(), size = r.next(), seed = r.next(), opsz = r.next(), esel = r.next();
  std::vector<uint64_t> faults = r.list();
  Delivery d = r.delivery();
  if (api >= FA_NUM) throw std::logic_error("case: unknown api");
  if (size > (1 << 20) || opsz > (1 << 20) || faults.size() > 16) throw std::logic_error("case outside domain");
  if (esel > 2) throw std::logic_error("case: unknown errno selector");
  // EAGAIN: what a non-blocking descriptor (make_fd_nonblocking, O_NONBLOCK pipes and sockets) reports while its writer pauses -
  // nothing consumed, more data later; it is not end of file either
  int err = esel == 0 ? EINTR : esel == 1 ? EIO : EAGAIN;
  bool seq = !(api == FA_READ_ALL_FD || api == FA_READ_ALL_FILE || api == FA_LOAD_FILE);
  if (seq && api != FA_FGETS && (opsz == 0 || size / opsz > 4000)) throw std::logic_error("case: too many operations");
  std::string content = api == FA_FGETS ? text_bytes(seed, size, 3) : vg::expand(seed, size);
  std::string nm = fault_api_name(api);
  uint64_t faulted = 0, calls = 0, trunc = 0;
  bool any_throw = false, any_ok = false;
  size_t max_ops = (opsz ? size / opsz : size) + faults.size() + 4;

  if (api == FA_READ_ALL_FD) {
    FdSource src(kind, content, d);
    plan().set_faults(faults, err);
    std::string got;
    try {
      got = phosg::read_all(src.fd);
      any_ok = true;
    } catch (const phosg::io_error&) {
      any_throw = true;
    }
    faulted = plan().faulted, calls = plan().calls, trunc = plan().truncated;
    check_to_end_after_fault(nm, any_throw, got, content, plan().delivered, faulted, err, true);
  } else if (api == FA_READ_ALL_FILE) {
    FileSource src(F_COOKIE, bufmode, content, d);
    src.cookie.fail_calls = faults;
    src.cookie.fail_errno = err;
    std::string got;
    try {
      got = phosg::read_all(src.f);
      any_ok = true;
    } catch (const phosg::io_error&) {
      any_throw = true;
    }
    faulted = src.cookie.faulted, calls = src.cookie.calls, trunc = src.cookie.truncated;
    // read_all(FILE*) used to treat a failed stream read as end of file (its `bytes_read < 0` test was applied to fread's
    // unsigned count) and returned the prefix delivered so far without throwing; repaired in /repo (ferror check), so the
    // completeness clause applies to this helper as to the other read-to-end helpers.
    check_to_end_after_fault(nm, any_throw, got, content, src.cookie.pos, faulted, err, true);
  } else if (api == FA_LOAD_FILE) {
    std::string path = scratch() + "/fault.bin";
    write_file_raw(path, content);
    std::set<int> before = open_fds();
    struct Arm {
      ~Arm() { plan().disarm(); }
    } arm;
    int probe = ::open("/dev/null", O_RDONLY);
    __real_close(probe);
    plan().arm(probe, d.limiter());
    plan().set_faults(faults, err);
    std::string got;
    try {
      got = phosg::load_file(path);
      any_ok = true;
    } catch (const std::runtime_error&) {
      any_throw = true;
    }
    faulted = plan().faulted, calls = plan().calls, trunc = plan().truncated;
    uint64_t delivered = plan().delivered;
    plan().disarm();
    if (!(calls >= 1)) {
    // the helper did not go through the interposed read()/pread()/write() on the expected descriptor (another system call, another
    // descriptor order): the fault was not delivered, so this case says nothing - counted, not judged
    ctx().exclude("fault-plan-not-delivered");
    return;
  }
    if (any_throw) {
      VCHECK(faulted > 0 || trunc > 0, nm + "-spurious-throw", "load_file threw although read() delivered everything at once");
    } else {
      check_to_end_after_fault(nm, false, got, content, delivered, faulted, err, true);
    }
    VCHECK(open_fds() == before, "load-file-fd-leak:after-failed-read", "load_file changed the set of open descriptors (it ", any_throw ? "threw" : "returned", ")");
    ::unlink(path.c_str());
  } else if (api == FA_READX || api == FA_PREADX || api == FA_READ) {
    FdSource src(api == FA_PREADX ? (uint64_t)FD_FILE : kind, content, d);
    plan().set_faults(faults, err);
    size_t pos = 0;
    for (size_t it = 0; it < max_ops; it++) {
      uint64_t sz = opsz;
      uint64_t before = plan().delivered, fbefore = plan().faulted;
      std::string got;
      bool threw = false;
      try {
        if (api == FA_READX) got = phosg::readx(src.fd, sz);
        else if (api == FA_PREADX) got = phosg::preadx(src.fd, sz, pos);
        else got = phosg::read(src.fd, sz);
      } catch (const phosg::io_error&) {
        threw = true;
      }
      uint64_t dl = plan().delivered - before, fl = plan().faulted - fbefore;
      if (threw) {
        any_throw = true;
        VCHECK(fl > 0 || (api != FA_READ && dl < sz), nm + "-spurious-throw", nm, "(", sz, ") at ", pos, " threw io_error although ", dl, " bytes were delivered and no read failed");
        if (fl > 0 && dl == 0) continue; // nothing was consumed: the caller's retry must see the same bytes
        break; // the position after a failed exact read is unspecified
      }
      if (api == FA_READ) {
        VCHECK(got.size() == dl && got.size() <= sz, "read-size:after-failed-read", "read(fd,", sz, ") returned ", got.size(), " bytes but the descriptor delivered ", dl, " (", fl, " failed read(s))");
        VCHECK(got == content.substr(pos, got.size()), "read-content:after-failed-read", "read(fd,", sz, ") at ", pos, ": ", first_diff(got, content.substr(pos, got.size())));
        pos += got.size();
        any_ok = true;
        if (got.empty()) break; // end of file
        continue;
      }
      std::string want = pos < content.size() ? content.substr(pos, sz) : std::string();
      VCHECK(got.size() == sz, nm + "-size:after-failed-read", nm, "(", sz, ") returned ", got.size(), " bytes");
      VCHECK(want.size() == sz && dl >= sz, nm + "-short-not-reported:after-failed-read", nm, "(", sz, ") at ", pos, " returned normally although only ", dl, " bytes were delivered (", fl, " failed read(s), source holds ", content.size(), ")");
      VCHECK(got == want, nm + "-content:after-failed-read", nm, "(", sz, ") at ", pos, ": ", first_diff(got, want));
      pos += sz;
      any_ok = true;
      if (pos >= size) break;
    }
    faulted = plan().faulted, calls = plan().calls, trunc = plan().truncated;
  } else {
    FileSource src(F_COOKIE, bufmode, content, d);
    src.cookie.fail_calls = faults;
    src.cookie.fail_errno = err;
    size_t pos = 0;
    if (api == FA_FGETS) max_ops = size + faults.size() + 4;
    for (size_t it = 0; it < max_ops; it++) {
      uint64_t sz = opsz;
      size_t avail = content.size() - pos;
      uint64_t fbefore = src.cookie.faulted;
      std::string got;
      bool threw = false;
      try {
        if (api == FA_FREADX) got = phosg::freadx(src.f, sz);
        else if (api == FA_FREAD) got = phosg::fread(src.f, sz);
        else got = phosg::fgets(src.f);
      } catch (const phosg::io_error&) {
        threw = true;
      }
      uint64_t fl = src.cookie.faulted - fbefore;
      if (threw) {
        any_throw = true;
        VCHECK(fl > 0 || (api == FA_FREADX && sz > avail), nm + "-spurious-throw", nm, " at ", pos, " threw io_error although no read failed and ", avail, " bytes remain");
        break; // bytes already taken into the stream buffer by the failed call are gone with it
      }
      if (api == FA_FREADX) {
        VCHECK(sz <= avail, "freadx-short-not-reported:after-failed-read", "freadx(", sz, ") at ", pos, " returned normally although only ", avail, " bytes remain");
        VCHECK(got == content.substr(pos, sz), "freadx-content:after-failed-read", "freadx(", sz, ") at ", pos, " (", fl, " failed read(s)): ", first_diff(got, content.substr(pos, sz)));
        pos += sz;
      } else if (api == FA_FREAD) {
        std::string full = content.substr(pos, std::min<size_t>(sz, avail));
        VCHECK(got.size() <= full.size(), "fread-padded:after-failed-read", "fread(f,", sz, ") at ", pos, " returned ", got.size(), " bytes, only ", full.size(), " can be delivered");
        VCHECK(full.compare(0, got.size(), got) == 0, "fread-content:after-failed-read", "fread(f,", sz, ") at ", pos, ": ", first_diff(got, full));
        if (fl == 0) VCHECK(got.size() == full.size(), "fread-truncated", "fread(f,", sz, ") at ", pos, " returned ", got.size(), " of ", full.size(), " bytes although no read failed");
        pos += got.size();
        if (got.empty() && fl == 0) break; // end of file
      } else {
        std::string line = model_line(content, pos);
        VCHECK(got == line, got.size() < line.size() ? "fgets-line-truncated:after-failed-read" : "fgets-line-content:after-failed-read", "fgets at ", pos, " (", fl, " failed read(s) during the call) returned normally: ", first_diff(got, line));
        pos += got.size();
        if (got.empty()) break; // end of file
      }
      any_ok = true;
      if (pos >= size && api == FA_FREADX) break;
    }
    faulted = src.cookie.faulted, calls = src.cookie.calls, trunc = src.cookie.truncated;
  }
  if (faulted > 0 && (calls >= 2 || any_ok)) ctx().nontrivial_case();
  ctx().cls(cat("read_fault:", nm, faulted == 0 ? ":fault-not-reached" : any_throw ? (any_ok ? ":threw+ok" : ":threw") : ":returned"));
  ctx().cls(err == EINTR ? "read_fault:EINTR" : err == EIO ? "read_fault:EIO" : "read_fault:EAGAIN");
  (void)trunc;
}

// ---------------------------------------------------------------- several helpers on one source, one after the other
//
// A source that has already been partly consumed (header through freadx/fgets/fgetcx, the rest through read_all, ...)
// still delivers exactly its remaining bytes to the next helper: the concatenation of everything returned is the content.

enum MixOp : uint64_t { M_FGETS = 0,
  M_FREADX = 1,
  M_FREAD = 2,
  M_FGETCX = 3,
  M_READ_ALL = 4,
  M_NUM = 5 }; // fd family: M_FREADX = readx, M_FREAD = read, M_READ_ALL = read_all(fd); the others are not available

// n = [family (0 FILE*, 1 fd), source kind, bufmode, size, seed, newline density, delivery..., L, (op, arg)...]
static void run_mixed_reads(const Case& c) {
  Reader r(c);
  uint64_t family = r.next(), kind = r.next(), bufmode = r.next(), size = r.next(), seed = r.next(), nl = r.next();
  if (family > 1 || size > (1 << 20) || nl > 200) throw std::logic_error("case outside domain");
  Delivery d = r.delivery();
  std::vector<uint64_t> ops = r.list();
  if (ops.size() > 64 || ops.size() % 2) throw std::logic_error("case: bad op list");
  std::string content = text_bytes(seed, size, nl);
  size_t pos = 0;
  std::set<uint64_t> consumers; // helpers that actually took bytes
  bool read_all_after_use = false, shortreads = false;
  static const char* opnames[] = {"fgets", "freadx", "fread", "fgetcx", "read_all"};
  auto run_ops = [&](FILE* f, int fd) {
    for (size_t i = 0; i + 1 < ops.size(); i += 2) {
      uint64_t op = ops[i], arg = ops[i + 1];
      if (op >= M_NUM || arg > (1 << 20)) throw std::logic_error("case: unknown op");
      if (!f && (op == M_FGETS || op == M_FGETCX)) throw std::logic_error("case: stream-only op on a descriptor");
      size_t avail = content.size() - pos;
      std::string got;
      bool threw = false;
      uint64_t before = plan().delivered;
      try {
        switch (op) {
          case M_FGETS: got = phosg::fgets(f); break;
          case M_FREADX: got = f ? phosg::freadx(f, arg) : phosg::readx(fd, arg); break;
          case M_FREAD: got = f ? phosg::fread(f, arg) : phosg::read(fd, arg); break;
          case M_FGETCX: got.assign(1, static_cast<char>(phosg::fgetcx(f))); break;
          case M_READ_ALL: got = f ? phosg::read_all(f) : phosg::read_all(fd); break;
        }
      } catch (const phosg::io_error&) {
        threw = true;
      }
      std::string ctxt = cat(f ? "" : "fd ", opnames[op], op == M_FREADX || op == M_FREAD ? cat("(", arg, ")") : std::string(), " as operation ", i / 2, " at offset ", pos, " of ", content.size());
      std::string want;
      switch (op) {
        case M_FGETS: want = model_line(content, pos); break;
        case M_FREADX:
          if (f) {
            VCHECK(threw == (arg > avail), threw ? "mixed-freadx-spurious-throw" : "mixed-freadx-short-not-reported", ctxt, ": ", threw ? "threw" : "returned", " with ", avail, " bytes before end of stream");
          } else {
            uint64_t dl = plan().delivered - before;
            if (threw) VCHECK(dl < arg, "mixed-readx-spurious-throw", ctxt, ": threw although ", dl, " bytes were delivered");
            else VCHECK(dl >= arg && arg <= avail, "mixed-readx-short-not-reported", ctxt, ": returned although ", dl, " bytes were delivered");
          }
          if (threw) return; // position unspecified from here on
          want = content.substr(pos, arg);
          break;
        case M_FREAD:
          if (f) want = content.substr(pos, std::min<size_t>(arg, avail));
          else {
            uint64_t dl = plan().delivered - before;
            VCHECK(!threw && got.size() == dl && dl <= arg, "mixed-read-size", ctxt, ": returned ", got.size(), " bytes, the descriptor delivered ", dl);
            want = content.substr(pos, got.size());
          }
          break;
        case M_FGETCX:
          VCHECK(threw == (avail == 0), threw ? "mixed-fgetcx-spurious-throw" : "mixed-fgetcx-eof-not-reported", ctxt, ": ", threw ? "threw" : "returned");
          if (threw) continue;
          want = content.substr(pos, 1);
          break;
        case M_READ_ALL: want = content.substr(pos); break;
      }
      VCHECK(!threw, cat("mixed-", opnames[op], "-threw"), ctxt, ": threw io_error without an I/O error");
      bool used = pos > 0;
      std::string tag = op == M_READ_ALL ? (f ? "read-all-file" : "read-all-fd") : cat("mixed-", opnames[op]);
      std::string clause = tag + (got.size() < want.size() ? "-truncated" : "-content") + (used ? ":after-earlier-reads" : "");
      VCHECK(got == want, clause, ctxt, ": ", first_diff(got, want));
      if (!got.empty()) consumers.insert(op);
      if (op == M_READ_ALL && used && !want.empty()) read_all_after_use = true;
      pos += got.size();
    }
  };
  if (family == 0) {
    FileSource src(kind, bufmode, content, d);
    run_ops(src.f, -1);
    shortreads = src.cookie.truncated > 0 || (kind == F_PIPE && !d.wchunks.empty());
    ctx().cls(cat("mixed:", kind == F_COOKIE ? "FILE-cookie" : kind == F_MEM ? "FILE-mem" : kind == F_PIPE ? "FILE-pipe" : "FILE-file"));
  } else {
    FdSource src(kind, content, d);
    run_ops(nullptr, src.fd);
    shortreads = plan().truncated > 0 || (kind == FD_PIPE && !d.wchunks.empty());
    ctx().cls(kind == FD_FILE ? "mixed:fd-file" : "mixed:fd-pipe");
  }
  if (consumers.size() >= 2 || read_all_after_use) ctx().nontrivial_case();
  if (read_all_after_use) ctx().cls("mixed:read_all-on-a-used-source");
  ctx().cls(shortreads ? "delivery:short-reads" : "delivery:whole");
}

// ---------------------------------------------------------------- list_directory

// s = entry names; n = [type per name: 0 file, 1 directory, 2 dangling symlink, 3 symlink to ".", 4 fifo]
static void run_list_dir(const Case& c) {
  std::string dir = scratch() + "/ld";
  rm_rf(dir);
  if (::mkdir(dir.c_str(), 0777) != 0) throw std::logic_error("harness: mkdir failed");
  std::set<std::string> names;
  bool odd = false;
  for (size_t i = 0; i < c.s.size(); i++) {
    const std::string& nm = c.s[i];
    if (nm.empty() || nm.size() > 255 || nm == "." || nm == ".." || nm.find('/') != std::string::npos || nm.find('\0') != std::string::npos) {
      throw std::logic_error("case: not a legal entry name");
    }
    if (!names.insert(nm).second) continue;
    std::string p = dir + "/" + nm;
    uint64_t t = i < c.n.size() ? c.u(i) : 0;
    int rc = 0;
    switch (t) {
      case 0: {
        int fd = ::open(p.c_str(), O_CREAT | O_WRONLY, 0644);
        rc = fd < 0 ? -1 : 0;
        if (fd >= 0) __real_close(fd);
        break;
      }
      case 1: rc = ::mkdir(p.c_str(), 0777); break;
      case 2: rc = ::symlink("does-not-exist", p.c_str()); break;
      case 3: rc = ::symlink(".", p.c_str()); break;
      case 4: rc = ::mkfifo(p.c_str(), 0644); break;
      default: throw std::logic_error("case: unknown entry type");
    }
    if (rc != 0) throw std::logic_error(cat("harness: cannot create entry (", strerror(errno), ")"));
    if (nm[0] == '.' || nm.size() > 200) odd = true;
    for (unsigned char ch : nm)
      if (ch < 0x20 || ch >= 0x7F) odd = true;
  }
  std::set<int> before = open_fds();
  std::unordered_set<std::string> got = phosg::list_directory(dir);
  std::vector<std::string> sorted = phosg::list_directory_sorted(dir);
  VCHECK(open_fds() == before, "list-directory-fd-leak", "list_directory left a descriptor open");
  for (const auto& nm : names) VCHECK(got.count(nm), "list-directory-missing", "entry ", hex(nm), " (hex) is not listed; ", got.size(), " of ", names.size(), " listed");
  for (const auto& nm : got) VCHECK(names.count(nm), "list-directory-extra", "listed entry ", hex(nm), " (hex) was never created");
  std::vector<std::string> want(names.begin(), names.end());
  VCHECK(sorted == want, "list-directory-sorted", "list_directory_sorted returned ", sorted.size(), " names, expected the ", want.size(), " created names in byte order");
  bool threw = false;
  try {
    phosg::list_directory(dir + "/no-such-directory-entry");
  } catch (const phosg::cannot_open_file&) {
    threw = true;
  }
  VCHECK(threw, "list-directory-missing-dir", "listing a directory that does not exist did not throw cannot_open_file");
  if (names.size() >= 2 && odd) ctx().nontrivial_case();
  ctx().cls(names.size() > 117 ? "listdir:>117-entries" : names.size() == 0 ? "listdir:empty" : "listdir:small");
  rm_rf(dir);
}

// ---------------------------------------------------------------- unlink

struct Snapshot {
  std::map<std::string, std::string> entries; // relative path -> "d" / "l:<target>" / "f:<content>"
  void walk(const std::string& base, const std::string& rel) {
    std::string p = rel.empty() ? base : base + "/" + rel;
    struct stat st;
    if (::lstat(p.c_str(), &st) != 0) return;
    if (S_ISDIR(st.st_mode)) {
      entries[rel + "/"] = "d";
      DIR* d = opendir(p.c_str());
      if (!d) return;
      std::vector<std::string> names;
      while (struct dirent* e = readdir(d)) {
        if (!strcmp(e->d_name, ".") || !strcmp(e->d_name, "..")) continue;
        names.push_back(e->d_name);
      }
      closedir(d);
      for (const auto& n : names) walk(base, rel.empty() ? n : rel + "/" + n);
    } else if (S_ISLNK(st.st_mode)) {
      char buf[4096];
      ssize_t l = ::readlink(p.c_str(), buf, sizeof(buf));
      entries[rel] = "l:" + std::string(buf, l > 0 ? l : 0);
    } else {
      std::string content;
      read_file_raw(p, content);
      entries[rel] = "f:" + content;
    }
  }
};

enum EntryType : uint64_t { E_FILE = 0,
  E_DIR = 1,
  E_LINK_OUT_DIR = 2,
  E_LINK_OUT_FILE = 3,
  E_LINK_DANGLING = 4,
  E_LINK_IN_DIR = 5,
  E_FIFO = 6 };

// n = [root_kind, recursive, relative_links, count, (parent, type) x count]
// root_kind: 0 directory tree, 1 regular file, 2 symlink to the outside directory, 3 absent, 4 symlink to an outside file,
//            5 dangling symlink
static void run_unlink(const Case& c) {
  Reader r(c);
  uint64_t root_kind = r.next(), recursive = r.next(), rel_links = r.next(), count = r.next();
  if (count > 400) throw std::logic_error("tree too large");
  std::string top = scratch() + "/ul";
  rm_rf(top);
  ::mkdir(top.c_str(), 0777);
  std::string outside = top + "/outside", root = top + "/root";
  ::mkdir(outside.c_str(), 0777);
  ::mkdir((outside + "/sub").c_str(), 0777);
  write_file_raw(outside + "/keep1", "precious-1");
  write_file_raw(outside + "/sub/keep2", "precious-2");
  ::symlink("keep1", (outside + "/link").c_str());
  char cwdbuf[4096];
  if (!::getcwd(cwdbuf, sizeof(cwdbuf))) throw std::logic_error("harness: getcwd");
  std::string abs_out = std::string(cwdbuf) + "/" + outside;
  bool has_dir_link = false, has_depth = false;
  switch (root_kind) {
    case 0: {
      ::mkdir(root.c_str(), 0777);
      std::vector<std::string> dirs{root};
      std::vector<int> depth{0};
      for (uint64_t i = 0; i < count; i++) {
        uint64_t parent = r.next(), type = r.next();
        if (parent >= dirs.size()) parent = dirs.size() - 1;
        std::string p = dirs[parent] + "/e" + std::to_string(i);
        int dp = depth[parent];
        std::string up;
        for (int k = 0; k <= dp; k++) up += "../";
        std::string out_target = rel_links ? up + "outside" : abs_out;
        int rc = 0;
        switch (type) {
          case E_FILE: write_file_raw(p, "x" + std::to_string(i)); break;
          case E_DIR:
            rc = ::mkdir(p.c_str(), 0777);
            dirs.push_back(p);
            depth.push_back(dp + 1);
            if (dp + 1 >= 2) has_depth = true;
            if (dp + 1 > 4) throw std::logic_error("tree deeper than 4");
            break;
          case E_LINK_OUT_DIR:
            rc = ::symlink(out_target.c_str(), p.c_str());
            has_dir_link = true;
            break;
          case E_LINK_OUT_FILE: rc = ::symlink((out_target + "/keep1").c_str(), p.c_str()); break;
          case E_LINK_DANGLING: rc = ::symlink("nowhere/at/all", p.c_str()); break;
          case E_LINK_IN_DIR:
            rc = ::symlink(".", p.c_str());
            has_dir_link = true;
            break;
          case E_FIFO: rc = ::mkfifo(p.c_str(), 0644); break;
          default: throw std::logic_error("case: unknown entry type");
        }
        if (rc != 0) throw std::logic_error(cat("harness: cannot create tree entry: ", strerror(errno)));
      }
      break;
    }
    case 1: write_file_raw(root, "plain"); break;
    case 2:
      ::symlink(rel_links ? "outside" : abs_out.c_str(), root.c_str());
      has_dir_link = true;
      break;
    case 3: break;
    case 4: ::symlink("outside/keep1", root.c_str()); break;
    case 5: ::symlink("nowhere", root.c_str()); break;
    default: throw std::logic_error("case: unknown root kind");
  }
  Snapshot before;
  before.walk(outside, "");
  std::set<int> fds_before = open_fds();
  std::string what;
  bool threw = false;
  try {
    phosg::unlink(root, recursive != 0);
  } catch (const std::runtime_error& e) {
    threw = true;
    what = e.what();
  }
  Snapshot after;
  after.walk(outside, "");
  std::string cls = has_dir_link ? ":dir-symlink" : "";
  VCHECK(after.entries == before.entries, "unlink-touched-outside" + cls, "unlink(", root, ", ", recursive, ") changed the directory the tree only links to: ", before.entries.size(), " entries before, ", after.entries.size(), " after", threw ? "; it also threw: " + what : std::string());
  struct stat st;
  bool gone = (::lstat(root.c_str(), &st) != 0 && errno == ENOENT);
  if (root_kind == 0 && !recursive) {
    VCHECK(threw, "unlink-directory-nonrecursive", "non-recursive unlink of a directory did not throw");
    VCHECK(!gone, "unlink-directory-nonrecursive", "non-recursive unlink of a directory removed it");
  } else {
    VCHECK(!threw, "unlink-threw" + cls, "unlink(", root, ", ", recursive, ") threw: ", what);
    VCHECK(gone, "unlink-left-behind" + cls, "after unlink(", root, ", ", recursive, ") the path still exists");
  }
  VCHECK(open_fds() == fds_before, "unlink-fd-leak", "unlink left a descriptor open");
  if ((root_kind == 0 && count >= 3 && (has_dir_link || has_depth)) || root_kind == 2) ctx().nontrivial_case();
  ctx().cls(cat("unlink:root-kind-", root_kind, recursive ? "" : ":flat"));
  if (has_dir_link) ctx().cls("unlink:has-dir-symlink");
  rm_rf(top);
}

// ---------------------------------------------------------------- dirname / basename

// s = [path]
static void run_path(const Case& c) {
  const std::string& p = c.str(0);
  std::string d = phosg::dirname(p), b = phosg::basename(p);
  VCHECK(b.find('/') == std::string::npos, "basename-has-slash", "basename(", hex(p), ") contains a slash");
  if (p.find('/') != std::string::npos) {
    VCHECK(d + "/" + b == p, "dirname-basename-recompose", "dirname+'/'+basename of (hex) ", hex(p), " gives (hex) ", hex(d + "/" + b));
    size_t cut = p.rfind('/');
    VCHECK(d.size() == cut && b.size() == p.size() - cut - 1, "dirname-basename-split-point", "split is not at the last slash for (hex) ", hex(p));
    if (p.size() > 2 && p.find('/') != p.rfind('/')) ctx().nontrivial_case();
  } else {
    if (!d.empty()) ctx().cls("path:dirname of a slash-free path is not empty");
    VCHECK(b == p, "basename-no-slash", "path without a slash: basename/dirname are (hex) ", hex(b), " / ", hex(d));
  }
}

// ---------------------------------------------------------------- scoped_fd

enum ScopedOp : uint64_t { S_DEFAULT = 0,
  S_FROM_INT = 1,
  S_FROM_NAME = 2,
  S_FROM_BAD_NAME = 3,
  S_MOVE_CONSTRUCT = 4,
  S_MOVE_ASSIGN = 5,
  S_ASSIGN_INT = 6,
  S_OPEN = 7,
  S_OPEN_BAD = 8,
  S_CLOSE = 9,
  S_DESTROY = 10,
  S_FROM_CSTR = 11,
  S_OPEN_CSTR = 12,
  S_NUM_OPS = 13 };

// n = [(op, a, b) ..., optional fault word] over 3 slots; an op that does not fit the current state is skipped.
// Fault word (present when the length is 1 mod 3): mode = w & 3 (1: close() releases the descriptor but reports EINTR; 2: the
// number is also re-used at once by an unrelated descriptor), mask = w >> 2 selects the close() calls (see CloseLog). "Close
// exactly once" is about the number of close() calls on an owned descriptor, whatever the call reports: the expected list of
// close() calls per operation is the same with and without the fault, a second call on the number is a double close (EBADF)
// or closes the unrelated descriptor that now has the number.
static void run_scoped_fd(const Case& c) {
  const int kSlots = 3;
  static const std::string good = [] {
    std::string p = scratch() + "/scoped.bin";
    write_file_raw(p, "scoped");
    return p;
  }();
  std::string bad = scratch() + "/no-such-dir/x";
  std::optional<phosg::scoped_fd> slot[kSlots];
  int model[kSlots] = {-1, -1, -1}; // descriptor owned by the slot's object
  std::map<int, int> owned; // every descriptor ever given to a scoped_fd -> times closed
  std::set<int> live; // owned and not yet closed according to the model
  std::set<int> before = open_fds();
  CloseLog& log = closelog();
  uint64_t fault_word = (c.n.size() % 3 == 1) ? c.u(c.n.size() - 1) : 0;
  if ((fault_word & 3) == 3) throw std::logic_error("case: bad scoped_fd fault word");
  log.start(static_cast<int>(fault_word & 3), fault_word >> 2);
  struct StopLog {
    ~StopLog() {
      closelog().stop();
      for (int fd : closelog().reused) __real_close(fd);
      closelog().reused.clear();
    }
  } stop_log;
  size_t log_pos = 0;
  size_t steps = 0, effective = 0;
  bool moved = false;
  auto fresh = [&]() {
    int fd = ::open("/dev/null", O_RDONLY);
    if (fd < 0) throw std::logic_error("harness: cannot open /dev/null");
    return fd;
  };
  auto own = [&](int fd) {
    // descriptor numbers are recycled: a new ownership starts a new count
    owned[fd] = 0;
    live.insert(fd);
  };
  // compare the close() calls made by the last operation with the model's expectation
  auto expect_closes = [&](std::vector<int> want, const char* op) {
    std::vector<int> got;
    for (; log_pos < log.events.size(); log_pos++) {
      const auto& ev = log.events[log_pos];
      VCHECK(ev.err == 0 || ev.injected, log.faulted ? "scoped-fd-close-failed:after-close-reported-EINTR" : "scoped-fd-close-failed", op, ": close(", ev.fd, ") failed with errno ", ev.err,
          log.faulted ? " after an earlier close() released its descriptor and reported EINTR (closed again?)" : " (double close?)");
      got.push_back(ev.fd);
    }
    // descriptors that took over a released number are unrelated to every scoped_fd: they must still be open
    for (int fd : log.reused)
      VCHECK(::fcntl(fd, F_GETFD) != -1, "scoped-fd-closed-unrelated-descriptor", op, " (step ", steps, "): descriptor ", fd, ", opened by someone else after close(", fd,
          ") released the number and reported EINTR, has been closed");
    std::sort(got.begin(), got.end());
    std::sort(want.begin(), want.end());
    if (got != want) {
      std::string g, w;
      for (int v : got) g += cat(v, " ");
      for (int v : want) w += cat(v, " ");
      VFAIL(cat(got.size() > want.size() ? "scoped-fd-extra-close" : "scoped-fd-missing-close", log.faulted ? ":after-close-reported-EINTR" : ""), op, " (step ", steps, "): close() was called on [", g, "] expected [", w, "]",
          log.faulted ? " (a close() call released its descriptor and reported EINTR)" : "");
    }
    for (int v : want) live.erase(v);
  };
  auto take = [&](int s) {
    std::vector<int> v;
    if (model[s] >= 0) v.push_back(model[s]);
    return v;
  };
  for (size_t i = 0; i + 2 < c.n.size(); i += 3) {
    uint64_t op = c.u(i), a = c.u(i + 1) % kSlots, b = c.u(i + 2) % kSlots;
    steps++;
    bool did = true;
    switch (op) {
      case S_DEFAULT:
        if (slot[a]) { did = false; break; }
        slot[a].emplace();
        model[a] = -1;
        expect_closes({}, "default constructor");
        break;
      case S_FROM_INT: {
        if (slot[a]) { did = false; break; }
        int fd = fresh();
        slot[a].emplace(fd);
        model[a] = fd;
        own(fd);
        expect_closes({}, "scoped_fd(int)");
        break;
      }
      case S_FROM_NAME:
      case S_FROM_CSTR: {
        if (slot[a]) { did = false; break; }
        if (op == S_FROM_NAME) slot[a].emplace(good, O_RDONLY);
        else slot[a].emplace(good.c_str(), O_RDONLY);
        int fd = static_cast<int>(*slot[a]);
        VCHECK(fd >= 0 && !before.count(fd) && !live.count(fd), "scoped-fd-open-descriptor", "scoped_fd(filename) holds descriptor ", fd);
        model[a] = fd;
        own(fd);
        expect_closes({}, "scoped_fd(filename)");
        break;
      }
      case S_FROM_BAD_NAME: {
        if (slot[a]) { did = false; break; }
        bool threw = false;
        try {
          slot[a].emplace(bad, O_RDONLY);
        } catch (const phosg::cannot_open_file&) {
          threw = true;
        }
        VCHECK(threw, "scoped-fd-bad-open", "opening a missing file did not throw cannot_open_file");
        slot[a].reset();
        expect_closes({}, "scoped_fd(missing file)");
        break;
      }
      case S_MOVE_CONSTRUCT:
        if (slot[a] || !slot[b] || a == b) { did = false; break; }
        slot[a].emplace(std::move(*slot[b]));
        model[a] = model[b];
        model[b] = -1;
        moved = true;
        expect_closes({}, "move constructor");
        break;
      case S_MOVE_ASSIGN: {
        if (!slot[a] || !slot[b] || a == b) { did = false; break; }
        std::vector<int> want = take(a);
        *slot[a] = std::move(*slot[b]);
        model[a] = model[b];
        model[b] = -1;
        moved = true;
        expect_closes(want, "move assignment");
        break;
      }
      case S_ASSIGN_INT: {
        if (!slot[a]) { did = false; break; }
        std::vector<int> want = take(a);
        int fd = fresh();
        *slot[a] = fd;
        model[a] = fd;
        expect_closes(want, "operator=(int)");
        own(fd);
        break;
      }
      case S_OPEN:
      case S_OPEN_CSTR: {
        if (!slot[a]) { did = false; break; }
        std::vector<int> want = take(a);
        if (op == S_OPEN) slot[a]->open(good, O_RDONLY);
        else slot[a]->open(good.c_str(), O_RDONLY);
        expect_closes(want, "open(filename)");
        int fd = static_cast<int>(*slot[a]);
        VCHECK(fd >= 0 && !live.count(fd), "scoped-fd-open-descriptor", "open(filename) holds descriptor ", fd);
        model[a] = fd;
        own(fd);
        break;
      }
      case S_OPEN_BAD: {
        if (!slot[a]) { did = false; break; }
        std::vector<int> want = take(a);
        bool threw = false;
        try {
          slot[a]->open(bad, O_RDONLY);
        } catch (const phosg::cannot_open_file&) {
          threw = true;
        }
        VCHECK(threw, "scoped-fd-bad-open", "open() of a missing file did not throw cannot_open_file");
        if (!want.empty() && log_pos == log.events.size() && static_cast<int>(*slot[a]) == want[0]) {
          // "close exactly once" does not say when: an open() that fails may release the old descriptor first (as in /repo) or keep
          // owning it until a later close / destruction - then the model keeps it too
          ctx().cls("scoped_fd:failed-open-keeps-the-old-descriptor");
          expect_closes({}, "open(missing file)");
        } else {
          model[a] = -1;
          expect_closes(want, "open(missing file)");
        }
        break;
      }
      case S_CLOSE: {
        if (!slot[a]) { did = false; break; }
        std::vector<int> want = take(a);
        slot[a]->close();
        model[a] = -1;
        expect_closes(want, "close()");
        break;
      }
      case S_DESTROY: {
        if (!slot[a]) { did = false; break; }
        std::vector<int> want = take(a);
        slot[a].reset();
        model[a] = -1;
        expect_closes(want, "destructor");
        break;
      }
      default: throw std::logic_error("case: unknown scoped_fd op");
    }
    if (did) effective++;
    for (int s = 0; s < kSlots; s++) {
      if (!slot[s]) continue;
      VCHECK(slot[s]->is_open() == (model[s] >= 0), "scoped-fd-is-open", "slot ", s, " is_open() is ", slot[s]->is_open(), " but the model descriptor is ", model[s]);
      VCHECK(static_cast<int>(*slot[s]) == model[s], "scoped-fd-value", "slot ", s, " holds ", static_cast<int>(*slot[s]), " expected ", model[s]);
    }
  }
  for (int s = 0; s < kSlots; s++) {
    if (!slot[s]) continue;
    std::vector<int> want = take(s);
    slot[s].reset();
    model[s] = -1;
    steps++;
    expect_closes(want, "final destructor");
  }
  log.stop();
  uint64_t close_faults = log.faulted;
  for (int fd : log.reused) __real_close(fd);
  log.reused.clear();
  VCHECK(live.empty(), "scoped-fd-leak", live.size(), " owned descriptor(s) were never closed");
  VCHECK(open_fds() == before, "scoped-fd-table-changed", "the descriptor table differs from the one before the history");
  if ((effective >= 3 && moved) || (effective >= 2 && close_faults)) ctx().nontrivial_case();
  if (fault_word & 3) ctx().cls(close_faults ? ((fault_word & 3) == 2 ? "scoped_fd:a close() reported EINTR and the number was re-used" : "scoped_fd:a close() reported EINTR") : "scoped_fd:close fault not reached");
}

// ---------------------------------------------------------------- Poll

struct PollFixture {
  int base[3];
  PollFixture() {
    int a[2], b[2], cc[2];
    if (::pipe(a) || ::pipe(b) || ::pipe(cc)) throw std::logic_error("harness: pipe");
    if (::write(a[1], "x", 1) != 1) throw std::logic_error("harness: write");
    base[0] = a[0]; // readable now
    base[1] = b[1]; // writable now
    base[2] = cc[0]; // neither (empty pipe, writer open)
  }
};

// n = [perm, (slot, action) ...]; action: 0 add POLLIN, 1 add POLLOUT, 2 remove, 3 add POLLIN|POLLOUT, 4 remove+close, 5 add 0,
// 6 the slot's descriptor is closed behind Poll's back (a plain close(), not Poll::remove), 7 the slot's descriptor NUMBER is
// re-opened / replaced by a duplicate of base descriptor (slot code / 3) % 3 (dup2: what the lowest-free-number rule does to
// a closed number sooner or later). Poll tracks descriptor numbers as a map: neither of the two is an add or a remove, so
// the model keeps its entries; what poll() reports for them is whatever ::poll reports for that number (POLLNVAL while it
// is closed, the new object's readiness after re-use).
static void run_poll(const Case& c) {
  static PollFixture fx;
  uint64_t perm = c.u(0) % 6;
  static const int orders[6][3] = {{0, 1, 2}, {0, 2, 1}, {1, 0, 2}, {1, 2, 0}, {2, 0, 1}, {2, 1, 0}};
  int fds[3] = {-1, -1, -1};
  bool ext_closed[3] = {false, false, false}; // fds[s] is a number that was closed behind Poll's back (still possibly registered)
  struct Cleanup {
    int* f;
    bool* closed;
    ~Cleanup() {
      closelog().stop();
      for (int k = 0; k < 3; k++)
        if (f[k] >= 0 && !closed[k]) __real_close(f[k]);
    }
  } cleanup{fds, ext_closed};
  // a new descriptor for slot s: the lowest free number, but never a number that is currently closed-behind-the-back
  // (those are re-used only by action 7, explicitly)
  auto fresh = [&](int s) {
    int floor = 0;
    for (int k = 0; k < 3; k++)
      if (ext_closed[k]) floor = std::max(floor, fds[k] + 1);
    int fd = ::fcntl(fx.base[s], F_DUPFD, floor);
    if (fd < 0) throw std::logic_error("harness: dup");
    return fd;
  };
  bool ext_happened = false;
  for (int k = 0; k < 3; k++) {
    int s = orders[perm][k];
    fds[s] = fresh(s);
  }
  std::map<int, short> model;
  phosg::Poll p;
  CloseLog& log = closelog();
  log.start();
  size_t log_pos = 0;
  bool readd = false, removed_present = false;
  VCHECK(p.empty(), "poll-empty-initial", "a new Poll is not empty");
  size_t step = 0;
  for (size_t i = 1; i + 1 < c.n.size(); i += 2, step++) {
    uint64_t s = c.u(i) % 3, src = (c.u(i) / 3) % 3, act = c.u(i + 1);
    if (fds[s] < 0) fds[s] = fresh(s);
    int fd = fds[s];
    std::vector<int> want_closed;
    // remove(fd, true) on a number that is not open would make Poll close() a closed descriptor: not an operation of the
    // histories (what that does is not part of the map contract); it is run as a plain remove
    if (act == 4 && ext_closed[s]) act = 2;
    switch (act) {
      case 0:
      case 1:
      case 3:
      case 5: {
        short ev = act == 0 ? POLLIN : act == 1 ? POLLOUT : act == 3 ? (POLLIN | POLLOUT) : 0;
        if (model.count(fd)) readd = true;
        p.add(fd, ev);
        model[fd] = ev;
        break;
      }
      case 2:
        if (model.count(fd)) removed_present = true;
        p.remove(fd);
        model.erase(fd);
        break;
      case 4:
        if (model.count(fd)) {
          removed_present = true;
          want_closed.push_back(fd);
        }
        p.remove(fd, true);
        if (model.erase(fd)) fds[s] = -1;
        break;
      case 6:
        if (!ext_closed[s]) {
          if (__real_close(fd) != 0) throw std::logic_error("harness: close");
          ext_closed[s] = true;
          ext_happened = true;
        }
        break;
      case 7:
        // the number now names (a duplicate of) base descriptor `src`, whether it was closed or open before
        if (::dup2(fx.base[src], fd) != fd) throw std::logic_error("harness: dup2");
        ext_closed[s] = false;
        ext_happened = true;
        break;
      default: throw std::logic_error("case: unknown poll action");
    }
    std::vector<int> got_closed;
    for (; log_pos < log.events.size(); log_pos++) {
      VCHECK(log.events[log_pos].err == 0, "poll-close-failed", "step ", step, ": close(", log.events[log_pos].fd, ") failed");
      got_closed.push_back(log.events[log_pos].fd);
    }
    VCHECK(got_closed == want_closed, "poll-remove-close", "step ", step, ": remove(fd,", act == 4, ") closed ", got_closed.size(), " descriptor(s), expected ", want_closed.size());
    VCHECK(p.empty() == model.empty(), ext_happened ? "poll-empty:after-external-close-or-reuse" : readd ? "poll-empty:after-readd" : "poll-empty", "step ", step, ": empty() is ", p.empty(), " but the model holds ", model.size(), " descriptor(s)");
    auto ready = p.poll(0);
    std::map<int, short> want;
    for (const auto& it : model) {
      struct pollfd pfd = {it.first, it.second, 0};
      if (::poll(&pfd, 1, 0) < 0) throw std::logic_error("harness: poll");
      if (pfd.revents) want[it.first] = pfd.revents;
    }
    std::map<int, short> got(ready.begin(), ready.end());
    if (got != want) {
      std::string g, w;
      for (auto& it : got) g += cat(it.first, ":", it.second, " ");
      for (auto& it : want) w += cat(it.first, ":", it.second, " ");
      VFAIL(ext_happened ? "poll-ready-set:after-external-close-or-reuse" : readd ? "poll-ready-set:after-readd" : "poll-ready-set", "step ", step, ": poll(0) returned {", g, "} expected {", w, "} (fd:revents)");
    }
  }
  log.stop();
  if (ext_happened) ctx().cls("poll:descriptor-closed-or-replaced-behind-poll");
  if (step >= 3 && (readd || removed_present || ext_happened)) ctx().nontrivial_case();
}

// ---------------------------------------------------------------- generators

static size_t gen_size(size_t max = 200 * 1024) {
  switch (vg::below(8)) {
    case 0: return vg::below(12);
    case 1: return 250 + vg::below(11);
    case 2: return 16380 + vg::below(11);
    case 3: return 32764 + vg::below(9);
    case 4: return std::min<size_t>(max, 65530 + vg::below(12));
    case 5: return vg::below(std::min<size_t>(max, 70000) + 1);
    default: return vg::scaled(max);
  }
}

// reader-side plan whose number of reads stays below ~4000 for `total` bytes
static void gen_reader_plan(Delivery& d, size_t total) {
  uint64_t mink = total / 3000 + 1;
  switch (vg::below(6)) {
    case 0: break; // whole delivery
    case 1: { // a few explicit short chunks, then everything
      uint64_t n = 1 + vg::below(6);
      for (uint64_t i = 0; i < n; i++) d.list.push_back(1 + vg::below(vg::pick<uint64_t>({3, 300, 20000})));
      break;
    }
    case 2:
      d.k = std::max<uint64_t>(mink, vg::pick<uint64_t>({1, 2, 3, 7, 64}));
      d.seed = vg::u64();
      break;
    case 3:
      d.k = std::max<uint64_t>(mink, vg::pick<uint64_t>({255, 256, 257, 4096, 16383, 16384, 16385}));
      d.seed = vg::u64();
      break;
    case 4: { // constant chunk (list repeated through k = chunk with fixed "seed" does not give constants: use explicit list)
      uint64_t chunk = std::max<uint64_t>(mink, vg::pick<uint64_t>({1, 255, 256, 16383, 16384}));
      uint64_t n = std::min<uint64_t>(total / chunk + 2, 4000);
      for (uint64_t i = 0; i < n; i++) d.list.push_back(chunk);
      break;
    }
    default:
      d.k = std::max<uint64_t>(mink, 1 + vg::below(40000));
      d.seed = vg::u64();
      break;
  }
}

static void gen_writer_plan(Delivery& d, size_t total) {
  uint64_t n = 1 + vg::below(6);
  uint64_t minchunk = total / 12 + 1; // at most ~12 writes (and pauses) per case
  for (uint64_t i = 0; i < n; i++) d.wchunks.push_back(minchunk + vg::below(vg::pick<uint64_t>({4, 300, 20000, 70000})));
  uint64_t g = 1 + vg::below(4);
  for (uint64_t i = 0; i < g; i++) d.gaps_us.push_back(vg::pick<uint64_t>({0, 0, 200, 1000, 3000}));
}

static Case gen_file_roundtrip() {
  Case c("file_roundtrip");
  size_t size = gen_size();
  c.N(size).N(vg::u64()).N(vg::chance(1, 3) ? gen_size(70000) : 0);
  bool use_plan = vg::chance(1, 4);
  Delivery d;
  if (use_plan) gen_reader_plan(d, size);
  c.N(use_plan).N(d.k).N(d.seed).N(d.list.size());
  for (auto v : d.list) c.N(v);
  return c;
}

static Case gen_save_short_write() {
  Case c("save_short_write");
  size_t size = gen_size();
  Delivery d;
  gen_reader_plan(d, size); // the same shapes, applied to write(): whole, a few short chunks, 1..k, block-size neighbours, constant chunks
  uint64_t fail_at = vg::chance(1, 4) ? 1 + vg::below(4) : 0;
  c.N(size).N(vg::u64()).N(vg::chance(1, 3) ? gen_size(70000) : 0).N(vg::below(2)).N(fail_at).N(vg::below(3));
  c.N(d.k).N(d.seed).N(d.list.size());
  for (auto v : d.list) c.N(v);
  return c;
}

static Case gen_read_all() {
  Case c("read_all");
  uint64_t api = vg::below(2);
  uint64_t kind = api == 0 ? vg::below(2) : vg::pick<uint64_t>({F_COOKIE, F_COOKIE, F_MEM, F_PIPE, F_FILE});
  size_t size = gen_size();
  Delivery d;
  bool pipe = (api == 0 && kind == FD_PIPE) || (api == 1 && kind == F_PIPE);
  if (pipe && vg::chance(3, 4)) gen_writer_plan(d, size);
  if ((api == 0 && vg::chance(3, 4)) || (api == 1 && kind == F_COOKIE)) gen_reader_plan(d, size);
  c.N(api).N(kind).N(api == 1 ? vg::below(4) : 0).N(size).N(vg::u64());
  d.put(c);
  return c;
}

static uint64_t gen_line_len() {
  switch (vg::below(6)) {
    case 0: return vg::below(4);
    case 1: return 250 + vg::below(12);
    case 2: return 505 + vg::below(12);
    case 3: return 760 + vg::below(12);
    case 4: return vg::below(1101);
    default: return vg::scaled(5000);
  }
}

static Case gen_fgets() {
  Case c("fgets");
  uint64_t kind = vg::pick<uint64_t>({F_COOKIE, F_COOKIE, F_MEM, F_PIPE, F_FILE});
  uint64_t nlines = 1 + vg::below(5);
  std::vector<uint64_t> lens;
  size_t total = 0;
  for (uint64_t i = 0; i < nlines; i++) {
    lens.push_back(gen_line_len());
    total += lens.back() + 1;
  }
  Delivery d;
  if (kind == F_PIPE && vg::chance(3, 4)) gen_writer_plan(d, total);
  if (kind == F_COOKIE) gen_reader_plan(d, total);
  uint64_t bufmode = vg::below(4);
  if (bufmode == 1 && total > 3000) bufmode = 0; // unbuffered streams read byte by byte
  c.N(kind).N(bufmode).N(vg::coin()).N(vg::u64());
  c.N(lens.size());
  for (auto v : lens) c.N(v);
  d.put(c);
  return c;
}

static Case gen_readx() {
  Case c("readx");
  uint64_t api = vg::below(8);
  bool fd_api = (api == A_READX || api == A_PREADX || api == A_READ || api == A_READX_T || api == A_READX_BUF);
  uint64_t kind = fd_api ? (api == A_PREADX ? (uint64_t)FD_FILE : vg::below(2)) : vg::pick<uint64_t>({F_COOKIE, F_COOKIE, F_MEM, F_PIPE, F_FILE});
  size_t size = gen_size(70000);
  Delivery d;
  bool pipe = (fd_api && kind == FD_PIPE) || (!fd_api && kind == F_PIPE);
  if (pipe && vg::chance(1, 2)) gen_writer_plan(d, size);
  if ((fd_api && vg::chance(1, 2)) || (!fd_api && kind == F_COOKIE)) gen_reader_plan(d, size);
  c.N(api).N(kind).N(fd_api ? 0 : vg::pick<uint64_t>({0, 0, 2, 3})).N(size).N(vg::u64());
  d.put(c);
  std::vector<uint64_t> ops;
  uint64_t nops = 1 + vg::below(6);
  size_t pos = 0;
  for (uint64_t i = 0; i < nops; i++) {
    uint64_t sz;
    size_t left = size > pos ? size - pos : 0;
    switch (vg::below(5)) {
      case 0: sz = vg::below(4); break;
      case 1: sz = left; break; // exactly to the end
      case 2: sz = left + 1 + vg::below(3); break; // past the end
      default: sz = vg::below(left + 1); break;
    }
    ops.push_back(sz);
    if (api == A_PREADX) ops.push_back(vg::chance(1, 5) ? size + vg::below(3) : vg::below(size + 1));
    else pos += sz;
  }
  c.N(ops.size());
  for (auto v : ops) c.N(v);
  return c;
}

static Case gen_read_fault() {
  Case c("read_fault");
  uint64_t api = vg::below(FA_NUM);
  bool stream = (api == FA_READ_ALL_FILE || api == FA_FREADX || api == FA_FREAD || api == FA_FGETS);
  uint64_t kind = (stream || api == FA_LOAD_FILE || api == FA_PREADX) ? (uint64_t)FD_FILE : vg::below(2);
  size_t size = api == FA_FGETS ? vg::scaled(6000) : gen_size(70000);
  uint64_t bufmode = stream ? vg::pick<uint64_t>({0, 0, 1, 2, 3}) : 0;
  if (bufmode == 1 && size > 3000) bufmode = 0;
  uint64_t opsz = vg::pick<uint64_t>({1, 7, 255, 256, 4096, size, size / 2 + 1, 1 + vg::below(size + 1)});
  opsz = std::max<uint64_t>(opsz, size / 1500 + 1);
  Delivery d;
  if (!stream && kind == FD_PIPE && vg::chance(1, 2)) gen_writer_plan(d, size);
  if (vg::chance(2, 3)) gen_reader_plan(d, size);
  std::vector<uint64_t> faults;
  uint64_t nf = vg::pick<uint64_t>({1, 1, 1, 2, 3});
  for (uint64_t i = 0; i < nf; i++) faults.push_back(vg::below(vg::pick<uint64_t>({1, 2, 4, 6, 40})));
  uint64_t esel = vg::pick<uint64_t>({0, 0, 0, 1, 2, 2});
  // (fgets x EAGAIN is a generated class since the repair of phosg::fgets: glibc's ::fgets hands back the characters read so far when
  // the stream's read fails with EAGAIN, and phosg::fgets used to take that short block for the end of the line)
  c.N(api).N(kind).N(bufmode).N(size).N(vg::u64()).N(opsz).N(esel);
  c.N(faults.size());
  for (auto v : faults) c.N(v);
  d.put(c);
  return c;
}

static uint64_t gen_mixed_arg(size_t left) {
  switch (vg::below(6)) {
    case 0: return vg::below(9);
    case 1: return 250 + vg::below(12);
    case 2: return 4090 + vg::below(12);
    case 3: return left;
    case 4: return left + 1 + vg::below(3);
    default: return vg::below(left + 1);
  }
}

static Case gen_mixed_reads() {
  Case c("mixed_reads");
  uint64_t family = vg::chance(3, 4) ? 0 : 1;
  uint64_t kind = family == 0 ? vg::pick<uint64_t>({F_FILE, F_FILE, F_FILE, F_COOKIE, F_MEM, F_PIPE}) : vg::below(2);
  size_t size;
  switch (vg::below(4)) {
    case 0: size = vg::pick<uint64_t>({4095, 4096, 4097, 8191, 8192, 8193, 12288}) + vg::below(2); break; // around the stdio buffer size
    case 1: size = vg::below(5000); break;
    default: size = gen_size(70000); break;
  }
  uint64_t bufmode = family == 0 ? vg::pick<uint64_t>({0, 0, 0, 1, 2, 3}) : 0;
  if (bufmode == 1 && size > 3000) bufmode = 0;
  uint64_t nl = vg::pick<uint64_t>({0, 1, 4, 40});
  Delivery d;
  bool pipe = (family == 0 && kind == F_PIPE) || (family == 1 && kind == FD_PIPE);
  if (pipe && vg::chance(1, 2)) gen_writer_plan(d, size);
  if ((family == 0 && kind == F_COOKIE) || (family == 1 && vg::chance(1, 3))) gen_reader_plan(d, size);
  c.N(family).N(kind).N(bufmode).N(size).N(vg::u64()).N(nl);
  d.put(c);
  std::vector<uint64_t> ops;
  uint64_t nbefore = vg::below(5), nafter = vg::chance(1, 3) ? 1 + vg::below(2) : 0;
  bool with_read_all = vg::chance(4, 5);
  size_t left = size; // upper estimate of what remains (fgets lines are not tracked)
  uint64_t fgets_budget = nl == 0 ? 1 : 6; // a line may be the whole content: keep unbuffered/byte-wise work bounded
  auto one = [&]() {
    uint64_t op = family == 0 ? vg::pick<uint64_t>({M_FGETS, M_FGETS, M_FREADX, M_FREADX, M_FREAD, M_FGETCX}) : vg::pick<uint64_t>({M_FREADX, M_FREAD});
    if (op == M_FGETS) {
      if (fgets_budget == 0) op = M_FGETCX;
      else fgets_budget--;
    }
    uint64_t arg = (op == M_FREADX || op == M_FREAD) ? gen_mixed_arg(left) : 0;
    if (op == M_FREADX || op == M_FREAD) left -= std::min<size_t>(left, arg);
    if (op == M_FGETCX && left) left--;
    ops.push_back(op);
    ops.push_back(arg);
  };
  for (uint64_t i = 0; i < nbefore; i++) one();
  if (with_read_all) {
    ops.push_back(M_READ_ALL);
    ops.push_back(0);
    left = 0;
  }
  for (uint64_t i = 0; i < nafter; i++) one();
  c.N(ops.size());
  for (auto v : ops) c.N(v);
  return c;
}

static std::string gen_name() {
  switch (vg::below(8)) {
    case 0: return vg::pick<std::string>({".a", "..b", "...", ".hidden", " ", "-", "-rf", "~", "a b", "\n", "*", "\\", "\xff\xfe", "\x01", "..."});
    case 1: return std::string(255, static_cast<char>('a' + vg::below(26)));
    case 2: return vg::bytes_from("ab.", 1 + vg::below(4)) + "x";
    case 3: {
      std::string s = vg::bytes(1 + vg::below(40));
      for (auto& ch : s)
        if (ch == '/' || ch == '\0') ch = '_';
      if (s == "." || s == "..") s += "_";
      return s;
    }
    case 4: {
      std::string s = vg::bytes(200 + vg::below(56));
      for (auto& ch : s)
        if (ch == '/' || ch == '\0') ch = '_';
      return s;
    }
    default: return cat("f", vg::below(100000));
  }
}

static Case gen_list_dir() {
  Case c("list_dir");
  uint64_t n;
  switch (vg::below(5)) {
    case 0: n = vg::below(3); break;
    case 1: n = 110 + vg::below(60); break; // crosses a getdents buffer when names are long
    default: n = vg::below(40); break;
  }
  bool long_names = vg::chance(1, 3);
  for (uint64_t i = 0; i < n; i++) {
    std::string nm = (long_names && n > 100) ? cat(std::string(230, 'L'), i) : gen_name();
    c.S(nm);
    c.N(vg::pick<uint64_t>({0, 0, 0, 1, 1, 2, 3, 4}));
  }
  return c;
}

static Case gen_unlink() {
  Case c("unlink");
  uint64_t root_kind = vg::pick<uint64_t>({0, 0, 0, 0, 0, 0, 1, 2, 3, 4, 5});
  uint64_t recursive = root_kind == 0 ? (vg::chance(9, 10) ? 1 : 0) : vg::coin();
  uint64_t count = root_kind == 0 ? vg::below(25) : 0;
  c.N(root_kind).N(recursive).N(vg::coin()).N(count);
  std::vector<int> depth{0};
  for (uint64_t i = 0; i < count; i++) {
    uint64_t parent = vg::below(depth.size());
    uint64_t type = vg::pick<uint64_t>({E_FILE, E_FILE, E_DIR, E_DIR, E_DIR, E_LINK_OUT_DIR, E_LINK_OUT_FILE, E_LINK_DANGLING, E_LINK_IN_DIR, E_FIFO});
    if (type == E_DIR && depth[parent] >= 4) type = E_FILE;
    if (type == E_DIR) depth.push_back(depth[parent] + 1);
    c.N(parent).N(type);
  }
  return c;
}

static Case gen_path() {
  Case c("path");
  std::string p;
  switch (vg::below(4)) {
    case 0: p = vg::bytes_from("/a.", vg::below(14)); break;
    case 1: p = vg::bytes_from("/ab", vg::below(40)); break;
    case 2: {
      p = vg::bytes(vg::below(60));
      if (!p.empty()) p[vg::below(p.size())] = '/';
      break;
    }
    default: {
      uint64_t comps = 1 + vg::below(6);
      if (vg::coin()) p = "/";
      for (uint64_t i = 0; i < comps; i++) p += vg::bytes_from("abc._-", vg::below(9)) + (i + 1 < comps || vg::coin() ? "/" : "");
      break;
    }
  }
  c.S(p);
  return c;
}

static Case gen_scoped_fd() {
  Case c("scoped_fd");
  uint64_t steps = 1 + vg::below(14);
  for (uint64_t i = 0; i < steps; i++) c.N(vg::below(S_NUM_OPS)).N(vg::below(3)).N(vg::below(3));
  // a third of the histories: some close() calls release the descriptor but report EINTR (half of them with the number re-used at once)
  if (vg::chance(1, 3)) c.N((1 + vg::below(2)) | ((vg::coin() ? ~0ULL : (vg::u64() | vg::u64())) << 2));
  return c;
}

static Case gen_poll() {
  Case c("poll");
  c.N(vg::below(6));
  uint64_t steps = 1 + vg::below(12);
  bool behind = vg::chance(1, 3); // histories in which descriptors are also closed / re-used behind Poll's back
  for (uint64_t i = 0; i < steps; i++) {
    uint64_t act = behind ? vg::pick<uint64_t>({0, 0, 1, 2, 2, 3, 4, 5, 6, 6, 6, 7, 7}) : vg::pick<uint64_t>({0, 0, 1, 1, 2, 2, 3, 4, 5});
    c.N(vg::below(3) + (act == 7 ? 3 * vg::below(3) : 0)).N(act);
  }
  return c;
}

// ---------------------------------------------------------------- enumerators

static const std::vector<size_t>& boundary_sizes() {
  static std::vector<size_t> v = [] {
    std::vector<size_t> r;
    for (size_t s = 0; s <= 3; s++) r.push_back(s);
    for (size_t s = 250; s <= 260; s++) r.push_back(s);
    for (size_t s = 16380; s <= 16390; s++) r.push_back(s);
    for (size_t s = 32764; s <= 32772; s++) r.push_back(s);
    return r;
  }();
  return v;
}

static void enum_file_roundtrip(Enum& e) {
  uint64_t idx = 0;
  for (size_t s : boundary_sizes()) {
    if (e.stop) break;
    if (!e.mine(idx++)) continue;
    e.exec(Case("file_roundtrip").N(s).N(s * 31 + 7).N(0).N(0).N(0).N(0).N(0));
    e.exec(Case("file_roundtrip").N(s).N(s * 31 + 8).N(s + 100).N(0).N(0).N(0).N(0));
    e.exec(Case("file_roundtrip").N(s).N(s * 31 + 9).N(0).N(1).N(0).N(0).N(1).N(s / 2 + 1));
  }
  e.complete("sizes 0..3, 250..260, 16380..16390, 32764..32772: fresh file, overwrite of a longer file, load under one short read");
}

// every composition of `total` as a Delivery list
template <typename F>
static void for_compositions(uint64_t total, F&& f) {
  if (total == 0) {
    f(std::vector<uint64_t>{});
    return;
  }
  for (uint64_t mask = 0; mask < (1ULL << (total - 1)); mask++) {
    std::vector<uint64_t> parts;
    uint64_t cur = 1;
    for (uint64_t b = 0; b + 1 < total; b++) {
      if (mask & (1ULL << b)) {
        parts.push_back(cur);
        cur = 1;
      } else {
        cur++;
      }
    }
    parts.push_back(cur);
    f(parts);
  }
}

static void enum_save_short_write(Enum& e) {
  uint64_t idx = 0;
  // every composition of every total <= 8 as the short-write plan (the last part is followed by unlimited writes), without a
  // failing call and with the failing call (EINTR / EIO / ENOSPC in turn) at every call index
  for (uint64_t total = 0; total <= 8 && !e.stop; total++) {
    for_compositions(total, [&](const std::vector<uint64_t>& parts) {
      for (uint64_t fail_at = 0; fail_at <= parts.size() + 1; fail_at++) {
        if (!e.mine(idx++)) continue;
        Case c("save_short_write");
        c.N(total).N(total * 131 + parts.size()).N(fail_at % 2 ? 0 : 12).N(idx & 1).N(fail_at).N(idx % 3).N(0).N(0).N(parts.size());
        for (auto v : parts) c.N(v);
        e.exec(c);
      }
    });
  }
  // block-boundary sizes: first write shortened to half / to size-1 / to 1 byte, and 1..7-byte writes for the small ones
  for (size_t s : boundary_sizes()) {
    if (e.stop) break;
    if (!e.mine(idx++) || s == 0) continue;
    for (uint64_t first : {uint64_t(s / 2 + 1), uint64_t(s - 1), uint64_t(1)}) {
      if (first == 0 || first >= s) continue;
      e.exec(Case("save_short_write").N(s).N(s * 37 + first).N(0).N(first & 1).N(0).N(0).N(0).N(0).N(1).N(first));
    }
    if (s <= 300) e.exec(Case("save_short_write").N(s).N(s * 41).N(s + 50).N(1).N(0).N(0).N(7).N(s).N(0));
  }
  e.complete("save_file under every composition of every total <= 8 as the short-write plan x no failing write / the failing write (EINTR, EIO, ENOSPC) at every call index; sizes 1..3, 250..260, 16380..16390, 32764..32772 with the first write shortened to 1, size/2+1 and size-1 bytes");
}

static void enum_read_all(Enum& e) {
  uint64_t idx = 0;
  // block-boundary sizes x sources x chunk shapes
  for (size_t s : boundary_sizes()) {
    if (e.stop) break;
    if (!e.mine(idx++)) continue;
    for (uint64_t shape = 0; shape < 5; shape++) {
      Delivery d;
      switch (shape) {
        case 0: break;
        case 1: d.list = {1}; break; // one short read, then everything
        case 2: d.list = {s / 2 + 1}; break;
        case 3:
          d.k = 16384;
          d.seed = s;
          break;
        case 4:
          for (size_t k = 0; k < s / 4096 + 2; k++) d.list.push_back(4096);
          break;
      }
      for (uint64_t kind : {FD_FILE, FD_PIPE}) {
        Case c("read_all");
        c.N(0).N(kind).N(0).N(s).N(s + shape);
        d.put(c);
        e.exec(c);
      }
      Case c("read_all");
      c.N(1).N(F_COOKIE).N(shape % 4).N(s).N(s + shape);
      d.put(c);
      e.exec(c);
    }
    // writer-side chunking on a real pipe
    for (uint64_t wc : {1 + s / 3, s / 2 + 1}) {
      Delivery d;
      d.wchunks = {wc};
      d.gaps_us = {300};
      Case c("read_all");
      c.N(0).N(FD_PIPE).N(0).N(s).N(s + 77);
      d.put(c);
      e.exec(c);
      Case c2("read_all");
      c2.N(1).N(F_PIPE).N(0).N(s).N(s + 78);
      d.put(c2);
      e.exec(c2);
    }
  }
  // all compositions of totals <= 10
  uint64_t maxt = 10;
  for (uint64_t total = 0; total <= maxt && !e.stop; total++) {
    for_compositions(total, [&](const std::vector<uint64_t>& parts) {
      if (!e.mine(idx++)) return;
      Delivery d;
      d.list = parts;
      for (int variant = 0; variant < 3; variant++) {
        Case c("read_all");
        if (variant == 0) c.N(0).N(FD_FILE).N(0);
        else if (variant == 1) c.N(0).N(FD_PIPE).N(0);
        else c.N(1).N(F_COOKIE).N(0);
        c.N(total).N(total * 1000 + parts.size());
        d.put(c);
        e.exec(c);
      }
    });
  }
  e.complete("read_all(fd) on file and pipe and read_all(FILE*) on a cookie stream: sizes 0..3, 250..260, 16380..16390, 32764..32772 x 5 chunk shapes + staggered pipe writers; every composition of every total <= 10 as the short-read plan");
}

static void enum_fgets(Enum& e) {
  uint64_t idx = 0;
  uint64_t maxlen = 1100;
  for (uint64_t len = 0; len <= maxlen && !e.stop; len++) {
    if (!e.mine(idx++)) continue;
    for (uint64_t final_nl = 0; final_nl < 2; final_nl++) {
      for (uint64_t variant = 0; variant < 4; variant++) {
        // variant 0: the line alone; 1: between two short lines; 2: as the last line after a 255/256-byte line; 3: cookie stream with 1..7-byte reads
        Case c("fgets");
        uint64_t kind = variant == 3 ? F_COOKIE : (len % 2 ? F_MEM : F_FILE);
        c.N(kind).N(variant == 3 ? 0 : len % 4 == 1 ? 3 : 0).N(final_nl).N(len * 4 + variant);
        std::vector<uint64_t> lens;
        if (variant == 0 || variant == 3) lens = {len};
        else if (variant == 1) lens = {3, len, 5};
        else lens = {255 + (len & 1), len};
        c.N(lens.size());
        for (auto v : lens) c.N(v);
        Delivery d;
        if (variant == 3) {
          d.k = 7;
          d.seed = len;
        }
        d.put(c);
        e.exec(c);
      }
    }
  }
  // all compositions of totals <= 10 over a two-line text
  for (uint64_t total = 1; total <= 10 && !e.stop; total++) {
    for_compositions(total, [&](const std::vector<uint64_t>& parts) {
      if (!e.mine(idx++)) return;
      Delivery d;
      d.list = parts;
      Case c("fgets");
      c.N(F_COOKIE).N(parts.size() % 2 ? 0 : 1).N(total % 2).N(total * 7 + parts.size());
      uint64_t a = (total - 1) / 2, b = total - 1 - a; // a + '\n' + b (+ '\n' when final_nl: one byte longer, still covered by the plan's tail)
      c.N(2).N(a).N(b);
      d.put(c);
      e.exec(c);
    });
  }
  e.complete("every line length 0..1100, with and without the final newline, alone / between lines / after a 255-256 byte line / through 1..7-byte reads; every composition of totals <= 10 as chunking of a two-line text");
}

static void enum_readx(Enum& e) {
  uint64_t idx = 0;
  for (uint64_t total = 0; total <= 10 && !e.stop; total++) {
    for_compositions(total, [&](const std::vector<uint64_t>& parts) {
      if (!e.mine(idx++)) return;
      Delivery d;
      d.list = parts;
      for (uint64_t api : {A_READX, A_PREADX, A_FREADX, A_READ, A_FREAD, A_READX_BUF, A_FREADX_BUF}) {
        bool fd_api = (api == A_READX || api == A_PREADX || api == A_READ || api == A_READX_BUF);
        Case c("readx");
        c.N(api).N(fd_api ? (uint64_t)FD_FILE : (uint64_t)F_COOKIE).N(0).N(total).N(total * 13 + parts.size());
        d.put(c);
        if (api == A_PREADX) c.N(2).N(total).N(0);
        else c.N(1).N(total);
        e.exec(c);
      }
    });
  }
  // exact / one-too-many requests at the block-boundary sizes
  for (size_t s : boundary_sizes()) {
    if (e.stop) break;
    if (!e.mine(idx++)) continue;
    for (uint64_t api : {A_READX, A_PREADX, A_FREADX}) {
      for (uint64_t extra = 0; extra < 2; extra++) {
        Delivery d;
        Case c("readx");
        c.N(api).N(api == A_FREADX ? (uint64_t)F_FILE : (uint64_t)FD_FILE).N(0).N(s).N(s * 3 + extra);
        d.put(c);
        if (api == A_PREADX) c.N(2).N(s + extra).N(0);
        else c.N(1).N(s + extra);
        e.exec(c);
      }
    }
  }
  e.complete("readx/preadx/freadx/read/fread of the whole source under every composition of totals <= 10; exact and one-past-the-end requests at sizes 0..3, 250..260, 16380..16390, 32764..32772");
}

static void enum_read_fault(Enum& e) {
  uint64_t idx = 0;
  // every composition of every total <= 6 as the short-read plan x the failing read at every call index (and one past the last)
  for (uint64_t total = 0; total <= 6 && !e.stop; total++) {
    for_compositions(total, [&](const std::vector<uint64_t>& parts) {
      if (!e.mine(idx++)) return;
      Delivery d;
      d.list = parts;
      for (uint64_t k = 0; k <= parts.size() + 1; k++) {
        for (uint64_t api = 0; api < FA_NUM; api++) {
          for (uint64_t kind : {FD_FILE, FD_PIPE}) {
            bool fd_kinds = (api == FA_READ_ALL_FD || api == FA_READX || api == FA_READ);
            if (kind == FD_PIPE && !fd_kinds) continue;
            bool seq = !(api == FA_READ_ALL_FD || api == FA_READ_ALL_FILE || api == FA_LOAD_FILE || api == FA_FGETS);
            std::vector<uint64_t> opszs{total ? total : 1}; // the whole source in one operation
            if (seq && total > 1) opszs.push_back(1); // byte by byte (the operation size means nothing to the read-to-end helpers)
            for (uint64_t opsz : opszs) {
              Case c("read_fault");
              c.N(api).N(kind).N(0).N(total).N(total * 131 + parts.size()).N(opsz).N((k + total) % 4 == 3 ? 1 : 0);
              c.N(1).N(k);
              d.put(c);
              e.exec(c);
              if (fd_kinds || api == FA_LOAD_FILE || api == FA_PREADX || api == FA_FGETS) {
                // the same plan with the failing read reporting EAGAIN (a non-blocking descriptor; fgets on a stream over one)
                Case c2("read_fault");
                c2.N(api).N(kind).N(0).N(total).N(total * 131 + parts.size()).N(opsz).N(2);
                c2.N(1).N(k);
                d.put(c2);
                e.exec(c2);
              }
            }
          }
        }
      }
    });
  }
  // two failing reads in a row / apart, block-boundary sizes, read-to-end helpers
  for (size_t s : boundary_sizes()) {
    if (e.stop) break;
    if (!e.mine(idx++)) continue;
    for (uint64_t api : {FA_READ_ALL_FD, FA_READ_ALL_FILE, FA_LOAD_FILE}) {
      for (uint64_t shape = 0; shape < 4; shape++) {
        Delivery d;
        if (shape == 1) d.list = {s / 2 + 1};
        if (shape == 2) {
          d.k = 4096;
          d.seed = s;
        }
        std::vector<uint64_t> faults = shape == 3 ? std::vector<uint64_t>{0, 1} : shape == 2 ? std::vector<uint64_t>{1, 3} : std::vector<uint64_t>{shape};
        Case c("read_fault");
        c.N(api).N(FD_FILE).N(0).N(s).N(s * 5 + shape).N(1).N(0);
        c.N(faults.size());
        for (auto v : faults) c.N(v);
        d.put(c);
        e.exec(c);
      }
    }
  }
  e.complete("every helper that reads (read_all fd/FILE*, load_file, readx, preadx, read, freadx, fread, fgets) under every composition of every total <= 6 with the failing read (EINTR, every fourth EIO) at every call index; read-to-end helpers at sizes 0..3, 250..260, 16380..16390, 32764..32772 with one or two failing reads");
}

static void enum_mixed_reads(Enum& e) {
  uint64_t idx = 0;
  std::vector<size_t> sizes;
  for (size_t s = 0; s <= 3; s++) sizes.push_back(s);
  for (size_t base : {256, 4096, 8192, 16384})
    for (size_t s = base - 2; s <= base + 2; s++) sizes.push_back(s);
  sizes.push_back(40000);
  for (size_t s : sizes) {
    if (e.stop) break;
    if (!e.mine(idx++)) continue;
    for (uint64_t kind : {F_FILE, F_MEM, F_COOKIE})
      for (uint64_t bufmode : {0, 3})
        for (uint64_t first = 0; first < 7; first++) {
          // one consuming call, then read_all, then a line read at end of stream
          uint64_t op = first == 0 ? M_FGETS : first == 1 || first == 2 || first == 6 ? M_FREADX : first == 3 || first == 4 ? M_FREAD : M_FGETCX;
          uint64_t arg = first == 1 || first == 3 ? 1 : first == 2 ? s / 2 : first == 4 ? s : first == 6 ? (s ? s - 1 : 0) : 0;
          Case c("mixed_reads");
          c.N(0).N(kind).N(bufmode).N(s).N(s * 17 + first).N(first % 2 ? 1 : 40);
          Delivery d;
          if (kind == F_COOKIE) d.list = {s / 3 + 1};
          d.put(c);
          c.N(6).N(op).N(arg).N(M_READ_ALL).N(0).N(M_FGETS).N(0);
          e.exec(c);
        }
    for (uint64_t kind : {FD_FILE, FD_PIPE})
      for (uint64_t first : {M_FREADX, M_FREAD})
        for (uint64_t arg : {(uint64_t)1, (uint64_t)s / 2}) {
          Case c("mixed_reads");
          c.N(1).N(kind).N(0).N(s).N(s * 19 + arg).N(0);
          Delivery d;
          d.put(c);
          c.N(4).N(first).N(arg).N(M_READ_ALL).N(0);
          e.exec(c);
        }
  }
  e.complete("one consuming call (fgets / freadx 1, half, all but one / fread 1, all / fgetcx) then read_all then fgets at end of stream, on fopen, fmemopen and cookie streams with the default and a 256-byte buffer, sizes 0..3, 254..258, 4094..4098, 8190..8194, 16382..16386, 40000; readx/read then read_all on file and pipe descriptors");
}

static void enum_path(Enum& e) {
  uint64_t idx = 0;
  size_t maxlen = e.thorough() ? 9 : 8;
  for_all_strings("/a.", maxlen, [&](const std::string& s) {
    if (e.mine(idx++ >> 6)) e.exec(Case("path").S(s));
    return !e.stop;
  });
  e.complete(cat("every string over {'/','a','.'} of length <= ", maxlen));
}

static void enum_poll(Enum& e) {
  // every history of length L over 3 descriptors x {add POLLIN, add POLLOUT, remove}: 9^L
  int L = 6;
  uint64_t total = 1;
  for (int k = 0; k < L; k++) total *= 9;
  for (uint64_t code = 0; code < total && !e.stop; code++) {
    if (!e.mine(code >> 4)) continue;
    Case c("poll");
    c.N(code % 6);
    uint64_t t = code;
    for (int k = 0; k < L; k++) {
      uint64_t step = t % 9;
      t /= 9;
      c.N(step / 3).N(step % 3);
    }
    e.exec(c);
  }
  // every history of length 5 over 2 descriptors x {add POLLIN, add POLLOUT, remove, close behind Poll's back, re-use of the number}
  {
    static const uint64_t acts[5] = {0, 1, 2, 6, 7};
    const int L2 = 5;
    uint64_t total2 = 1;
    for (int k = 0; k < L2; k++) total2 *= 10;
    for (uint64_t code = 0; code < total2 && !e.stop; code++) {
      if (!e.mine((total >> 4) + 1 + (code >> 4))) continue;
      Case c("poll");
      c.N(code % 6);
      uint64_t t = code;
      for (int k = 0; k < L2; k++) {
        uint64_t step = t % 10;
        t /= 10;
        uint64_t slot = step / 5, act = acts[step % 5];
        // the re-used number gets a duplicate of the other kind of descriptor (readable <-> writable)
        c.N(act == 7 ? slot + 3 * (1 - slot) : slot).N(act);
      }
      e.exec(c);
    }
  }
  e.complete("every add(POLLIN)/add(POLLOUT)/remove history of length 6 (and, as prefixes, shorter) over 3 descriptors: 531441 histories; every history of length 5 over 2 descriptors x {add POLLIN, add POLLOUT, remove, descriptor closed behind Poll's back, descriptor number re-used}: 100000 histories");
}

static void enum_scoped(Enum& e) {
  // every op sequence of length 4 over 2 slots (ops x ordered slot pairs)
  const uint64_t choices = S_NUM_OPS * 4;
  int L = e.thorough() ? 4 : 3;
  uint64_t total = 1;
  for (int k = 0; k < L; k++) total *= choices;
  for (uint64_t code = 0; code < total && !e.stop; code++) {
    if (!e.mine(code >> 4)) continue;
    Case c("scoped_fd");
    uint64_t t = code;
    for (int k = 0; k < L; k++) {
      uint64_t ch = t % choices;
      t /= choices;
      c.N(ch / 4).N((ch % 4) / 2).N(ch % 2);
    }
    e.exec(c);
  }
  // close() releases the descriptor but reports EINTR: every sequence of length 3 (thorough) / 2 (quick) over two objects, the fault
  // on every close() call / on the first one only, with and without immediate re-use of the number
  int LF = e.thorough() ? 3 : 2;
  uint64_t totalf = 1;
  for (int k = 0; k < LF; k++) totalf *= choices;
  for (uint64_t code = 0; code < totalf && !e.stop; code++) {
    if (!e.mine(code >> 4)) continue;
    for (uint64_t word : {1ULL | (~0ULL << 2), 2ULL | (~0ULL << 2), 1ULL | (1ULL << 2), 2ULL | (2ULL << 2)}) {
      Case c("scoped_fd");
      uint64_t t = code;
      for (int k = 0; k < LF; k++) {
        uint64_t ch = t % choices;
        t /= choices;
        c.N(ch / 4).N((ch % 4) / 2).N(ch % 2);
      }
      c.N(word);
      e.exec(c);
    }
  }
  e.complete(cat("every scoped_fd operation sequence of length ", L, " over two objects; every sequence of length ", LF, " x {every close() call, the first, the second} releases its descriptor but reports EINTR x {number left free, number re-used at once}"));
}

static void enum_unlink(Enum& e) {
  uint64_t idx = 0;
  // root kinds x recursive x link style
  for (uint64_t rk = 1; rk <= 5; rk++)
    for (uint64_t rec = 0; rec < 2; rec++)
      for (uint64_t rel = 0; rel < 2; rel++)
        if (e.mine(idx++)) e.exec(Case("unlink").N(rk).N(rec).N(rel).N(0));
  // every tree of 3 entries over all entry types and parent choices (entry i may hang under any earlier directory)
  const uint64_t T = 7;
  for (uint64_t t0 = 0; t0 < T && !e.stop; t0++)
    for (uint64_t t1 = 0; t1 < T; t1++)
      for (uint64_t t2 = 0; t2 < T; t2++)
        for (uint64_t p1 = 0; p1 < 2; p1++)
          for (uint64_t p2 = 0; p2 < 3; p2++) {
            if (!e.mine(idx++)) continue;
            e.exec(Case("unlink").N(0).N(1).N((t0 + t1 + t2) & 1).N(3).N(0).N(t0).N(p1).N(t1).N(p2).N(t2));
          }
  e.complete("every root kind x recursive flag x link style; every 3-entry tree over 7 entry types and all parent choices");
}

int main(int argc, char** argv) {
  signal(SIGPIPE, SIG_IGN);
  std::vector<SubCheck> checks;
  checks.push_back({"file_roundtrip", run_file_roundtrip, gen_file_roundtrip, 4000, 30000, 100, enum_file_roundtrip});
  checks.push_back({"save_short_write", run_save_short_write, gen_save_short_write, 3000, 25000, 100, enum_save_short_write});
  checks.push_back({"load_shrunk", run_load_shrunk, gen_load_shrunk, 1500, 15000, 100, enum_load_shrunk});
  checks.push_back({"read_all", run_read_all, gen_read_all, 8000, 80000, 100, enum_read_all});
  checks.push_back({"fgets", run_fgets, gen_fgets, 8000, 80000, 100, enum_fgets});
  checks.push_back({"readx", run_readx, gen_readx, 8000, 80000, 100, enum_readx});
  checks.push_back({"read_fault", run_read_fault, gen_read_fault, 6000, 60000, 100, enum_read_fault});
  checks.push_back({"mixed_reads", run_mixed_reads, gen_mixed_reads, 6000, 60000, 100, enum_mixed_reads});
  checks.push_back({"list_dir", run_list_dir, gen_list_dir, 1500, 10000, 100, nullptr});
  checks.push_back({"unlink", run_unlink, gen_unlink, 4000, 30000, 100, enum_unlink});
  checks.push_back({"path", run_path, gen_path, 60000, 300000, 100, enum_path});
  checks.push_back({"scoped_fd", run_scoped_fd, gen_scoped_fd, 20000, 150000, 100, enum_scoped});
  checks.push_back({"poll", run_poll, gen_poll, 60000, 300000, 100, enum_poll});
  int rc = main_(argc, argv, checks);
  rm_rf(scratch());
  return rc;
}
