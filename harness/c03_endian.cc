// C03 - endian-explicit scalar wrappers act as native values stored in the named byte order;
//       bswap helpers reverse the low N bits; sign_extend / ext24 / ext48 replicate the top bit.
//
// Built with -fwrapv: signed wrap-around is defined identically for the native reference and for the
// wrapper templates instantiated in this TU.  With -DC03_SWEEP32 (o2 stage, thorough only) the binary
// contains only the 2^32 sweeps.
#include <math.h>

#include <limits>
#include <memory>
#include <new>
#include <type_traits>
#include <utility>

#include <phosg/Encoding.hh>

#include "verif.hh"

using namespace verif;

// ---------------------------------------------------------------- type tables

static const char* kEndianNames[3] = {"le", "be", "re"};
static const char* kScalarNames[8] = {"uint16_t", "int16_t", "uint32_t", "int32_t", "uint64_t", "int64_t", "float", "double"};
static const int kScalarBytes[8] = {2, 2, 4, 4, 8, 8, 4, 8};

static std::string wrapper_name(uint64_t w) { return cat(kEndianNames[w / 8], "_", kScalarNames[w % 8]); }

template <typename W_, typename T_>
struct Tag {
  using W = W_;
  using T = T_;
};

// w = endian * 8 + scalar
template <typename F>
static void with_wrapper(uint64_t w, F&& f) {
  using namespace phosg;
  switch (w) {
    case 0: f(Tag<le_uint16_t, uint16_t>{}); break;
    case 1: f(Tag<le_int16_t, int16_t>{}); break;
    case 2: f(Tag<le_uint32_t, uint32_t>{}); break;
    case 3: f(Tag<le_int32_t, int32_t>{}); break;
    case 4: f(Tag<le_uint64_t, uint64_t>{}); break;
    case 5: f(Tag<le_int64_t, int64_t>{}); break;
    case 6: f(Tag<le_float, float>{}); break;
    case 7: f(Tag<le_double, double>{}); break;
    case 8: f(Tag<be_uint16_t, uint16_t>{}); break;
    case 9: f(Tag<be_int16_t, int16_t>{}); break;
    case 10: f(Tag<be_uint32_t, uint32_t>{}); break;
    case 11: f(Tag<be_int32_t, int32_t>{}); break;
    case 12: f(Tag<be_uint64_t, uint64_t>{}); break;
    case 13: f(Tag<be_int64_t, int64_t>{}); break;
    case 14: f(Tag<be_float, float>{}); break;
    case 15: f(Tag<be_double, double>{}); break;
    case 16: f(Tag<re_uint16_t, uint16_t>{}); break;
    case 17: f(Tag<re_int16_t, int16_t>{}); break;
    case 18: f(Tag<re_uint32_t, uint32_t>{}); break;
    case 19: f(Tag<re_int32_t, int32_t>{}); break;
    case 20: f(Tag<re_uint64_t, uint64_t>{}); break;
    case 21: f(Tag<re_int64_t, int64_t>{}); break;
    case 22: f(Tag<re_float, float>{}); break;
    case 23: f(Tag<re_double, double>{}); break;
    default: throw std::logic_error("bad wrapper code");
  }
}

template <typename T>
using UBits = std::conditional_t<sizeof(T) == 1, uint8_t, std::conditional_t<sizeof(T) == 2, uint16_t, std::conditional_t<sizeof(T) == 4, uint32_t, uint64_t>>>;

template <typename T>
static inline uint64_t to_bits(T v) {
  UBits<T> u;
  memcpy(&u, &v, sizeof(T));
  return u;
}
template <typename T>
static inline T from_bits(uint64_t b) {
  UBits<T> u = static_cast<UBits<T>>(b);
  T v;
  memcpy(&v, &u, sizeof(T));
  return v;
}
static inline uint64_t mask_bits(int bits) { return bits >= 64 ? ~0ULL : ((1ULL << bits) - 1); }

// the host's byte order, observed - not taken from phosg's macros
static bool host_is_little() {
  uint32_t probe = 0x01020304;
  unsigned char c[4];
  memcpy(c, &probe, 4);
  return c[0] == 4;
}

// value held by `size` object bytes when read in the named order (0 = little, 1 = big, 2 = opposite of host)
static inline uint64_t decode_bytes(const unsigned char* p, int size, int endian) {
  bool big = (endian == 1) || (endian == 2 && host_is_little());
  uint64_t v = 0;
  for (int i = 0; i < size; i++) {
    int shift = big ? 8 * (size - 1 - i) : 8 * i;
    v |= static_cast<uint64_t>(p[i]) << shift;
  }
  return v;
}

template <typename T>
static inline bool bits_is_nan(uint64_t b) {
  if constexpr (std::is_floating_point_v<T>) {
    return std::isnan(from_bits<T>(b));
  } else {
    return false;
  }
}

// ---------------------------------------------------------------- operations

enum Op {
  OP_CONSTRUCT = 0,
  OP_ASSIGN,
  OP_STORE,
  OP_ADD,
  OP_SUB,
  OP_MUL,
  OP_DIV,
  OP_MOD,
  OP_AND,
  OP_OR,
  OP_XOR,
  OP_SHL,
  OP_SHR,
  OP_PREINC,
  OP_POSTINC,
  OP_PREDEC,
  OP_POSTDEC,
  OP_COPY,
  OP_STORE_RAW,
  N_OPS
};
static const char* kOpNames[N_OPS] = {"construct", "assign", "store", "add-assign", "sub-assign", "mul-assign", "div-assign", "mod-assign", "and-assign", "or-assign",
    "xor-assign", "shl-assign", "shr-assign", "pre-increment", "post-increment", "pre-decrement", "post-decrement", "copy", "store_raw"};
static inline bool op_is_binary(int op) { return op >= OP_ADD && op <= OP_SHR; }
static inline bool op_takes_value(int op) { return op == OP_ASSIGN || op == OP_STORE || op_is_binary(op); }
static inline bool op_is_arith(int op) { return op_is_binary(op) || (op >= OP_PREINC && op <= OP_POSTDEC); }

// Is `init op d` defined for the native type (and the op available at all for T)?
template <typename T, typename R>
static inline bool op_defined(int op, T init, R d) {
  if constexpr (std::is_floating_point_v<T>) {
    return !(op == OP_MOD || op == OP_AND || op == OP_OR || op == OP_XOR || op == OP_SHL || op == OP_SHR);
  } else {
    static_assert(std::is_integral_v<R>);
    if (op == OP_DIV || op == OP_MOD) {
      using C = decltype(init / d);
      if (d == 0) return false;
      if constexpr (std::is_signed_v<C>) {
        if (static_cast<C>(init) == std::numeric_limits<C>::min() && static_cast<C>(d) == static_cast<C>(-1)) return false;
      }
    }
    if (op == OP_SHL || op == OP_SHR) {
      using P = decltype(+init);
      if constexpr (std::is_signed_v<R>) {
        if (d < 0) return false;
      }
      if (static_cast<uint64_t>(d) >= sizeof(P) * 8) return false;
    }
    return true;
  }
}

// what an operator expression yields, besides its value: on the native type `x op= d`, `x = v`, `++x`, `--x` are lvalues
// designating x itself (so `(x += a) += b`, `(x <<= 4) |= n`, `(x -= a) = b`, `++(x = v)` update x), `x++` / `x--` are prvalues.
// Observed at run time from whatever the operator is declared to return, so the harness compiles against either form.
enum RetKind {
  RET_NONE = 0,
  RET_LVALUE_SELF, // an lvalue designating the object the operator was applied to
  RET_LVALUE_OTHER, // an lvalue designating something else
  RET_CLASS_TEMP, // a temporary of class type: a further mutating operator compiles and acts on the temporary
  RET_SCALAR_TEMP, // a scalar prvalue: a further mutating operator does not compile
};

struct OpResult {
  uint64_t stored = 0; // bits of the value held afterwards
  uint64_t returned = 0; // bits of the value of the operator expression (converted to T)
  bool has_ret = false;
  int ret_kind = RET_NONE;
};

template <typename T, typename O, typename Q>
static inline void note_ret(OpResult& r, const O& obj, Q&& q) {
  r.has_ret = true;
  if constexpr (std::is_lvalue_reference_v<Q>) {
    r.ret_kind = (static_cast<const void*>(std::addressof(q)) == static_cast<const void*>(std::addressof(obj))) ? RET_LVALUE_SELF : RET_LVALUE_OTHER;
  } else {
    r.ret_kind = std::is_class_v<std::remove_cvref_t<Q>> ? RET_CLASS_TEMP : RET_SCALAR_TEMP;
  }
  r.returned = to_bits<T>(static_cast<T>(q));
}

// one operator applied to `x` (a native variable or a wrapper that already holds the initial value)
template <typename T, typename X, typename R>
static inline OpResult apply_op(int op, X& x, R d) {
  OpResult r;
  switch (op) {
    case OP_CONSTRUCT:
    case OP_COPY:
    case OP_STORE_RAW: break;
    case OP_ASSIGN: note_ret<T>(r, x, x = static_cast<T>(d)); break;
    case OP_STORE:
      if constexpr (std::is_class_v<X>) x.store(static_cast<T>(d));
      else x = static_cast<T>(d);
      break;
    case OP_ADD: note_ret<T>(r, x, x += d); break;
    case OP_SUB: note_ret<T>(r, x, x -= d); break;
    case OP_MUL: note_ret<T>(r, x, x *= d); break;
    case OP_DIV: note_ret<T>(r, x, x /= d); break;
    case OP_PREINC: note_ret<T>(r, x, ++x); break;
    case OP_POSTINC: note_ret<T>(r, x, x++); break;
    case OP_PREDEC: note_ret<T>(r, x, --x); break;
    case OP_POSTDEC: note_ret<T>(r, x, x--); break;
    default:
      if constexpr (std::is_integral_v<T> && std::is_integral_v<R>) {
        switch (op) {
          case OP_MOD: note_ret<T>(r, x, x %= d); break;
          case OP_AND: note_ret<T>(r, x, x &= d); break;
          case OP_OR: note_ret<T>(r, x, x |= d); break;
          case OP_XOR: note_ret<T>(r, x, x ^= d); break;
          case OP_SHL: note_ret<T>(r, x, x <<= d); break;
          case OP_SHR: note_ret<T>(r, x, x >>= d); break;
        }
      }
  }
  if constexpr (std::is_class_v<X>) r.stored = to_bits<T>(x.load());
  else r.stored = to_bits<T>(x);
  return r;
}

template <typename T, typename R>
static inline OpResult native_op(int op, T init, R d) {
  T x = init;
  return apply_op<T, T, R>(op, x, d);
}

// the same operator on a wrapper that already holds the initial value
template <typename W, typename T, typename R>
static inline OpResult wrapper_op(int op, W& w, R d) {
  return apply_op<T, W, R>(op, w, d);
}

// comparison outcome codes (0 = all clauses hold)
enum Verdict {
  V_OK = 0,
  V_SIZE,
  V_ALIGN,
  V_GUARD,
  V_INIT_BYTES, // bytes after construction are not the named-order encoding of the value
  V_INIT_LOAD, // load() after construction is not the value stored
  V_CONVERSION, // operator T() differs from load()
  V_RAW_BYTES, // bytes after the operation are not the named-order encoding of the native result
  V_STORED, // load() after the operation differs from the native result
  V_RETURNED, // value of the operator expression differs from the native one
  V_RETURNED_REF, // operator that yields the object itself (an lvalue) on the native type did not return the object
  V_LOAD_RAW, // load_raw()/store_raw() disagree with the object bytes
  V_COPY, // copy construction / copy assignment changed the bytes
};
static const char* kVerdictNames[] = {"ok", "layout-size", "layout-align", "layout-guard", "construct-bytes", "construct-load", "conversion", "raw-bytes", "stored-value",
    "returned-value", "returned-ref", "load-raw", "copy"};

struct Detail {
  uint64_t got = 0, expected = 0;
};

// Runs one (wrapper, op, initial value, operand) cell. The wrapper lives at an odd address between guard bytes.
template <typename W, typename T, typename R>
static inline Verdict compare_op(int endian, int op, T init, R d, Detail* det = nullptr) {
  constexpr int SZ = sizeof(T);
  auto fail = [&](Verdict v, uint64_t got, uint64_t expected) {
    if (det) {
      det->got = got;
      det->expected = expected;
    }
    return v;
  };
  if (sizeof(W) != sizeof(T)) return fail(V_SIZE, sizeof(W), sizeof(T));
  if (alignof(W) != 1) return fail(V_ALIGN, alignof(W), 1);
  alignas(16) unsigned char buf[32];
  memset(buf, 0xA5, sizeof(buf));
  unsigned char* at = buf + 9; // odd address: the wrapper must not need alignment
  W* w = new (at) W(init);
  const uint64_t init_bits = to_bits<T>(init);
  if (decode_bytes(at, SZ, endian) != init_bits) return fail(V_INIT_BYTES, decode_bytes(at, SZ, endian), init_bits);
  if (to_bits<T>(w->load()) != init_bits) return fail(V_INIT_LOAD, to_bits<T>(w->load()), init_bits);
  if (to_bits<T>(static_cast<T>(*w)) != init_bits) return fail(V_CONVERSION, to_bits<T>(static_cast<T>(*w)), init_bits);

  OpResult nat, wr;
  if (op == OP_COPY) {
    W b(*w);
    W c2(static_cast<T>(0));
    c2 = *w;
    if (memcmp(&b, at, SZ) != 0 || memcmp(&c2, at, SZ) != 0) return fail(V_COPY, to_bits<T>(b.load()), init_bits);
    nat = native_op<T, R>(OP_CONSTRUCT, init, d);
    wr.stored = to_bits<T>(w->load());
  } else if (op == OP_STORE_RAW) {
    // raw access: the stored representation is the object bytes read in host order
    UBits<T> raw;
    memcpy(&raw, at, SZ);
    if (to_bits(w->load_raw()) != static_cast<uint64_t>(raw)) return fail(V_LOAD_RAW, to_bits(w->load_raw()), raw);
    UBits<T> nraw = static_cast<UBits<T>>(to_bits<T>(static_cast<T>(d)));
    w->store_raw(nraw);
    UBits<T> back;
    memcpy(&back, at, SZ);
    if (back != nraw || to_bits(w->load_raw()) != static_cast<uint64_t>(nraw)) return fail(V_LOAD_RAW, back, nraw);
    nat.stored = decode_bytes(at, SZ, endian); // load() must be the named-order reading of those bytes
    wr.stored = to_bits<T>(w->load());
  } else {
    nat = native_op<T, R>(op, init, d);
    wr = wrapper_op<W, T, R>(op, *w, d);
  }
  for (int i = 0; i < 9; i++)
    if (buf[i] != 0xA5) return fail(V_GUARD, i, 0);
  for (int i = 9 + SZ; i < 32; i++)
    if (buf[i] != 0xA5) return fail(V_GUARD, i, 0);

  // arithmetic on NaNs may legitimately produce different NaN payloads for the two evaluations; everything else is bit-exact
  auto same = [&](uint64_t a, uint64_t b) { return a == b || (op_is_arith(op) && bits_is_nan<T>(a) && bits_is_nan<T>(b)); };
  uint64_t bytes_now = decode_bytes(at, SZ, endian);
  if (!same(bytes_now, nat.stored)) return fail(V_RAW_BYTES, bytes_now, nat.stored);
  if (wr.stored != bytes_now) return fail(V_STORED, wr.stored, bytes_now);
  if (to_bits<T>(static_cast<T>(*w)) != wr.stored) return fail(V_CONVERSION, to_bits<T>(static_cast<T>(*w)), wr.stored);
  if (nat.has_ret) {
    if (!wr.has_ret) return fail(V_RETURNED, 0, nat.returned);
    if (!same(wr.returned, nat.returned)) return fail(V_RETURNED, wr.returned, nat.returned);
    if (nat.ret_kind == RET_LVALUE_SELF) {
      // = and the compound assignments must hand back the object itself. ++x / --x may also hand back a scalar prvalue
      // (weaker than the native lvalue, but nothing that compiles can then behave differently); a class-type temporary
      // or a reference to another object lets `++(++x)` compile and act on the wrong object.
      bool pre = (op == OP_PREINC || op == OP_PREDEC);
      bool ok = wr.ret_kind == RET_LVALUE_SELF || (pre && wr.ret_kind == RET_SCALAR_TEMP);
      if (!ok) return fail(V_RETURNED_REF, static_cast<uint64_t>(wr.ret_kind), RET_LVALUE_SELF);
    }
  }
  return V_OK;
}

// operand kinds: 0 = same type as the wrapper, 1 = int, 2 = int64_t (integers) / double (floats)
template <typename W, typename T>
static inline Verdict compare_cell(int endian, int op, int rk, uint64_t init_bits, uint64_t operand_bits, bool* defined, Detail* det = nullptr) {
  T init = from_bits<T>(init_bits);
  auto go = [&](auto d) -> Verdict {
    using R = decltype(d);
    if (op_is_binary(op) && !op_defined<T, R>(op, init, d)) {
      *defined = false;
      return V_OK;
    }
    *defined = true;
    return compare_op<W, T, R>(endian, op, init, d, det);
  };
  if (!op_takes_value(op) && op != OP_STORE_RAW) rk = 0;
  switch (rk) {
    case 0: return go(from_bits<T>(operand_bits));
    case 1: return go(static_cast<int>(static_cast<int64_t>(operand_bits)));
    case 2:
      if constexpr (std::is_floating_point_v<T>) {
        return go(from_bits<double>(operand_bits));
      } else {
        return go(static_cast<int64_t>(operand_bits));
      }
    default: throw std::logic_error("bad operand kind");
  }
}

#ifndef C03_SWEEP32

// case: n = [wrapper, op, operand kind, initial value bits, operand bits]
static void run_ops(const Case& c) {
  uint64_t w = c.u(0), op = c.u(1), rk = c.u(2), init = c.u(3), operand = c.u(4);
  if (op >= N_OPS) throw std::logic_error("bad op code");
  if (w >= 24) throw std::logic_error("bad wrapper code");
  if (init & ~mask_bits(8 * kScalarBytes[w % 8])) throw std::logic_error("initial value wider than the type");
  with_wrapper(w, [&](auto tag) {
    using W = typename decltype(tag)::W;
    using T = typename decltype(tag)::T;
    bool defined = true;
    Detail det;
    Verdict v = compare_cell<W, T>(static_cast<int>(w / 8), static_cast<int>(op), static_cast<int>(rk), init, operand, &defined, &det);
    if (!defined) throw std::logic_error("operation undefined on the native type (outside the domain)");
    if (v != V_OK) {
      // root-cause class: which observable is wrong, for which operator; layout and byte-order problems are per wrapper family
      std::string cls;
      switch (v) {
        case V_SIZE:
        case V_ALIGN:
        case V_GUARD: cls = cat(kVerdictNames[v], ":", kScalarNames[w % 8]); break;
        case V_INIT_BYTES:
        case V_INIT_LOAD:
        case V_CONVERSION:
        case V_LOAD_RAW:
        case V_COPY: cls = cat(kVerdictNames[v], ":", kEndianNames[w / 8], "_", (w % 8 >= 6 ? "float" : "int")); break;
        default: cls = cat(kVerdictNames[v], ":", kOpNames[op]);
      }
      VFAIL(cls, wrapper_name(w), " ", kOpNames[op], " initial=0x", std::hex, init, " operand(kind ", rk, ")=0x", operand, ": ", kVerdictNames[v], " got 0x", det.got, " expected 0x", det.expected);
    }
  });
  // non-trivial: top bit set or a byte pattern that is not a palindrome (byte order observable)
  int sz = kScalarBytes[w % 8];
  bool top = (init >> (8 * sz - 1)) & 1;
  uint64_t rev = 0;
  for (int i = 0; i < sz; i++) rev |= ((init >> (8 * i)) & 0xFF) << (8 * (sz - 1 - i));
  if (top || rev != init) ctx().nontrivial_case();
}

// ---------------------------------------------------------------- chained operator expressions

// `(x op1 d1) op2 d2`: on the native type the inner expression is x itself, so the outer operator updates x. The stored
// value of the ORIGINAL object and the value of the whole expression must be what the same expression yields natively.
// First operators: =, the ten compound assignments, ++x, --x (those that yield an lvalue natively); second operators:
// the same plus x++ and x--.  Where the wrapper's first operator yields a scalar prvalue the chained expression does
// not compile for the wrapper (nothing to compare): counted as a class, not judged.

static inline bool chain_first_op(int op) { return op == OP_ASSIGN || op_is_binary(op) || op == OP_PREINC || op == OP_PREDEC; }
static inline bool chain_second_op(int op) { return op == OP_ASSIGN || op_is_arith(op); }

// applies op2 to the result `q` of the first operator, keeping its value category. Returns false when that does not compile.
template <typename T, typename Q, typename R>
static inline bool chain_second(int op2, Q&& q, R d, uint64_t* ret) {
#define C03_SECOND(code, expr)                        \
  case code:                                          \
    if constexpr (requires { expr; }) {               \
      *ret = to_bits<T>(static_cast<T>(expr));        \
      return true;                                    \
    } else {                                          \
      return false;                                   \
    }
  switch (op2) {
    C03_SECOND(OP_ASSIGN, std::forward<Q>(q) = static_cast<T>(d))
    C03_SECOND(OP_ADD, std::forward<Q>(q) += d)
    C03_SECOND(OP_SUB, std::forward<Q>(q) -= d)
    C03_SECOND(OP_MUL, std::forward<Q>(q) *= d)
    C03_SECOND(OP_DIV, std::forward<Q>(q) /= d)
    C03_SECOND(OP_PREINC, ++std::forward<Q>(q))
    C03_SECOND(OP_POSTINC, std::forward<Q>(q)++)
    C03_SECOND(OP_PREDEC, --std::forward<Q>(q))
    C03_SECOND(OP_POSTDEC, std::forward<Q>(q)--)
    default:
      if constexpr (std::is_integral_v<T> && std::is_integral_v<R>) {
        switch (op2) {
          C03_SECOND(OP_MOD, std::forward<Q>(q) %= d)
          C03_SECOND(OP_AND, std::forward<Q>(q) &= d)
          C03_SECOND(OP_OR, std::forward<Q>(q) |= d)
          C03_SECOND(OP_XOR, std::forward<Q>(q) ^= d)
          C03_SECOND(OP_SHL, std::forward<Q>(q) <<= d)
          C03_SECOND(OP_SHR, std::forward<Q>(q) >>= d)
        }
      }
  }
#undef C03_SECOND
  throw std::logic_error("chain: operator not available for this type");
}

struct ChainResult {
  bool compiled = false;
  uint64_t stored = 0, value = 0;
};

template <typename T, typename X, typename R>
static inline ChainResult chain_apply(int op1, int op2, X& x, R d1, R d2) {
  ChainResult cr;
  auto k = [&](auto&& q) { cr.compiled = chain_second<T, decltype(q), R>(op2, std::forward<decltype(q)>(q), d2, &cr.value); };
  switch (op1) {
    case OP_ASSIGN: k(x = static_cast<T>(d1)); break;
    case OP_ADD: k(x += d1); break;
    case OP_SUB: k(x -= d1); break;
    case OP_MUL: k(x *= d1); break;
    case OP_DIV: k(x /= d1); break;
    case OP_PREINC: k(++x); break;
    case OP_PREDEC: k(--x); break;
    default:
      if constexpr (std::is_integral_v<T> && std::is_integral_v<R>) {
        switch (op1) {
          case OP_MOD: k(x %= d1); break;
          case OP_AND: k(x &= d1); break;
          case OP_OR: k(x |= d1); break;
          case OP_XOR: k(x ^= d1); break;
          case OP_SHL: k(x <<= d1); break;
          case OP_SHR: k(x >>= d1); break;
          default: throw std::logic_error("chain: bad first operator");
        }
      } else {
        throw std::logic_error("chain: operator not available for this type");
      }
  }
  if constexpr (std::is_class_v<X>) cr.stored = to_bits<T>(x.load());
  else cr.stored = to_bits<T>(x);
  return cr;
}

// 0 = both steps defined on the native type, 1 = the first is not, 2 = the second (on the intermediate value) is not
template <typename T, typename R>
static inline int chain_undefined_step(int op1, int op2, T init, R d1, R d2) {
  if (op_is_binary(op1) && !op_defined<T, R>(op1, init, d1)) return 1;
  T mid = from_bits<T>(native_op<T, R>(op1, init, d1).stored);
  if (op_is_binary(op2) && !op_defined<T, R>(op2, mid, d2)) return 2;
  return 0;
}

enum ChainVerdict { CH_OK = 0, CH_NOT_COMPILED, CH_UNDEFINED, CH_GUARD, CH_RAW_BYTES, CH_STORED, CH_VALUE };

template <typename W, typename T, typename R>
static inline ChainVerdict compare_chain(int endian, int op1, int op2, T init, R d1, R d2, Detail* det) {
  constexpr int SZ = sizeof(T);
  if (chain_undefined_step<T, R>(op1, op2, init, d1, d2) != 0) return CH_UNDEFINED;
  T x = init;
  ChainResult nat = chain_apply<T, T, R>(op1, op2, x, d1, d2);
  if (!nat.compiled) throw std::logic_error("chain: expression is ill-formed on the native type");
  alignas(16) unsigned char buf[32];
  memset(buf, 0xA5, sizeof(buf));
  unsigned char* at = buf + 9;
  W* w = new (at) W(init);
  ChainResult wr = chain_apply<T, W, R>(op1, op2, *w, d1, d2);
  if (!wr.compiled) return CH_NOT_COMPILED;
  auto fail = [&](ChainVerdict v, uint64_t got, uint64_t expected) {
    det->got = got;
    det->expected = expected;
    return v;
  };
  for (int i = 0; i < 32; i++)
    if ((i < 9 || i >= 9 + SZ) && buf[i] != 0xA5) return fail(CH_GUARD, i, 0);
  // arithmetic on NaNs may produce different payloads in the two evaluations; a final plain assignment is bit-exact
  auto same = [&](uint64_t a, uint64_t b) { return a == b || (op_is_arith(op2) && bits_is_nan<T>(a) && bits_is_nan<T>(b)); };
  uint64_t bytes_now = decode_bytes(at, SZ, endian);
  if (!same(bytes_now, nat.stored)) return fail(CH_RAW_BYTES, bytes_now, nat.stored);
  if (wr.stored != bytes_now) return fail(CH_STORED, wr.stored, bytes_now);
  if (!same(wr.value, nat.value)) return fail(CH_VALUE, wr.value, nat.value);
  return CH_OK;
}

template <typename W, typename T>
static inline ChainVerdict compare_chain_cell(int endian, int op1, int op2, int rk, uint64_t init_bits, uint64_t d1_bits, uint64_t d2_bits, Detail* det) {
  T init = from_bits<T>(init_bits);
  if (rk == 0) return compare_chain<W, T, T>(endian, op1, op2, init, from_bits<T>(d1_bits), from_bits<T>(d2_bits), det);
  if (rk == 1) return compare_chain<W, T, int>(endian, op1, op2, init, static_cast<int>(static_cast<int64_t>(d1_bits)), static_cast<int>(static_cast<int64_t>(d2_bits)), det);
  throw std::logic_error("chain: bad operand kind");
}

// case: n = [wrapper, first operator, second operator, operand kind (0 same type, 1 int), initial value bits, first operand, second operand]
static void run_chain(const Case& c) {
  uint64_t w = c.u(0), op1 = c.u(1), op2 = c.u(2), rk = c.u(3), init = c.u(4), d1 = c.u(5), d2 = c.u(6);
  if (w >= 24 || op1 >= N_OPS || op2 >= N_OPS || !chain_first_op(static_cast<int>(op1)) || !chain_second_op(static_cast<int>(op2))) throw std::logic_error("chain: bad case");
  if (init & ~mask_bits(8 * kScalarBytes[w % 8])) throw std::logic_error("initial value wider than the type");
  with_wrapper(w, [&](auto tag) {
    using W = typename decltype(tag)::W;
    using T = typename decltype(tag)::T;
    Detail det;
    ChainVerdict v = compare_chain_cell<W, T>(static_cast<int>(w / 8), static_cast<int>(op1), static_cast<int>(op2), static_cast<int>(rk), init, d1, d2, &det);
    if (v == CH_UNDEFINED) throw std::logic_error("chained operation undefined on the native type (outside the domain)");
    if (v == CH_NOT_COMPILED) {
      ctx().cls(cat("chain:not-expressible-on-the-wrapper (", kOpNames[op1], " yields a scalar prvalue)"));
      return;
    }
    ctx().cls(cat("chain:", kOpNames[op1]));
    if (v != CH_OK) {
      const char* what = v == CH_GUARD ? "layout-guard" : v == CH_RAW_BYTES ? "raw-bytes" : v == CH_STORED ? "stored-value" : "expression-value";
      // root cause class: the first operator (what it hands to the second one)
      VFAIL(cat(what, ":", kOpNames[op1]), wrapper_name(w), " x=0x", std::hex, init, ": (x ", kOpNames[op1], " 0x", d1, ") ", kOpNames[op2], " 0x", d2, " (operand kind ", rk, "): ", what,
          " got 0x", det.got, ", the native type gives 0x", det.expected, (v == CH_RAW_BYTES ? " - the second operator did not act on x" : ""));
    }
    int sz = kScalarBytes[w % 8];
    bool top = (init >> (8 * sz - 1)) & 1;
    uint64_t rev = 0;
    for (int i = 0; i < sz; i++) rev |= ((init >> (8 * i)) & 0xFF) << (8 * (sz - 1 - i));
    if (top || rev != init) ctx().nontrivial_case();
  });
}

// ---------------------------------------------------------------- bswap family

enum {
  B_8 = 0, B_16, B_24, B_24S, B_32, B_48, B_48S, B_64, B_32F_TO_F, B_32F_FROM_F, B_64F_TO_D, B_64F_FROM_D,
  B_T_U8, B_T_S8, B_T_U16, B_T_S16, B_T_U32, B_T_S32, B_T_U64, B_T_S64, B_T_F_U32, B_T_U32_F, B_T_D_U64, B_T_U64_D, N_BSWAP
};
struct BswapInfo {
  const char* name;
  int nbits; // width whose bytes are reversed
  int arg_bits; // width of the argument type
  int res_bits; // width of the result type
  bool sign_extends; // result = sign extension of the reversed N-bit value to res_bits
  int inverse; // function that undoes it on the N-bit domain
};
static const BswapInfo kBswap[N_BSWAP] = {
    {"bswap8", 8, 8, 8, false, B_8},
    {"bswap16", 16, 16, 16, false, B_16},
    {"bswap24", 24, 32, 32, false, B_24},
    {"bswap24s", 24, 32, 32, true, B_24S},
    {"bswap32", 32, 32, 32, false, B_32},
    {"bswap48", 48, 64, 64, false, B_48},
    {"bswap48s", 48, 64, 64, true, B_48S},
    {"bswap64", 64, 64, 64, false, B_64},
    {"bswap32f(uint32_t)", 32, 32, 32, false, B_32F_FROM_F},
    {"bswap32f(float)", 32, 32, 32, false, B_32F_TO_F},
    {"bswap64f(uint64_t)", 64, 64, 64, false, B_64F_FROM_D},
    {"bswap64f(double)", 64, 64, 64, false, B_64F_TO_D},
    {"bswap<uint8_t>", 8, 8, 8, false, B_T_U8},
    {"bswap<int8_t>", 8, 8, 8, false, B_T_S8},
    {"bswap<uint16_t>", 16, 16, 16, false, B_T_U16},
    {"bswap<int16_t>", 16, 16, 16, false, B_T_S16},
    {"bswap<uint32_t>", 32, 32, 32, false, B_T_U32},
    {"bswap<int32_t>", 32, 32, 32, false, B_T_S32},
    {"bswap<uint64_t>", 64, 64, 64, false, B_T_U64},
    {"bswap<int64_t>", 64, 64, 64, false, B_T_S64},
    {"bswap<float,uint32_t>", 32, 32, 32, false, B_T_U32_F},
    {"bswap<uint32_t,float>", 32, 32, 32, false, B_T_F_U32},
    {"bswap<double,uint64_t>", 64, 64, 64, false, B_T_U64_D},
    {"bswap<uint64_t,double>", 64, 64, 64, false, B_T_D_U64},
};

// result bits, zero-extended from the result type's width
static inline uint64_t call_bswap(int fn, uint64_t x) {
  using namespace phosg;
  switch (fn) {
    case B_8: return bswap8(static_cast<uint8_t>(x));
    case B_16: return bswap16(static_cast<uint16_t>(x));
    case B_24: return bswap24(static_cast<uint32_t>(x));
    case B_24S: return static_cast<uint32_t>(bswap24s(static_cast<int32_t>(static_cast<uint32_t>(x))));
    case B_32: return bswap32(static_cast<uint32_t>(x));
    case B_48: return bswap48(x);
    case B_48S: return static_cast<uint64_t>(bswap48s(static_cast<int64_t>(x)));
    case B_64: return bswap64(x);
    case B_32F_TO_F: return to_bits<float>(bswap32f(static_cast<uint32_t>(x)));
    case B_32F_FROM_F: return bswap32f(from_bits<float>(x));
    case B_64F_TO_D: return to_bits<double>(bswap64f(static_cast<uint64_t>(x)));
    case B_64F_FROM_D: return bswap64f(from_bits<double>(x));
    case B_T_U8: return bswap<uint8_t>(static_cast<uint8_t>(x));
    case B_T_S8: return static_cast<uint8_t>(bswap<int8_t>(static_cast<int8_t>(static_cast<uint8_t>(x))));
    case B_T_U16: return bswap<uint16_t>(static_cast<uint16_t>(x));
    case B_T_S16: return static_cast<uint16_t>(bswap<int16_t>(static_cast<int16_t>(static_cast<uint16_t>(x))));
    case B_T_U32: return bswap<uint32_t>(static_cast<uint32_t>(x));
    case B_T_S32: return static_cast<uint32_t>(bswap<int32_t>(static_cast<int32_t>(static_cast<uint32_t>(x))));
    case B_T_U64: return bswap<uint64_t>(x);
    case B_T_S64: return static_cast<uint64_t>(bswap<int64_t>(static_cast<int64_t>(x)));
    case B_T_F_U32: return bswap<float, uint32_t>(from_bits<float>(x));
    case B_T_U32_F: return to_bits<float>(bswap<uint32_t, float>(static_cast<uint32_t>(x)));
    case B_T_D_U64: return bswap<double, uint64_t>(from_bits<double>(x));
    case B_T_U64_D: return to_bits<double>(bswap<uint64_t, double>(x));
    default: throw std::logic_error("bad bswap code");
  }
}

// byte reversal of the low `nbits` through std::reverse on a byte array, then optional sign extension
static inline uint64_t ref_bswap(uint64_t x, int nbits, bool sign_extends, int res_bits) {
  int nb = nbits / 8;
  unsigned char b[8];
  for (int i = 0; i < nb; i++) b[i] = static_cast<unsigned char>(x >> (8 * i));
  std::reverse(b, b + nb);
  uint64_t r = 0;
  for (int i = 0; i < nb; i++) r |= static_cast<uint64_t>(b[i]) << (8 * i);
  if (sign_extends) {
    uint64_t m = 1ULL << (nbits - 1);
    r = (r ^ m) - m;
  }
  return r & mask_bits(res_bits);
}

static inline bool bswap_ok(int fn, uint64_t x, uint64_t* got = nullptr, uint64_t* exp = nullptr, int* which = nullptr) {
  const BswapInfo& bi = kBswap[fn];
  uint64_t r = call_bswap(fn, x);
  uint64_t e = ref_bswap(x, bi.nbits, bi.sign_extends, bi.res_bits);
  if (r != e) {
    if (got) *got = r, *exp = e, *which = 0;
    return false;
  }
  // involution on the N-bit domain
  uint64_t back = call_bswap(bi.inverse, r & mask_bits(kBswap[bi.inverse].arg_bits));
  uint64_t want = x & mask_bits(bi.nbits);
  if (bi.sign_extends) {
    uint64_t m = 1ULL << (bi.nbits - 1);
    want = ((want ^ m) - m) & mask_bits(bi.res_bits);
  }
  if (back != want) {
    if (got) *got = back, *exp = want, *which = 1;
    return false;
  }
  return true;
}

// case: n = [function, x]
static void run_bswap(const Case& c) {
  uint64_t fn = c.u(0), x = c.u(1);
  if (fn >= N_BSWAP) throw std::logic_error("bad bswap code");
  const BswapInfo& bi = kBswap[fn];
  if (x & ~mask_bits(bi.arg_bits)) throw std::logic_error("argument wider than the parameter type");
  uint64_t got = 0, exp = 0;
  int which = 0;
  if (!bswap_ok(static_cast<int>(fn), x, &got, &exp, &which)) {
    VFAIL(cat(which ? "bswap-involution:" : "bswap-value:", bi.name), bi.name, "(0x", std::hex, x, ") ", (which ? "applied twice gives 0x" : "returned 0x"), got, " expected 0x", exp);
  }
  uint64_t lo = x & mask_bits(bi.nbits);
  if (((lo >> (bi.nbits - 1)) & 1) || ref_bswap(lo, bi.nbits, false, 64) != lo) ctx().nontrivial_case();
}

// ---------------------------------------------------------------- sign_extend / ext24 / ext48

static const char* kSrcNames[6] = {"uint8_t", "int8_t", "uint16_t", "int16_t", "uint32_t", "int32_t"};
static const int kSrcBits[6] = {8, 8, 16, 16, 32, 32};
static const char* kResNames[6] = {"uint16_t", "int16_t", "uint32_t", "int32_t", "uint64_t", "int64_t"};
static const int kResBits[6] = {16, 16, 32, 32, 64, 64};

template <typename R, typename S>
static inline uint64_t call_sext_rs(uint64_t x) {
  if constexpr (sizeof(R) > sizeof(S)) {
    S s = from_bits<S>(x);
    R r = phosg::sign_extend<R, S>(s);
    return to_bits<R>(r);
  } else {
    throw std::logic_error("sign_extend pair is not narrower -> wider");
  }
}
template <typename R>
static inline uint64_t call_sext_r(int si, uint64_t x) {
  switch (si) {
    case 0: return call_sext_rs<R, uint8_t>(x);
    case 1: return call_sext_rs<R, int8_t>(x);
    case 2: return call_sext_rs<R, uint16_t>(x);
    case 3: return call_sext_rs<R, int16_t>(x);
    case 4: return call_sext_rs<R, uint32_t>(x);
    case 5: return call_sext_rs<R, int32_t>(x);
    default: throw std::logic_error("bad source type");
  }
}
static inline uint64_t call_sext(int ri, int si, uint64_t x) {
  switch (ri) {
    case 0: return call_sext_r<uint16_t>(si, x);
    case 1: return call_sext_r<int16_t>(si, x);
    case 2: return call_sext_r<uint32_t>(si, x);
    case 3: return call_sext_r<int32_t>(si, x);
    case 4: return call_sext_r<uint64_t>(si, x);
    case 5: return call_sext_r<int64_t>(si, x);
    default: throw std::logic_error("bad result type");
  }
}
static inline uint64_t ref_sext(uint64_t x, int from_bits_, int to_bits_) {
  uint64_t m = 1ULL << (from_bits_ - 1);
  return (((x & mask_bits(from_bits_)) ^ m) - m) & mask_bits(to_bits_);
}

// case: n = [result type, source type, x]
static void run_sext(const Case& c) {
  uint64_t ri = c.u(0), si = c.u(1), x = c.u(2);
  if (ri >= 6 || si >= 6 || kResBits[ri] <= kSrcBits[si]) throw std::logic_error("not a narrower -> wider pair");
  if (x & ~mask_bits(kSrcBits[si])) throw std::logic_error("value wider than the source type");
  uint64_t r = call_sext(static_cast<int>(ri), static_cast<int>(si), x);
  uint64_t e = ref_sext(x, kSrcBits[si], kResBits[ri]);
  VCHECK(r == e, cat("sign_extend:", kSrcBits[si], "->", kResBits[ri]), "sign_extend<", kResNames[ri], ",", kSrcNames[si], ">(0x", std::hex, x, ") returned 0x", r, " expected 0x", e);
  if ((x >> (kSrcBits[si] - 1)) & 1) ctx().nontrivial_case();
}

static inline uint64_t call_ext(int which, uint64_t x) {
  if (which == 24) return static_cast<uint32_t>(phosg::ext24(static_cast<uint32_t>(x)));
  return static_cast<uint64_t>(phosg::ext48(x));
}
// case: n = [24 | 48, x]  (x within the narrow width; bits above it are allowed only when the narrow value is
// negative - a tag byte above a signed 24-bit displacement, say: the top bit must then still be replicated into ALL
// upper bits. What a non-negative narrow value with stray upper bits yields is not settled by the property.)
static void run_ext(const Case& c) {
  uint64_t which = c.u(0), x = c.u(1);
  if (which != 24 && which != 48) throw std::logic_error("bad ext width");
  bool negative = (x >> (which - 1)) & 1;
  bool dirty = (x & ~mask_bits(static_cast<int>(which))) != 0;
  if (which == 24 && (x >> 32)) throw std::logic_error("ext24 argument wider than 32 bits");
  if (dirty && !negative) throw std::logic_error("stray upper bits on a non-negative narrow value: outside the asserted domain");
  uint64_t r = call_ext(static_cast<int>(which), x);
  uint64_t e = ref_sext(x & mask_bits(static_cast<int>(which)), static_cast<int>(which), which == 24 ? 32 : 64);
  if (dirty) ctx().cls("ext:negative-narrow-value-with-stray-upper-bits");
  VCHECK(r == e, cat("ext", which), "ext", which, "(0x", std::hex, x, ") returned 0x", r, " expected 0x", e);
  if ((x >> (which - 1)) & 1) ctx().nontrivial_case();
}

// ---------------------------------------------------------------- value sets

static std::vector<uint64_t> int_values(int bits) {
  uint64_t m = mask_bits(bits);
  std::vector<uint64_t> v = {0, 1, 2, 3, 7, 8, 13, 15, 16, 31, 32, 63, 0x7F, 0x80, 0xFF, 0x100, 0x0102030405060708ULL, 0x8090A0B0C0D0E0F0ULL,
      m >> 1, (m >> 1) - 1, (m >> 1) + 1, (m >> 1) + 2, m, m - 1};
  for (auto& x : v) x &= m;
  std::sort(v.begin(), v.end());
  v.erase(std::unique(v.begin(), v.end()), v.end());
  return v;
}
static std::vector<uint64_t> float_values(bool dbl) {
  std::vector<uint64_t> v;
  auto add = [&](double d) { v.push_back(dbl ? to_bits<double>(d) : to_bits<float>(static_cast<float>(d))); };
  for (double d : {0.0, -0.0, 1.0, -1.0, 0.5, 2.0, 3.0, 13.0, 0.1, 1e10, -1e10, 16777216.0, 16777217.0, 9007199254740992.0, 1e-30, 1e30})
    add(d);
  add(INFINITY);
  add(-INFINITY);
  if (dbl) {
    v.push_back(0x7FF8000000000000ULL); // quiet NaN
    v.push_back(0x7FF0000000000001ULL); // signalling NaN
    v.push_back(0xFFF8000000000123ULL); // negative NaN with payload
    v.push_back(0x0000000000000001ULL); // smallest denormal
    v.push_back(0x7FEFFFFFFFFFFFFFULL); // max
    v.push_back(0x0010000000000000ULL); // min normal
    v.push_back(0x0102030405060708ULL);
  } else {
    v.push_back(0x7FC00000);
    v.push_back(0x7F800001);
    v.push_back(0xFFC00123);
    v.push_back(0x00000001);
    v.push_back(0x7F7FFFFF);
    v.push_back(0x00800000);
    v.push_back(0x01020304);
  }
  return v;
}
static std::vector<uint64_t> values_for(uint64_t scalar) {
  if (scalar == 6) return float_values(false);
  if (scalar == 7) return float_values(true);
  return int_values(8 * kScalarBytes[scalar]);
}
// operand bit patterns for operand kind rk
static std::vector<uint64_t> operands_for(uint64_t scalar, int rk) {
  if (rk == 0) return values_for(scalar);
  if (rk == 1) {
    std::vector<uint64_t> v;
    for (int64_t d : {0LL, 1LL, 2LL, 3LL, 7LL, 13LL, 15LL, 16LL, 31LL, 32LL, 63LL, 255LL, 256LL, 65535LL, 65536LL, -1LL, -2LL, -13LL, -32768LL, 2147483647LL, -2147483648LL}) v.push_back(static_cast<uint64_t>(d));
    return v;
  }
  if (scalar >= 6) return float_values(true);
  std::vector<uint64_t> v = int_values(64);
  for (int64_t d : {-2LL, -13LL, -65536LL, 4294967296LL, 4294967297LL, -4294967296LL}) v.push_back(static_cast<uint64_t>(d));
  return v;
}

static inline uint64_t splitmix(uint64_t& s) {
  uint64_t z = (s += 0x9E3779B97F4A7C15ULL);
  z = (z ^ (z >> 30)) * 0xBF58476D1CE4E5B9ULL;
  z = (z ^ (z >> 27)) * 0x94D049BB133111EBULL;
  return z ^ (z >> 31);
}

// ---------------------------------------------------------------- generators

static uint64_t gen_bits(int bits) {
  uint64_t v;
  switch (vg::below(3)) {
    case 0: v = vg::interesting64(); break;
    case 1: v = vg::interesting64() >> (64 - bits); break;
    default: v = vg::u64(); break;
  }
  return v & mask_bits(bits);
}
static uint64_t gen_scalar_bits(uint64_t scalar) {
  if (scalar >= 6 && vg::coin()) return vg::pick(values_for(scalar));
  return gen_bits(8 * kScalarBytes[scalar]);
}

static Case gen_ops() {
  uint64_t w = vg::below(24), scalar = w % 8;
  uint64_t op = vg::below(N_OPS);
  uint64_t rk = vg::below(3);
  uint64_t init = gen_scalar_bits(scalar);
  uint64_t operand;
  if (vg::coin()) {
    operand = vg::pick(operands_for(scalar, static_cast<int>(rk)));
  } else {
    operand = rk == 0 ? gen_scalar_bits(scalar) : rk == 1 ? static_cast<uint64_t>(static_cast<int64_t>(static_cast<int32_t>(vg::interesting64()))) : vg::interesting64();
  }
  if (op == OP_SHL || op == OP_SHR) {
    // a count that is valid for the promoted type most of the time
    if (vg::chance(3, 4)) operand = vg::below(scalar >= 4 ? 64 : 32);
  }
  // by construction: replace what the native type leaves undefined
  bool defined = true;
  auto probe = [&]() {
    with_wrapper(w, [&](auto tag) {
      using W = typename decltype(tag)::W;
      using T = typename decltype(tag)::T;
      T init_v = from_bits<T>(init);
      defined = true;
      if (!op_is_binary(static_cast<int>(op))) return;
      if (rk == 0) defined = op_defined<T, T>(static_cast<int>(op), init_v, from_bits<T>(operand));
      else if (rk == 1) defined = op_defined<T, int>(static_cast<int>(op), init_v, static_cast<int>(static_cast<int64_t>(operand)));
      else if constexpr (std::is_floating_point_v<T>) defined = op_defined<T, double>(static_cast<int>(op), init_v, from_bits<double>(operand));
      else defined = op_defined<T, int64_t>(static_cast<int>(op), init_v, static_cast<int64_t>(operand));
    });
  };
  probe();
  if (!defined) {
    // 1 is a valid divisor and a valid shift count for every type; for floats it is 1.0 only when rk != 0
    operand = (rk == 0 && scalar == 6) ? to_bits<float>(1.0f) : (rk == 0 && scalar == 7) ? to_bits<double>(1.0) : (rk == 2 && scalar >= 6) ? to_bits<double>(1.0) : 1;
    probe();
    if (!defined) op = OP_ADD + (op % 4); // bit operators do not exist for floats
  }
  ctx().cls(cat("ops:", kOpNames[op]));
  return Case("ops").N(w).N(op).N(rk).N(init).N(operand);
}

static const int kChainFirst[13] = {OP_ASSIGN, OP_ADD, OP_SUB, OP_MUL, OP_DIV, OP_MOD, OP_AND, OP_OR, OP_XOR, OP_SHL, OP_SHR, OP_PREINC, OP_PREDEC};
static const int kChainSecond[15] = {OP_ASSIGN, OP_ADD, OP_SUB, OP_MUL, OP_DIV, OP_MOD, OP_AND, OP_OR, OP_XOR, OP_SHL, OP_SHR, OP_PREINC, OP_POSTINC, OP_PREDEC, OP_POSTDEC};

// which step of `(x op1 d1) op2 d2` the native type leaves undefined (0 = none), for operand kind rk
static int chain_probe(uint64_t w, int op1, int op2, int rk, uint64_t init, uint64_t d1, uint64_t d2) {
  int step = 0;
  with_wrapper(w, [&](auto tag) {
    using T = typename decltype(tag)::T;
    T iv = from_bits<T>(init);
    if (rk == 0) step = chain_undefined_step<T, T>(op1, op2, iv, from_bits<T>(d1), from_bits<T>(d2));
    else step = chain_undefined_step<T, int>(op1, op2, iv, static_cast<int>(static_cast<int64_t>(d1)), static_cast<int>(static_cast<int64_t>(d2)));
  });
  return step;
}
// the operand "one" for operand kind rk: a valid divisor and shift count for every type
static uint64_t chain_one(uint64_t scalar, int rk) { return (rk == 0 && scalar == 6) ? to_bits<float>(1.0f) : (rk == 0 && scalar == 7) ? to_bits<double>(1.0) : 1; }

static Case gen_chain() {
  uint64_t w = vg::below(24), scalar = w % 8;
  int op1 = kChainFirst[vg::below(13)], op2 = kChainSecond[vg::below(15)];
  int rk = static_cast<int>(vg::below(2));
  uint64_t init = gen_scalar_bits(scalar);
  auto operand = [&](int op) -> uint64_t {
    if ((op == OP_SHL || op == OP_SHR) && vg::chance(3, 4)) return vg::below(scalar >= 4 ? 64 : 32);
    if (vg::coin()) return vg::pick(operands_for(scalar, rk));
    return rk == 0 ? gen_scalar_bits(scalar) : static_cast<uint64_t>(static_cast<int64_t>(static_cast<int32_t>(vg::interesting64())));
  };
  uint64_t d1 = operand(op1), d2 = operand(op2);
  if (scalar >= 6) {
    // bit operators, % and shifts do not exist for floats
    if (op1 >= OP_MOD && op1 <= OP_SHR) op1 = OP_ADD + (op1 % 4);
    if (op2 >= OP_MOD && op2 <= OP_SHR) op2 = OP_ADD + (op2 % 4);
  }
  // by construction: replace what the native type leaves undefined
  if (chain_probe(w, op1, op2, rk, init, d1, d2) == 1) d1 = chain_one(scalar, rk);
  if (chain_probe(w, op1, op2, rk, init, d1, d2) == 2) d2 = chain_one(scalar, rk);
  ctx().cls(cat("chain-second:", kOpNames[op2]));
  return Case("chain").N(w).N(op1).N(op2).N(rk).N(init).N(d1).N(d2);
}

static Case gen_bswap() {
  uint64_t fn = vg::below(N_BSWAP);
  return Case("bswap").N(fn).N(gen_bits(kBswap[fn].arg_bits));
}
static Case gen_sext() {
  uint64_t si = vg::below(6);
  // wider by construction: choose among the result types wider than the source
  int first = kSrcBits[si] == 8 ? 0 : kSrcBits[si] == 16 ? 2 : 4;
  uint64_t ri = first + vg::below(6 - first);
  return Case("sext").N(ri).N(si).N(gen_bits(kSrcBits[si]));
}
static Case gen_ext() {
  uint64_t which = vg::coin() ? 24 : 48;
  uint64_t x;
  switch (vg::below(3)) {
    case 0: // top bit of the narrow value set, sometimes with stray bits above the narrow width
      x = (1ULL << (which - 1)) | gen_bits(static_cast<int>(which));
      if (vg::coin()) x |= (which == 24 ? (vg::below(256) << 24) : (vg::below(65536) << 48));
      break;
    case 1: x = gen_bits(static_cast<int>(which) - 1); break;
    default: x = gen_bits(static_cast<int>(which)); break;
  }
  return Case("ext").N(which).N(x);
}

// ---------------------------------------------------------------- enumerators

// hot loop over one (wrapper, op, rk, operand) column for a range of initial values
template <typename W, typename T>
static bool sweep_column(Enum& e, uint64_t w, int op, int rk, uint64_t operand, uint64_t lo, uint64_t hi, uint64_t* evals, uint64_t* skipped) {
  int endian = static_cast<int>(w / 8);
  for (uint64_t init = lo; init < hi; init++) {
    bool defined = true;
    Verdict v = compare_cell<W, T>(endian, op, rk, init, operand, &defined);
    if (!defined) {
      (*skipped)++;
      continue;
    }
    (*evals)++;
    if (v != V_OK) {
      e.exec_light(Case("ops").N(w).N(op).N(rk).N(init).N(operand));
      return false;
    }
  }
  return true;
}

static void enum_ops(Enum& e) {
  uint64_t idx = 0;
  uint64_t skipped = 0;
  // (a) every wrapper x every op x operand kinds x boundary initial values x boundary operands, journalled case by case
  for (uint64_t w = 0; w < 24 && !e.stop; w++) {
    uint64_t scalar = w % 8;
    std::vector<uint64_t> inits = values_for(scalar);
    for (int op = 0; op < N_OPS && !e.stop; op++) {
      for (int rk = 0; rk < 3; rk++, idx++) {
        if (!e.mine(idx)) continue;
        if (rk != 0 && !op_takes_value(op) && op != OP_STORE_RAW) continue;
        std::vector<uint64_t> operands = (op_takes_value(op) || op == OP_STORE_RAW) ? operands_for(scalar, rk) : std::vector<uint64_t>{0};
        for (uint64_t init : inits) {
          for (uint64_t d : operands) {
            bool defined = true;
            with_wrapper(w, [&](auto tag) {
              using W = typename decltype(tag)::W;
              using T = typename decltype(tag)::T;
              // probe definedness without touching the wrapper
              T iv = from_bits<T>(init);
              if (!op_is_binary(op)) return;
              if (rk == 0) defined = op_defined<T, T>(op, iv, from_bits<T>(d));
              else if (rk == 1) defined = op_defined<T, int>(op, iv, static_cast<int>(static_cast<int64_t>(d)));
              else if constexpr (std::is_floating_point_v<T>) defined = op_defined<T, double>(op, iv, from_bits<double>(d));
              else defined = op_defined<T, int64_t>(op, iv, static_cast<int64_t>(d));
            });
            if (!defined) {
              skipped++;
              continue;
            }
            e.exec(Case("ops").N(w).N(op).N(rk).N(init).N(d));
          }
        }
      }
    }
  }
  // (b) all 2^16 initial values of the six 16-bit wrappers x every op x the operand set (operand kind 0; all kinds in thorough)
  const uint64_t kBlock = 4096;
  for (uint64_t w : {0, 1, 8, 9, 16, 17}) {
    uint64_t scalar = w % 8;
    for (int op = 0; op < N_OPS && !e.stop; op++) {
      int nrk = (e.thorough() && (op_takes_value(op) || op == OP_STORE_RAW)) ? 3 : 1;
      for (int rk = 0; rk < nrk; rk++) {
        std::vector<uint64_t> operands = (op_takes_value(op) || op == OP_STORE_RAW) ? operands_for(scalar, rk) : std::vector<uint64_t>{0};
        for (uint64_t d : operands) {
          for (uint64_t lo = 0; lo < 0x10000 && !e.stop; lo += kBlock, idx++) {
            if (!e.mine(idx)) continue;
            e.journal_block(Case("ops").N(w).N(op).N(rk).N(lo).N(d));
            uint64_t evals = 0;
            with_wrapper(w, [&](auto tag) {
              using W = typename decltype(tag)::W;
              using T = typename decltype(tag)::T;
              if constexpr (sizeof(T) == 2) sweep_column<W, T>(e, w, op, rk, d, lo, lo + kBlock, &evals, &skipped);
            });
            e.x.count(evals);
          }
        }
      }
    }
  }
  // distinct non-trivial initial values of the 16-bit sweep (registered once per wrapper and value, not per operator)
  for (uint64_t w : {0, 1, 8, 9, 16, 17})
    for (uint64_t v = 0; v < 0x10000; v++)
      if (e.mine(v) && ((v & 0x8000) || (v >> 8) != (v & 0xFF))) e.x.nontrivial(mix(0xC03000 + w, v));
  if (skipped) e.x.exclude("operator/operand pairs undefined on the native type (division by zero, INT_MIN / -1, shift count out of range, bit operators on floats)", skipped);
  e.complete(cat("all 24 wrappers x 19 operations x 3 operand kinds x boundary value set squared; all 2^16 initial values of the six 16-bit wrappers x 19 operations x operand set",
      e.thorough() ? " x 3 operand kinds" : " (operand kind: same type)"));
}

// every wrapper x every (first, second) operator pair x both operand kinds x a boundary subset of initial values and operands
static void enum_chain(Enum& e) {
  uint64_t idx = 0, skipped = 0;
  for (uint64_t w = 0; w < 24 && !e.stop; w++) {
    uint64_t scalar = w % 8;
    std::vector<uint64_t> all = values_for(scalar), inits;
    for (size_t i = 0; i < all.size(); i += 3) inits.push_back(all[i]);
    inits.push_back(all.back());
    for (int op1 : kChainFirst) {
      for (int op2 : kChainSecond) {
        if (scalar >= 6 && ((op1 >= OP_MOD && op1 <= OP_SHR) || (op2 >= OP_MOD && op2 <= OP_SHR))) continue;
        for (int rk = 0; rk < 2; rk++, idx++) {
          if (!e.mine(idx)) continue;
          std::vector<uint64_t> ds;
          if (rk == 0 && scalar >= 6) {
            for (double d : {1.0, 3.0, -0.5, 1e10}) ds.push_back(scalar == 6 ? to_bits<float>(static_cast<float>(d)) : to_bits<double>(d));
          } else {
            for (int64_t d : {1LL, 3LL, 13LL, 255LL, -2LL}) ds.push_back(rk == 0 ? (static_cast<uint64_t>(d) & mask_bits(8 * kScalarBytes[scalar])) : static_cast<uint64_t>(d));
          }
          for (uint64_t init : inits)
            for (uint64_t d1 : ds)
              for (uint64_t d2 : ds) {
                if (chain_probe(w, op1, op2, rk, init, d1, d2) != 0) {
                  skipped++;
                  continue;
                }
                e.exec(Case("chain").N(w).N(op1).N(op2).N(rk).N(init).N(d1).N(d2));
              }
        }
      }
    }
  }
  if (skipped) e.x.exclude("chained operator/operand combinations undefined on the native type (shift count out of range, division by zero)", skipped);
  e.complete("all 24 wrappers x 13 first operators (=, += -= *= /= %= &= |= ^= <<= >>=, ++x, --x) x 15 second operators (the same plus x++, x--) applied to the result of the "
             "first x 2 operand kinds x a boundary subset of initial values x 4-5 operands squared");
}

static void enum_bswap(Enum& e) {
  uint64_t idx = 0;
  // boundary values of every function, journalled
  for (int fn = 0; fn < N_BSWAP && !e.stop; fn++, idx++) {
    if (!e.mine(idx)) continue;
    std::vector<uint64_t> vals = int_values(kBswap[fn].arg_bits);
    for (int k = 0; k < kBswap[fn].arg_bits; k++) vals.push_back(1ULL << k);
    for (int k = 0; k < kBswap[fn].arg_bits / 8; k++) vals.push_back(0xFFULL << (8 * k)), vals.push_back(mask_bits(kBswap[fn].arg_bits) & ~(0xFFULL << (8 * k)));
    for (uint64_t v : vals) e.exec(Case("bswap").N(fn).N(v));
  }
  // every value of the 8- and 16-bit functions; every 24-bit value for bswap24 / bswap24s (also with garbage above bit 24)
  struct Sweep {
    int fn;
    uint64_t count;
    uint64_t high; // OR-ed into the argument
  };
  std::vector<Sweep> sweeps = {{B_8, 0x100, 0}, {B_T_U8, 0x100, 0}, {B_T_S8, 0x100, 0}, {B_16, 0x10000, 0}, {B_T_U16, 0x10000, 0}, {B_T_S16, 0x10000, 0},
      {B_24, 1ULL << 24, 0}, {B_24S, 1ULL << 24, 0}, {B_24, 1ULL << 24, 0xA5000000ULL}, {B_24S, 1ULL << 24, 0xFF000000ULL}};
  const uint64_t kBlock = 1 << 16;
  for (const Sweep& s : sweeps) {
    for (uint64_t lo = 0; lo < s.count && !e.stop; lo += kBlock, idx++) {
      if (!e.mine(idx)) continue;
      uint64_t hi = std::min(s.count, lo + kBlock);
      e.journal_block(Case("bswap").N(s.fn).N(lo | s.high));
      for (uint64_t x = lo; x < hi; x++) {
        if (!bswap_ok(s.fn, x | s.high)) {
          e.exec_light(Case("bswap").N(s.fn).N(x | s.high));
          break;
        }
        if ((x & 63) == 21) e.x.nontrivial(mix(0xB5A9000 + s.fn, x | s.high));
      }
      e.x.count(hi - lo);
    }
  }
  e.complete("every value of bswap8/16 and bswap<u8/s8/u16/s16>; all 2^24 values of bswap24 and bswap24s (plain and with garbage above bit 24); boundary, single-bit and single-byte patterns of all 24 functions");
}

static void enum_sext(Enum& e) {
  uint64_t idx = 0;
  for (int si = 0; si < 6; si++)
    for (int ri = 0; ri < 6; ri++) {
      if (kResBits[ri] <= kSrcBits[si]) continue;
      if (kSrcBits[si] <= 16) {
        const uint64_t kBlock = 4096;
        uint64_t total = 1ULL << kSrcBits[si];
        for (uint64_t lo = 0; lo < total && !e.stop; lo += kBlock, idx++) {
          if (!e.mine(idx)) continue;
          uint64_t hi = std::min(total, lo + kBlock);
          e.journal_block(Case("sext").N(ri).N(si).N(lo));
          for (uint64_t x = lo; x < hi; x++) {
            if (call_sext(ri, si, x) != ref_sext(x, kSrcBits[si], kResBits[ri])) {
              e.exec_light(Case("sext").N(ri).N(si).N(x));
              break;
            }
            if ((x >> (kSrcBits[si] - 1)) & 1) e.x.nontrivial(mix(0x5E47000 + ri * 8 + si, x));
          }
          e.x.count(hi - lo);
        }
      } else {
        if (!e.mine(idx++)) continue;
        std::vector<uint64_t> vals = int_values(32);
        for (int k = 0; k < 32; k++) vals.push_back(1ULL << k), vals.push_back(~(1ULL << k) & 0xFFFFFFFFULL);
        for (uint64_t v : vals) e.exec(Case("sext").N(ri).N(si).N(v));
      }
    }
  e.complete("every value of every 8- and 16-bit source type for all 20 wider result types; boundary and single-bit values of the four 32 -> 64 bit pairs");
}

static void enum_ext(Enum& e) {
  uint64_t idx = 0;
  const uint64_t kBlock = 1 << 16;
  for (uint64_t lo = 0; lo < (1ULL << 24) && !e.stop; lo += kBlock, idx++) {
    if (!e.mine(idx)) continue;
    e.journal_block(Case("ext").N(24).N(lo));
    for (uint64_t x = lo; x < lo + kBlock; x++) {
      if (call_ext(24, x) != ref_sext(x, 24, 32)) {
        e.exec_light(Case("ext").N(24).N(x));
        break;
      }
      if ((x & 0x800000) && (x & 63) == 21) e.x.nontrivial(mix(0xE87000, x));
      if (x & 0x800000) {
        // negative narrow value below a stray tag byte: the upper byte must still come out as all ones
        uint64_t d = x | (((x * 0x9E37u) >> 7 & 0xFF) << 24);
        if (call_ext(24, d) != ref_sext(x, 24, 32)) {
          e.exec_light(Case("ext").N(24).N(d));
          break;
        }
      }
    }
    e.x.count(kBlock + (lo >= 0x800000 ? kBlock : 0));
  }
  if (e.mine(idx++)) {
    std::vector<uint64_t> vals = int_values(48);
    for (int k = 0; k < 48; k++) {
      vals.push_back(1ULL << k);
      vals.push_back((1ULL << k) - 1);
      vals.push_back(mask_bits(48) & ~(1ULL << k));
      vals.push_back((1ULL << 47) | (1ULL << k));
      for (uint64_t tag : {0x0001ULL, 0x7FFFULL, 0x8000ULL, 0xFFFFULL, 0x00FFULL}) vals.push_back((tag << 48) | (1ULL << 47) | (1ULL << k));
    }
    for (uint64_t v : vals) e.exec(Case("ext").N(48).N(v));
  }
  e.complete("all 2^24 arguments of ext24 and every negative 24-bit value under one stray tag byte; boundary, single-bit, all-but-one-bit and top-bit-plus-one-bit 48-bit arguments of ext48");
}

// Dense pseudo-random sampling of the 32/48/64-bit domains in a hot loop (not exhaustive). The stream is a pure
// function of (seed, shard, block); a mismatch is handed to `on_mismatch` as a stand-alone case
// n = [kind, args of the ops/bswap/ext/sext case]  with kind 0 = ops, 1 = bswap, 2 = ext, 3 = sext.
static const uint64_t kSampleBlock = 50000;

template <typename F>
static void sample_block(uint64_t seed, uint64_t shard, uint64_t b, uint64_t* evals_out, uint64_t* skipped_out, F&& on_mismatch) {
  uint64_t s = mix(mix(seed, shard + 77), b);
  uint64_t evals = 0, skipped = 0;
  bool go_on = true;
  for (uint64_t k = 0; k < kSampleBlock && go_on; k++) {
    uint64_t r = splitmix(s);
    uint64_t x = splitmix(s);
    // shape the value: full random, sparse, dense, small
    switch (r & 3) {
      case 1: x &= splitmix(s); break;
      case 2: x |= splitmix(s); break;
      case 3: x >>= (splitmix(s) & 63); break;
      default: break;
    }
    uint64_t sel = (r >> 8) % 5;
    if (sel == 0) {
      int fn = static_cast<int>((r >> 16) % N_BSWAP);
      uint64_t a = x & mask_bits(kBswap[fn].arg_bits);
      evals++;
      if (!bswap_ok(fn, a)) go_on = on_mismatch(Case("sample").N(1).N(fn).N(a));
    } else if (sel == 1) {
      uint64_t a = x & mask_bits(48);
      if ((r >> 16) & 1) a |= 1ULL << 47;
      evals++;
      if (call_ext(48, a) != ref_sext(a, 48, 64)) go_on = on_mismatch(Case("sample").N(2).N(48).N(a));
    } else if (sel == 2) {
      int si = 4 + static_cast<int>((r >> 16) & 1), ri = 4 + static_cast<int>((r >> 17) & 1);
      uint64_t a = x & 0xFFFFFFFFULL;
      evals++;
      if (call_sext(ri, si, a) != ref_sext(a, 32, 64)) go_on = on_mismatch(Case("sample").N(3).N(ri).N(si).N(a));
    } else {
      // wrapper operation on a 32/64-bit (or float) wrapper
      static const uint64_t wide[] = {2, 3, 4, 5, 6, 7, 10, 11, 12, 13, 14, 15, 18, 19, 20, 21, 22, 23};
      uint64_t w = wide[(r >> 16) % 18];
      int op = static_cast<int>((r >> 24) % N_OPS);
      int rk = static_cast<int>((r >> 32) % 3);
      uint64_t init = x & mask_bits(8 * kScalarBytes[w % 8]);
      uint64_t d = splitmix(s);
      if ((r >> 40) & 1) d >>= (splitmix(s) & 63);
      if (op == OP_SHL || op == OP_SHR) d &= (w % 8 >= 4 ? 63 : 31);
      if (rk == 0) d &= mask_bits(8 * kScalarBytes[w % 8]);
      bool defined = true;
      Verdict v = V_OK;
      with_wrapper(w, [&](auto tag) {
        using W = typename decltype(tag)::W;
        using T = typename decltype(tag)::T;
        v = compare_cell<W, T>(static_cast<int>(w / 8), op, rk, init, d, &defined);
      });
      if (!defined) {
        skipped++;
        continue;
      }
      evals++;
      if (v != V_OK) go_on = on_mismatch(Case("sample").N(0).N(w).N(op).N(rk).N(init).N(d));
      if ((k & 15) == 3) ctx().nontrivial(mix(mix(0x5A3913, w), init));
    }
  }
  if (evals_out) *evals_out += evals;
  if (skipped_out) *skipped_out += skipped;
}

// case: n = [kind, ...]: kind 0..3 = one ops/bswap/ext/sext case (a recorded mismatch); kind 99 = [99, seed, shard, block]
// re-runs a whole block of the stream (the journal entry of the hot loop, used to attribute a crash).
static void run_sample(const Case& c) {
  uint64_t kind = c.u(0);
  auto inner = [&](const Case& sc) {
    Case in;
    in.n.assign(sc.n.begin() + 1, sc.n.end());
    switch (sc.u(0)) {
      case 0: run_ops(in); break;
      case 1: run_bswap(in); break;
      case 2: run_ext(in); break;
      case 3: run_sext(in); break;
      default: throw std::logic_error("bad sample kind");
    }
  };
  if (kind == 99) {
    sample_block(c.u(1), c.u(2), c.u(3), nullptr, nullptr, [&](const Case& sc) {
      inner(sc); // throws the precise failure
      return true;
    });
    ctx().nontrivial_case();
  } else {
    inner(c);
  }
}

static void enum_sample(Enum& e) {
  const uint64_t per_shard = e.thorough() ? 8000000 : 400000;
  uint64_t nblocks = per_shard / kSampleBlock;
  uint64_t skipped = 0;
  for (uint64_t b = 0; b < nblocks && !e.stop; b++) {
    e.journal_block(Case("sample").N(99).N(e.x.seed).N(e.x.shard).N(b));
    uint64_t evals = 0;
    sample_block(e.x.seed, static_cast<uint64_t>(e.x.shard), b, &evals, &skipped, [&](const Case& sc) {
      e.exec_light(sc);
      return !e.stop;
    });
    e.x.count(evals);
  }
  if (skipped) e.x.exclude("sampled operator/operand pairs undefined on the native type", skipped);
}

#else // C03_SWEEP32

// ---------------------------------------------------------------- 2^32 sweeps (o2 build, thorough only)

// case: n = [kind, x]: kind 0..8 = 32-bit wrapper index (le/be/re x u32,s32,float), 100 = bswap/sign_extend/ext functions of x
static const uint64_t kWide32[9] = {2, 3, 6, 10, 11, 14, 18, 19, 22};

template <typename W, typename T>
static inline Verdict sweep_value(int endian, uint64_t bits) {
  bool defined = true;
  // (every cell re-checks construction: object bytes, load() and the conversion operator)
  for (int op : {OP_STORE, OP_PREINC, OP_POSTINC, OP_PREDEC, OP_POSTDEC, OP_STORE_RAW}) {
    Verdict v = compare_cell<W, T>(endian, op, 0, bits, bits ^ 0x5A5A5A5AULL, &defined);
    if (v != V_OK) return v;
  }
  return V_OK;
}

static inline uint64_t ref_rev32(uint64_t x) {
  unsigned char b[4];
  for (int i = 0; i < 4; i++) b[i] = static_cast<unsigned char>(x >> (8 * i));
  std::reverse(b, b + 4);
  return static_cast<uint64_t>(b[0]) | (static_cast<uint64_t>(b[1]) << 8) | (static_cast<uint64_t>(b[2]) << 16) | (static_cast<uint64_t>(b[3]) << 24);
}
static inline uint64_t ref_sx(uint64_t x, int from, int to) {
  uint64_t m = 1ULL << (from - 1);
  return (((x & mask_bits(from)) ^ m) - m) & mask_bits(to);
}

// returns 0 when all functions agree on x, otherwise the index of the first one that does not
static inline int functions_ok(uint64_t x) {
  using namespace phosg;
  uint32_t u = static_cast<uint32_t>(x);
  uint64_t rev = ref_rev32(x);
  if (bswap32(u) != rev) return 1;
  if (bswap<uint32_t>(u) != rev) return 2;
  if (static_cast<uint32_t>(bswap<int32_t>(static_cast<int32_t>(u))) != rev) return 3;
  if (to_bits<float>(bswap32f(u)) != rev) return 4;
  if (bswap32f(from_bits<float>(x)) != rev) return 5;
  if (bswap<float, uint32_t>(from_bits<float>(x)) != rev) return 6;
  if (to_bits<float>(bswap<uint32_t, float>(u)) != rev) return 7;
  if (bswap32(bswap32(u)) != u) return 8;
  uint64_t r24 = ((x & 0xFF) << 16) | (x & 0xFF00) | ((x >> 16) & 0xFF);
  if (bswap24(u) != r24) return 9;
  if (static_cast<uint32_t>(bswap24s(static_cast<int32_t>(u))) != ref_sx(r24, 24, 32)) return 10;
  if (static_cast<uint64_t>(sign_extend<int64_t, uint32_t>(u)) != ref_sx(x, 32, 64)) return 11;
  if (sign_extend<uint64_t, uint32_t>(u) != ref_sx(x, 32, 64)) return 12;
  if (static_cast<uint64_t>(sign_extend<int64_t, int32_t>(static_cast<int32_t>(u))) != ref_sx(x, 32, 64)) return 13;
  if (sign_extend<uint64_t, int32_t>(static_cast<int32_t>(u)) != ref_sx(x, 32, 64)) return 14;
  // 48-bit helpers on a 48-bit value derived from x (x in the top 32 bits, a hash of x below)
  uint64_t y = ((x << 16) | ((x * 0x9E3779B1ULL) >> 16 & 0xFFFF)) & mask_bits(48);
  if (static_cast<uint64_t>(ext48(y)) != ref_sx(y, 48, 64)) return 15;
  unsigned char b[6];
  for (int i = 0; i < 6; i++) b[i] = static_cast<unsigned char>(y >> (8 * i));
  std::reverse(b, b + 6);
  uint64_t r48 = 0;
  for (int i = 0; i < 6; i++) r48 |= static_cast<uint64_t>(b[i]) << (8 * i);
  if (bswap48(y) != r48) return 16;
  if (static_cast<uint64_t>(bswap48s(static_cast<int64_t>(y))) != ref_sx(r48, 48, 64)) return 17;
  return 0;
}
static const int kNumFunctions = 17;

static void run_sweep32(const Case& c) {
  uint64_t kind = c.u(0), x = c.u(1);
  if (x > 0xFFFFFFFFULL) throw std::logic_error("value wider than 32 bits");
  if (kind < 9) {
    uint64_t w = kWide32[kind];
    with_wrapper(w, [&](auto tag) {
      using W = typename decltype(tag)::W;
      using T = typename decltype(tag)::T;
      if constexpr (sizeof(T) == 4) {
        Verdict v = sweep_value<W, T>(static_cast<int>(w / 8), x);
        VCHECK(v == V_OK, cat("sweep32:", kVerdictNames[v]), wrapper_name(w), " value 0x", std::hex, x, ": ", kVerdictNames[v]);
      }
    });
  } else {
    int f = functions_ok(x);
    VCHECK(f == 0, cat("sweep32-function:", f), "bswap/sign_extend/ext function #", f, " disagrees with the reference for x=0x", std::hex, x);
  }
}

static void enum_sweep32(Enum& e) {
  const uint64_t kBlock = 1ULL << 20;
  for (uint64_t b = 0; b < (1ULL << 32) / kBlock && !e.stop; b++) {
    if (!e.mine(b)) continue;
    uint64_t lo = b * kBlock, hi = lo + kBlock;
    for (uint64_t kind = 0; kind < 9 && !e.stop; kind++) {
      uint64_t w = kWide32[kind];
      e.journal_block(Case("sweep32").N(kind).N(lo));
      with_wrapper(w, [&](auto tag) {
        using W = typename decltype(tag)::W;
        using T = typename decltype(tag)::T;
        if constexpr (sizeof(T) == 4) {
          for (uint64_t x = lo; x < hi; x++) {
            if (sweep_value<W, T>(static_cast<int>(w / 8), x) != V_OK) {
              e.exec_light(Case("sweep32").N(kind).N(x));
              break;
            }
          }
        }
      });
      e.x.count((hi - lo) * 6);
    }
    e.journal_block(Case("sweep32").N(100).N(lo));
    for (uint64_t x = lo; x < hi; x++) {
      if (functions_ok(x) != 0) {
        e.exec_light(Case("sweep32").N(100).N(x));
        break;
      }
    }
    e.x.count((hi - lo) * kNumFunctions);
    // distinct non-trivial values: a 1/4096 subsample of the values with the top bit set or a non-palindromic pattern
    for (uint64_t x = lo + 1365; x < hi; x += 4096)
      if ((x & 0x80000000ULL) || ref_rev32(x) != x) e.x.nontrivial(mix(0x53EE9, x));
  }
  e.complete("all 2^32 values: construct/store/load/conversion/raw bytes/store_raw and ++x x++ --x x-- of the nine 32-bit wrappers (le/be/re x uint32_t,int32_t,float); "
             "bswap32, bswap<uint32_t>, bswap<int32_t>, bswap32f (both), bswap<float,uint32_t>, bswap<uint32_t,float>, bswap24, bswap24s, sign_extend 32->64 (4 forms); "
             "ext48/bswap48/bswap48s on one derived 48-bit value per x");
}

#endif

int main(int argc, char** argv) {
  std::vector<SubCheck> checks;
#ifndef C03_SWEEP32
  checks.push_back({"ops", run_ops, gen_ops, 300000, 3000000, 100, enum_ops});
  checks.push_back({"chain", run_chain, gen_chain, 120000, 1200000, 100, enum_chain});
  checks.push_back({"bswap", run_bswap, gen_bswap, 150000, 1500000, 100, enum_bswap});
  checks.push_back({"sext", run_sext, gen_sext, 60000, 600000, 100, enum_sext});
  checks.push_back({"ext", run_ext, gen_ext, 60000, 600000, 100, enum_ext});
  checks.push_back({"sample", run_sample, nullptr, 0, 0, 100, enum_sample});
#else
  checks.push_back({"sweep32", run_sweep32, nullptr, 0, 0, 100, enum_sweep32});
#endif
  return main_(argc, argv, checks);
}
