// c07/model.hh - ModelImage: a per-pixel reference model of phosg::Image's canvas operations.
//
// Geometry is independent of Image.cc: every operation is ONE loop over ALL destination pixels
// with the predicate "the pixel lies in the requested rectangle and its source coordinate lies in
// the source canvas" evaluated in 128-bit arithmetic - no clamping of rectangles anywhere.
// The colour rules (blend formulas with their hard-coded 0xFF, 32-bit colour packing, channel
// replication on widening) are mirrored from the documented/observable behaviour on purpose
// (DESIGN.md section 6 item 4).
#pragma once

#include <stdint.h>
#include <string.h>

#include <functional>
#include <stdexcept>
#include <string>
#include <vector>

#include <phosg/Image.hh>
#include <phosg/ImageTextFont.hh>

namespace c07 {

typedef __int128 i128;

struct RGBA {
  uint64_t r = 0, g = 0, b = 0, a = 0;
  bool operator==(const RGBA& o) const { return r == o.r && g == o.g && b == o.b && a == o.a; }
};

inline uint64_t mask_of(unsigned cw) { return cw >= 64 ? UINT64_MAX : ((1ULL << cw) - 1); }

inline RGBA expand32(uint32_t c) { return RGBA{(c >> 24) & 0xFF, (c >> 16) & 0xFF, (c >> 8) & 0xFF, c & 0xFF}; }
inline uint32_t compress32(const RGBA& p) {
  return static_cast<uint32_t>(((p.r & 0xFF) << 24) | ((p.g & 0xFF) << 16) | ((p.b & 0xFF) << 8) | (p.a & 0xFF));
}

struct Model {
  int64_t w = 0, h = 0;
  bool alpha = false;
  unsigned cw = 8;
  // The image's maximum sample value ("white" / "opaque"). All ones of the channel width for every image made by the sized
  // constructor; an image loaded from a Netpbm file has the file's MAXVAL, one built by a raw-data constructor the value the
  // caller passed. It is what an opaque canvas reports as alpha, what set_has_alpha / set_alpha_from_mask_color fill in, what
  // invert and blend_blit compute with; copies carry it, set_channel_width to another width resets it, operator== compares it.
  uint64_t mv = 0xFF;
  std::vector<uint64_t> v; // 4 slots per pixel; slot 3 is 0 when !alpha

  Model() = default;
  Model(int64_t w_, int64_t h_, bool alpha_, unsigned cw_, uint64_t mv_ = 0) : w(w_), h(h_), alpha(alpha_), cw(cw_), mv(mv_ ? mv_ : mask_of(cw_)), v(static_cast<size_t>(w_ * h_) * 4, 0) {}

  uint64_t maxv() const { return mv; }
  uint64_t mask() const { return mask_of(cw); }
  bool inside(i128 x, i128 y) const { return x >= 0 && y >= 0 && x < w && y < h; }
  // what read_pixel reports: alpha of an opaque canvas reads as the maximum value
  RGBA get(int64_t x, int64_t y) const {
    const uint64_t* p = &v[static_cast<size_t>(y * w + x) * 4];
    return RGBA{p[0], p[1], p[2], alpha ? p[3] : maxv()};
  }
  // what write_pixel stores: values truncated to the channel width, alpha dropped on opaque canvases
  void set(int64_t x, int64_t y, const RGBA& c) {
    uint64_t* p = &v[static_cast<size_t>(y * w + x) * 4];
    uint64_t m = mask();
    p[0] = c.r & m;
    p[1] = c.g & m;
    p[2] = c.b & m;
    p[3] = alpha ? (c.a & m) : 0;
  }
  bool operator==(const Model& o) const { return w == o.w && h == o.h && alpha == o.alpha && cw == o.cw && mv == o.mv && v == o.v; }
};

// ---------------------------------------------------------------- colour rules (mirrored)

// the "0xFF" blend used by fill_rect and blit: all arithmetic in uint64, colour operands cut to 32 bits
inline RGBA blend_ff(const RGBA& src, uint64_t a, const RGBA& dst) {
  RGBA o;
  o.r = (a * static_cast<uint32_t>(src.r) + (0xFF - a) * static_cast<uint32_t>(dst.r)) / 0xFF;
  o.g = (a * static_cast<uint32_t>(src.g) + (0xFF - a) * static_cast<uint32_t>(dst.g)) / 0xFF;
  o.b = (a * static_cast<uint32_t>(src.b) + (0xFF - a) * static_cast<uint32_t>(dst.b)) / 0xFF;
  o.a = (a * static_cast<uint32_t>(a) + (0xFF - a) * static_cast<uint32_t>(dst.a)) / 0xFF;
  return o;
}

// ---------------------------------------------------------------- operations

inline void m_clear(Model& d, const RGBA& c) {
  for (int64_t y = 0; y < d.h; y++) {
    for (int64_t x = 0; x < d.w; x++) d.set(x, y, c);
  }
}

inline void m_fill_rect(Model& d, int64_t x, int64_t y, int64_t w, int64_t h, const RGBA& c) {
  for (int64_t py = 0; py < d.h; py++) {
    for (int64_t px = 0; px < d.w; px++) {
      i128 dx = static_cast<i128>(px) - x, dy = static_cast<i128>(py) - y;
      if (dx < 0 || dy < 0 || dx >= w || dy >= h) continue;
      if (c.a == 0xFF) d.set(px, py, c);
      else d.set(px, py, blend_ff(c, c.a, d.get(px, py)));
    }
  }
}

// Generic blit skeleton. rule(dst_pixel, src_pixel, spx, spy) returns true and updates dst_pixel when the pixel is to be written.
// Returns the number of destination pixels that lie in the clipped area, and whether any canvas edge cut the request.
struct BlitInfo {
  int64_t covered = 0;
  bool cut = false;
  int64_t max_spx = -1, max_spy = -1;
};

template <typename Rule>
inline BlitInfo m_blit_generic(Model& d, const Model& s, int64_t x, int64_t y, int64_t w, int64_t h, int64_t sx, int64_t sy, Rule&& rule, bool dry = false) {
  // documented convention of every blit: a negative width/height stands for the source's
  if (w < 0) w = s.w;
  if (h < 0) h = s.h;
  BlitInfo info;
  // was the requested rectangle cut by an edge of either canvas?
  {
    i128 x0 = x, x1 = static_cast<i128>(x) + w, y0 = y, y1 = static_cast<i128>(y) + h;
    i128 sx0 = sx, sx1 = static_cast<i128>(sx) + w, sy0 = sy, sy1 = static_cast<i128>(sy) + h;
    if (w > 0 && h > 0 && (x0 < 0 || y0 < 0 || x1 > d.w || y1 > d.h || sx0 < 0 || sy0 < 0 || sx1 > s.w || sy1 > s.h)) info.cut = true;
  }
  for (int64_t py = 0; py < d.h; py++) {
    for (int64_t px = 0; px < d.w; px++) {
      i128 dx = static_cast<i128>(px) - x, dy = static_cast<i128>(py) - y;
      if (dx < 0 || dy < 0 || dx >= w || dy >= h) continue;
      i128 spx = static_cast<i128>(sx) + dx, spy = static_cast<i128>(sy) + dy;
      if (!s.inside(spx, spy)) continue;
      info.covered++;
      if (spx > info.max_spx) info.max_spx = spx;
      if (spy > info.max_spy) info.max_spy = spy;
      if (dry) continue;
      RGBA dp = d.get(px, py);
      RGBA sp = s.get(spx, spy);
      if (rule(dp, sp, static_cast<int64_t>(spx), static_cast<int64_t>(spy))) d.set(px, py, dp);
    }
  }
  return info;
}

inline BlitInfo m_blit(Model& d, const Model& s, int64_t x, int64_t y, int64_t w, int64_t h, int64_t sx, int64_t sy) {
  return m_blit_generic(d, s, x, y, w, h, sx, sy, [](RGBA& dp, const RGBA& sp, int64_t, int64_t) {
    if (sp.a == 0) return false;
    if (sp.a != 0xFF) dp = blend_ff(sp, sp.a, dp);
    else dp = sp;
    return true;
  });
}

inline BlitInfo m_mask_blit(Model& d, const Model& s, int64_t x, int64_t y, int64_t w, int64_t h, int64_t sx, int64_t sy, const RGBA& key) {
  return m_blit_generic(d, s, x, y, w, h, sx, sy, [&](RGBA& dp, const RGBA& sp, int64_t, int64_t) {
    if (sp.r == key.r && sp.g == key.g && sp.b == key.b) return false;
    dp = sp;
    return true;
  });
}

inline BlitInfo m_mask_blit_dst(Model& d, const Model& s, int64_t x, int64_t y, int64_t w, int64_t h, int64_t sx, int64_t sy, const RGBA& key) {
  return m_blit_generic(d, s, x, y, w, h, sx, sy, [&](RGBA& dp, const RGBA& sp, int64_t, int64_t) {
    if (!(dp.r == key.r && dp.g == key.g && dp.b == key.b)) return false;
    dp = sp;
    return true;
  });
}

// mask image in source space; white (0xFF,0xFF,0xFF) mask pixels are transparent. The caller has
// established that the mask covers every source coordinate that is touched.
inline BlitInfo m_mask_blit_img(Model& d, const Model& s, int64_t x, int64_t y, int64_t w, int64_t h, int64_t sx, int64_t sy, const Model& mask) {
  return m_blit_generic(d, s, x, y, w, h, sx, sy, [&](RGBA& dp, const RGBA& sp, int64_t spx, int64_t spy) {
    RGBA mp = mask.get(spx, spy);
    if (mp.r == 0xFF && mp.g == 0xFF && mp.b == 0xFF) return false;
    dp = sp;
    return true;
  });
}

inline BlitInfo m_blend_blit(Model& d, const Model& s, int64_t x, int64_t y, int64_t w, int64_t h, int64_t sx, int64_t sy) {
  uint64_t M = d.maxv();
  return m_blit_generic(d, s, x, y, w, h, sx, sy, [M](RGBA& dp, const RGBA& sp, int64_t, int64_t) {
    if (sp.a == M) {
      dp = sp;
      return true;
    }
    if (sp.a == 0) return false;
    RGBA o;
    o.r = (sp.r * sp.a + dp.r * (M - sp.a)) / M;
    o.g = (sp.g * sp.a + dp.g * (M - sp.a)) / M;
    o.b = (sp.b * sp.a + dp.b * (M - sp.a)) / M;
    o.a = (sp.a * sp.a + dp.a * (M - sp.a)) / M;
    dp = o;
    return true;
  });
}

inline BlitInfo m_blend_blit_alpha(Model& d, const Model& s, int64_t x, int64_t y, int64_t w, int64_t h, int64_t sx, int64_t sy, uint64_t source_alpha) {
  uint64_t M = d.maxv();
  return m_blit_generic(d, s, x, y, w, h, sx, sy, [M, source_alpha](RGBA& dp, const RGBA& sp, int64_t, int64_t) {
    uint64_t ea = (source_alpha * sp.a) / M;
    if (ea == M) {
      dp = RGBA{sp.r, sp.g, sp.b, ea};
      return true;
    }
    if (ea == 0) return false;
    RGBA o;
    o.r = (sp.r * ea + dp.r * (M - ea)) / M;
    o.g = (sp.g * ea + dp.g * (M - ea)) / M;
    o.b = (sp.b * ea + dp.b * (M - ea)) / M;
    o.a = dp.a;
    dp = o;
    return true;
  });
}

// the two per-pixel callbacks used for custom_blit (also handed to phosg)
inline void custom_fn32(uint32_t& dc, uint32_t sc) { dc = (dc ^ (sc * 2654435761u)) + 0x01020304u; }
inline void custom_fn64(uint64_t& dr, uint64_t& dg, uint64_t& db, uint64_t& da, uint64_t sr, uint64_t sg, uint64_t sb, uint64_t sa) {
  dr = dr + 3 * sr + 1;
  dg = dg ^ sg;
  db = sb - db;
  da = (da >> 1) + sa;
}

inline BlitInfo m_custom_blit32(Model& d, const Model& s, int64_t x, int64_t y, int64_t w, int64_t h, int64_t sx, int64_t sy) {
  return m_blit_generic(d, s, x, y, w, h, sx, sy, [](RGBA& dp, const RGBA& sp, int64_t, int64_t) {
    uint32_t sc = compress32(sp), dc = compress32(dp);
    custom_fn32(dc, sc);
    dp = expand32(dc);
    return true;
  });
}

inline BlitInfo m_custom_blit64(Model& d, const Model& s, int64_t x, int64_t y, int64_t w, int64_t h, int64_t sx, int64_t sy) {
  return m_blit_generic(d, s, x, y, w, h, sx, sy, [](RGBA& dp, const RGBA& sp, int64_t, int64_t) {
    custom_fn64(dp.r, dp.g, dp.b, dp.a, sp.r, sp.g, sp.b, sp.a);
    return true;
  });
}

inline void m_reverse_horizontal(Model& d) {
  Model o = d;
  for (int64_t y = 0; y < d.h; y++) {
    for (int64_t x = 0; x < d.w; x++) d.set(x, y, o.get(d.w - 1 - x, y));
  }
}
inline void m_reverse_vertical(Model& d) {
  Model o = d;
  for (int64_t y = 0; y < d.h; y++) {
    for (int64_t x = 0; x < d.w; x++) d.set(x, y, o.get(x, d.h - 1 - y));
  }
}
inline void m_invert(Model& d) {
  uint64_t M = d.maxv();
  for (int64_t y = 0; y < d.h; y++) {
    for (int64_t x = 0; x < d.w; x++) {
      RGBA p = d.get(x, y);
      d.set(x, y, RGBA{M - p.r, M - p.g, M - p.b, M - p.a});
    }
  }
}
inline void m_set_has_alpha(Model& d, bool a) {
  if (d.alpha == a) return;
  d.alpha = a;
  for (size_t i = 0; i < d.v.size(); i += 4) d.v[i + 3] = a ? (d.maxv() & d.mask()) : 0;
}
// widening replicates the value into the new low bits, narrowing keeps the high bits
inline void m_set_channel_width(Model& d, unsigned nw) {
  if (nw == d.cw) return;
  for (size_t i = 0; i < d.v.size(); i++) {
    if (!d.alpha && (i & 3) == 3) continue;
    uint64_t val = d.v[i];
    if (nw > d.cw) {
      uint64_t o = 0;
      for (unsigned sh = 0; sh < nw; sh += d.cw) o |= val << sh;
      d.v[i] = o;
    } else {
      d.v[i] = val >> (d.cw - nw);
    }
  }
  d.cw = nw;
  d.mv = mask_of(nw); // a change of width makes the full range of the new width the sample range
}
inline void m_set_alpha_from_mask_color(Model& d, const RGBA& key) {
  for (int64_t y = 0; y < d.h; y++) {
    for (int64_t x = 0; x < d.w; x++) {
      RGBA p = d.get(x, y);
      p.a = (p.r == key.r && p.g == key.g && p.b == key.b) ? 0 : d.maxv();
      d.set(x, y, p);
    }
  }
}

// text: 5x7 glyphs on a 6x8 grid, background box 6x9 one pixel up/left of the glyph, a one-pixel
// closing column after the last glyph of a line; bytes outside 0x20..0x7F draw the 0x7F glyph.
inline void m_draw_text(Model& d, int64_t x, int64_t y, const RGBA& fg, const RGBA& bg, const std::string& text) {
  int64_t xp = x, yp = y;
  for (unsigned char ch : text) {
    if (ch == '\r') continue;
    if (ch == '\n') {
      if (bg.a) m_fill_rect(d, xp - 1, yp - 1, 1, 9, bg);
      yp += 8;
      xp = x;
      continue;
    }
    if (ch < 0x20 || ch > 0x7F) ch = 0x7F;
    if (bg.a) m_fill_rect(d, xp - 1, yp - 1, 6, 9, bg);
    for (int64_t py = 0; py < d.h; py++) {
      for (int64_t px = 0; px < d.w; px++) {
        i128 gx = static_cast<i128>(px) - xp, gy = static_cast<i128>(py) - yp;
        if (gx < 0 || gy < 0 || gx >= 5 || gy >= 7) continue;
        if (phosg::font[ch - 0x20][static_cast<int>(gy) * 5 + static_cast<int>(gx)]) d.set(px, py, fg);
      }
    }
    xp += 6;
  }
  m_fill_rect(d, xp - 1, yp - 1, 1, 9, bg);
}

} // namespace c07
