// c07/ops.hh - pairing of a real phosg::Image with its ModelImage, content generation,
// full-buffer comparison, and the operation interpreter shared by all C07 subchecks.
#pragma once

#include <fcntl.h>
#include <math.h>
#include <stdio.h>
#include <sys/mman.h>
#include <unistd.h>

#include <set>

#include "c07/model.hh"
#include "verif.hh"

namespace c07 {

using verif::cat;

struct Rng {
  uint64_t s;
  explicit Rng(uint64_t seed) : s(seed * 0x9E3779B97F4A7C15ULL + 0x7F4A7C159E3779B9ULL) {
    if (!s) s = 1;
  }
  uint64_t next() {
    s ^= s << 13;
    s ^= s >> 7;
    s ^= s << 17;
    return s * 0x2545F4914F6CDD1DULL;
  }
};

// ---------------------------------------------------------------- images with a chosen maximum sample value
// Every way Image.hh offers to obtain an image whose max_value is not the all-ones value of its channel width:
//   route 0..2  the raw-data constructors Image(FILE* / const char* / const std::string&, w, h, has_alpha, channel_width, max_value)
//   route 3     loading a Netpbm file whose MAXVAL is that value (P6 for opaque, P7 RGB_ALPHA for alpha canvases); only possible when
//               the MAXVAL selects the wanted channel width and the canvas is not empty - otherwise route 0 is used
// The pixel data is all zero in every case (the raw-data constructors read from /dev/zero); content is written afterwards.
// max_value 0 or the all-ones value: the ordinary sized constructor.
inline unsigned cw_of_maxval(uint64_t mv) { return mv > 0xFFFFFFFFULL ? 64 : mv > 0xFFFF ? 32 : mv > 0xFF ? 16 : 8; }

inline phosg::Image make_image(int64_t w, int64_t h, bool alpha, unsigned cw, uint64_t mv = 0, unsigned route = 0) {
  if (mv == 0 || mv == mask_of(cw)) return phosg::Image(w, h, alpha, cw);
  if (mv > mask_of(cw)) throw std::logic_error("make_image: maximum value beyond the channel width is outside the domain");
  route &= 3;
  if (route == 3 && w > 0 && h > 0 && cw_of_maxval(mv) == cw) {
    static int fd = memfd_create("c07-pnm", 0);
    if (fd < 0) throw std::logic_error("memfd_create failed");
    std::string hdr = alpha ? cat("P7\nWIDTH ", w, "\nHEIGHT ", h, "\nDEPTH 4\nMAXVAL ", mv, "\nTUPLTYPE RGB_ALPHA\nENDHDR\n") : cat("P6 ", w, " ", h, " ", mv, "\n");
    size_t total = hdr.size() + static_cast<size_t>(w * h) * (alpha ? 4 : 3) * (cw / 8);
    if (ftruncate(fd, 0) != 0 || ftruncate(fd, total) != 0) throw std::logic_error("ftruncate failed"); // the raster reads as zeros
    if (pwrite(fd, hdr.data(), hdr.size(), 0) != static_cast<ssize_t>(hdr.size())) throw std::logic_error("pwrite failed");
    int d = dup(fd);
    lseek(d, 0, SEEK_SET);
    FILE* f = fdopen(d, "rb");
    if (!f) throw std::logic_error("fdopen failed");
    try {
      phosg::Image img(f);
      fclose(f);
      return img;
    } catch (...) {
      fclose(f);
      throw;
    }
  }
  if (route == 1) return phosg::Image("/dev/zero", w, h, alpha, cw, mv);
  if (route == 2) return phosg::Image(std::string("/dev/zero"), w, h, alpha, cw, mv);
  FILE* f = fopen("/dev/zero", "rb");
  if (!f) throw std::logic_error("cannot open /dev/zero");
  try {
    phosg::Image img(f, w, h, alpha, cw, mv);
    fclose(f);
    return img;
  } catch (...) {
    fclose(f);
    throw;
  }
}

// some maximum values that are not the all-ones value, per channel width
inline uint64_t alt_maxval(unsigned cw, unsigned k) {
  static const uint64_t t8[4] = {100, 1, 254, 127}, t16[4] = {1000, 0xFF, 0xFFFE, 300}, t32[4] = {70000, 0xFFFF, 0xFFFFFFFEULL, 0xFF},
                        t64[4] = {(1ULL << 40) + 5, 0xFFFFFFFFULL, UINT64_MAX - 1, 0xFF};
  const uint64_t* t = cw == 8 ? t8 : cw == 16 ? t16 : cw == 32 ? t32 : t64;
  return t[k % 4];
}

struct Canvas {
  phosg::Image img;
  Model m;
  Canvas() = default;
  Canvas(int64_t w, int64_t h, bool alpha, unsigned cw, uint64_t mv = 0, unsigned route = 0) : img(make_image(w, h, alpha, cw, mv, route)), m(w, h, alpha, cw, mv) {}
};

// raw buffer -> 4 slots per pixel (independent of read_pixel)
inline std::vector<uint64_t> raw_pixels(const phosg::Image& img) {
  size_t w = img.get_width(), h = img.get_height();
  bool alpha = img.get_has_alpha();
  size_t bw = img.get_channel_width() / 8;
  size_t nc = alpha ? 4 : 3;
  std::vector<uint64_t> v(w * h * 4, 0);
  const uint8_t* d = static_cast<const uint8_t*>(img.get_data());
  for (size_t i = 0; i < w * h; i++) {
    for (size_t c = 0; c < nc; c++) {
      uint64_t x = 0;
      memcpy(&x, d + (i * nc + c) * bw, bw);
      v[i * 4 + c] = x;
    }
  }
  return v;
}

// named colours that the generators use for keys so that equality branches are hit
inline RGBA named_colour(unsigned k, uint64_t M) {
  switch (k % 6) {
    case 0: return RGBA{0, 0, 0, 0};
    case 1: return RGBA{0xFF, 0xFF, 0xFF, 0xFF};
    case 2: return RGBA{M, M, M, M};
    case 3: return RGBA{1, 2, 3, 0x80};
    case 4: return RGBA{0xFF, 0, 0x80, 0};
    default: return RGBA{0x12, 0x34, 0x56, M};
  }
}

// pseudo-random content rich in the special values the colour rules branch on; written through the
// raw buffer, not through write_pixel
inline void fill_content(Canvas& c, uint64_t seed) {
  Rng r(seed);
  uint64_t M = c.m.mask();
  uint64_t V = c.m.maxv(); // == M unless the canvas has a maximum value of its own: then the special values are that one
  size_t nc = c.m.alpha ? 4 : 3;
  size_t bw = c.m.cw / 8;
  uint8_t* d = static_cast<uint8_t*>(c.img.get_data());
  for (int64_t i = 0; i < c.m.w * c.m.h; i++) {
    uint64_t k = r.next();
    RGBA p;
    if ((k & 3) == 0) {
      p = named_colour((k >> 2) % 6, V);
    } else {
      p.r = r.next();
      p.g = r.next();
      p.b = r.next();
    }
    switch ((k >> 8) % 6) {
      case 0: p.a = 0; break;
      case 1: p.a = 0xFF; break;
      case 2: p.a = V; break;
      case 3: p.a = 0x80; break;
      default: p.a = r.next();
    }
    uint64_t vals[4] = {p.r & M, p.g & M, p.b & M, p.a & M};
    for (size_t ch = 0; ch < nc; ch++) {
      memcpy(d + (i * nc + ch) * bw, &vals[ch], bw);
      c.m.v[i * 4 + ch] = vals[ch];
    }
    if (!c.m.alpha) c.m.v[i * 4 + 3] = 0;
  }
}

inline std::string describe(const Model& m) {
  if (m.mv != m.mask()) return cat(m.w, "x", m.h, m.alpha ? " alpha" : " opaque", " cw=", m.cw, " max=", m.mv);
  return cat(m.w, "x", m.h, m.alpha ? " alpha" : " opaque", " cw=", m.cw);
}

// empty string when the real image equals the model
inline std::string diff(const phosg::Image& img, const Model& m) {
  if (static_cast<int64_t>(img.get_width()) != m.w || static_cast<int64_t>(img.get_height()) != m.h || img.get_has_alpha() != m.alpha || img.get_channel_width() != m.cw) {
    return cat("header is ", img.get_width(), "x", img.get_height(), " alpha=", img.get_has_alpha(), " cw=", (int)img.get_channel_width(), ", model says ", describe(m));
  }
  size_t want = static_cast<size_t>(m.w * m.h) * (m.alpha ? 4 : 3) * (m.cw / 8);
  if (img.get_data_size() != want) return cat("get_data_size() is ", img.get_data_size(), ", expected ", want);
  std::vector<uint64_t> v = raw_pixels(img);
  for (size_t i = 0; i < v.size(); i++) {
    if (v[i] != m.v[i]) {
      size_t px = i / 4;
      return cat("pixel (", px % m.w, ",", px / m.w, ") channel ", i % 4, " is 0x", std::hex, v[i], ", model says 0x", m.v[i], std::dec, " on ", describe(m));
    }
  }
  return "";
}

// The image's max_value has no accessor; it is observed the two ways the API shows it: an opaque canvas reports it as the alpha of
// every pixel, and operator== compares it - so the image must equal a reference built with the model's geometry and maximum value
// and the image's own bytes. Empty string when the image agrees with the model.
inline std::string max_value_diff(const phosg::Image& img, const Model& m) {
  if (!m.alpha && m.w > 0 && m.h > 0) {
    uint64_t a = ~m.mv;
    img.read_pixel(0, 0, nullptr, nullptr, nullptr, &a);
    if (a != m.mv) return cat("read_pixel reports alpha ", a, " on an opaque canvas whose maximum value is ", m.mv, " (", describe(m), ")");
    if (m.mv == m.mask()) return "";
  }
  phosg::Image ref = make_image(m.w, m.h, m.alpha, m.cw, m.mv, 0);
  if (ref.get_data_size() != img.get_data_size()) return "reference image has another data size";
  if (img.get_data_size()) memcpy(ref.get_data(), img.get_data(), img.get_data_size());
  bool eq = (img == ref) && !(img != ref) && (ref == img);
  if (!eq) return cat("operator== says the image differs from an image constructed with the same geometry, bytes and maximum value ", m.mv, " (", describe(m), ")");
  return "";
}

// ---------------------------------------------------------------- operation interpreter

enum Op {
  OP_WRITE64 = 0,
  OP_WRITE32,
  OP_READ,
  OP_CLEAR64,
  OP_CLEAR32,
  OP_FILL64,
  OP_FILL32,
  OP_BLIT,
  OP_MASK_BLIT64,
  OP_MASK_BLIT32,
  OP_MASK_DST64,
  OP_MASK_DST32,
  OP_MASK_IMG,
  OP_BLEND,
  OP_BLEND_ALPHA,
  OP_CUSTOM32,
  OP_CUSTOM64,
  OP_LINE64,
  OP_LINE32,
  OP_HLINE,
  OP_VLINE,
  OP_TEXT,
  OP_REV_H,
  OP_REV_V,
  OP_INVERT,
  OP_SET_ALPHA,
  OP_SET_CW,
  OP_ALPHA_FROM_MASK64,
  OP_ALPHA_FROM_MASK32,
  OP_COPY_ASSIGN,
  OP_COPY_CONSTRUCT,
  OP_MOVE_ASSIGN,
  OP_RESIZE_BLIT,
  OP_EQUALS,
  OP_COUNT
};

inline const char* op_name(int op) {
  static const char* n[] = {"write_pixel", "write_pixel32", "read_pixel", "clear", "clear32", "fill_rect", "fill_rect32", "blit", "mask_blit", "mask_blit32",
      "mask_blit_dst", "mask_blit_dst32", "mask_blit(mask)", "blend_blit", "blend_blit(alpha)", "custom_blit32", "custom_blit64", "draw_line", "draw_line32",
      "draw_horizontal_line", "draw_vertical_line", "draw_text", "reverse_horizontal", "reverse_vertical", "invert", "set_has_alpha", "set_channel_width",
      "set_alpha_from_mask_color", "set_alpha_from_mask_color32", "copy-assign", "copy-construct", "move-assign", "resize_blit", "operator=="};
  return (op >= 0 && op < OP_COUNT) ? n[op] : "?";
}

constexpr int kOpArgs = 12; // numbers per encoded operation after the opcode and the target index

struct OpResult {
  bool nontrivial = false; // the requested rectangle was cut by a canvas edge / coordinates outside
  std::string excluded; // non-empty: the operation was outside the property's domain and was skipped
};

enum Exc { EXC_NONE = 0, EXC_OUT_OF_RANGE, EXC_RUNTIME, EXC_INVALID_ARG, EXC_OTHER };
inline const char* exc_name(int e) {
  static const char* n[] = {"no exception", "out_of_range", "runtime_error", "invalid_argument", "another std::exception"};
  return n[e];
}

template <typename F>
inline int run_catching(F&& f, std::string* what = nullptr) {
  try {
    f();
    return EXC_NONE;
  } catch (const std::out_of_range& e) {
    if (what) *what = e.what();
    return EXC_OUT_OF_RANGE;
  } catch (const std::invalid_argument& e) {
    if (what) *what = e.what();
    return EXC_INVALID_ARG;
  } catch (const std::runtime_error& e) {
    if (what) *what = e.what();
    return EXC_RUNTIME;
  } catch (const std::exception& e) {
    if (what) *what = e.what();
    return EXC_OTHER;
  }
}

// Draw on a scratch canvas of the same geometry pre-filled with the complement of the colour; returns the set of marked pixels.
// Every marked pixel must carry exactly the (truncated) colour.
template <typename Draw>
inline std::set<std::pair<int64_t, int64_t>> marked_pixels(const Model& like, const RGBA& colour, Draw&& draw, const char* opname) {
  Canvas s(like.w, like.h, like.alpha, like.cw);
  uint64_t M = like.mask();
  RGBA bg{~colour.r & M, ~colour.g & M, ~colour.b & M, ~colour.a & M};
  m_clear(s.m, bg);
  s.img.clear(bg.r, bg.g, bg.b, bg.a);
  int e = run_catching([&] { draw(s.img); });
  VCHECK(e == EXC_NONE, cat("throws:", opname), opname, " threw ", exc_name(e), " on ", describe(like));
  std::vector<uint64_t> v = raw_pixels(s.img);
  std::set<std::pair<int64_t, int64_t>> out;
  Model want = s.m;
  for (int64_t y = 0; y < like.h; y++) {
    for (int64_t x = 0; x < like.w; x++) {
      size_t i = static_cast<size_t>(y * like.w + x) * 4;
      bool changed = false;
      for (int c = 0; c < 4; c++) changed |= (v[i + c] != s.m.v[i + c]);
      if (!changed) continue;
      want.set(x, y, colour);
      for (int c = 0; c < 4; c++) {
        VCHECK(v[i + c] == want.v[i + c], cat("colour:", opname), opname, " marked pixel (", x, ",", y, ") with channel ", c, " = ", v[i + c], " instead of ", want.v[i + c]);
      }
      out.insert({x, y});
    }
  }
  return out;
}

// line oracle: see DESIGN.md C07 (O)
inline void check_line_set(const Model& like, const std::set<std::pair<int64_t, int64_t>>& S, int64_t x0, int64_t y0, int64_t x1, int64_t y1, const char* opname) {
  i128 dx = static_cast<i128>(x1) - x0, dy = static_cast<i128>(y1) - y0;
  i128 adx = dx < 0 ? -dx : dx, ady = dy < 0 ? -dy : dy;
  bool steep = ady > adx;
  // major axis coordinates
  int64_t a0 = steep ? y0 : x0, a1 = steep ? y1 : x1, b0 = steep ? x0 : y0, b1 = steep ? x1 : y1;
  int64_t lo = a0 < a1 ? a0 : a1, hi = a0 < a1 ? a1 : a0;
  std::string where = cat(opname, "(", x0, ",", y0, " -> ", x1, ",", y1, ") on ", describe(like));
  for (const auto& p : S) {
    int64_t a = steep ? p.second : p.first, b = steep ? p.first : p.second;
    VCHECK(a >= lo && a <= hi, "line:off-segment", where, " marked (", p.first, ",", p.second, ") beyond the end points");
    long double ideal = (a1 == a0) ? static_cast<long double>(b0)
                                   : static_cast<long double>(b0) + (static_cast<long double>(b1) - b0) * (static_cast<long double>(a) - a0) / (static_cast<long double>(a1) - a0);
    long double dev = fabsl(static_cast<long double>(b) - ideal);
    VCHECK(dev <= 0.5L + 1e-9L, "line:off-segment", where, " marked (", p.first, ",", p.second, ") which is ", static_cast<double>(dev), " away from the ideal segment");
  }
  bool in0 = like.inside(x0, y0), in1 = like.inside(x1, y1);
  if (in0 && in1) {
    int64_t n = static_cast<int64_t>(adx > ady ? adx : ady) + 1;
    VCHECK(static_cast<int64_t>(S.size()) == n, "line:pixel-count", where, " marked ", S.size(), " pixels, expected max(|dx|,|dy|)+1 = ", n);
    VCHECK(S.count({x0, y0}) && S.count({x1, y1}), "line:end-points", where, " does not contain both end points");
    // exactly one pixel per major step and consecutive ones touch
    std::vector<int64_t> minor(n, INT64_MIN);
    for (const auto& p : S) {
      int64_t a = steep ? p.second : p.first, b = steep ? p.first : p.second;
      VCHECK(minor[a - lo] == INT64_MIN, "line:two-per-step", where, " marked two pixels in the same major-axis step");
      minor[a - lo] = b;
    }
    for (int64_t k = 1; k < n; k++) {
      int64_t d = minor[k] - minor[k - 1];
      VCHECK(d >= -1 && d <= 1, "line:not-connected", where, " is not 8-connected between major steps ", k - 1, " and ", k);
    }
  }
}

} // namespace c07
