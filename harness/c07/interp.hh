// c07/interp.hh - executes one encoded canvas operation on the real image and on the model and
// compares them. Encoding: a[0..kOpArgs-1] as documented next to each case below.
#pragma once

#include "c07/ops.hh"

namespace c07 {

inline RGBA rgba_args(const int64_t* a) {
  return RGBA{static_cast<uint64_t>(a[0]), static_cast<uint64_t>(a[1]), static_cast<uint64_t>(a[2]), static_cast<uint64_t>(a[3])};
}

// a non-empty requested rectangle that extends beyond the canvas
inline bool rect_cut(const Model& d, int64_t x, int64_t y, int64_t w, int64_t h) {
  if (w <= 0 || h <= 0) return false;
  i128 x1 = static_cast<i128>(x) + w, y1 = static_cast<i128>(y) + h;
  return x < 0 || y < 0 || x1 > d.w || y1 > d.h;
}

// dashed axis-aligned line: the "on" positions of the pattern (mirrors the documented (pos / dash) & 1 rule)
inline bool dash_on(int64_t pos, int64_t dash) { return dash == 0 || ((pos / dash) & 1) == 0; }

// Applies the operation to T (and reads O as the source). `strings` are the text blobs of the case.
inline OpResult apply_op(int op, Canvas& T, Canvas& O, const int64_t* a, const std::vector<std::string>& strings) {
  OpResult res;
  const char* name = op_name(op);
  std::string ewhat;
  auto expect_exc = [&](int got, int want) {
    VCHECK(got == want, cat("exception:", name), name, " on ", describe(T.m), " raised ", exc_name(got), " (", ewhat, "), expected ", exc_name(want));
  };
  int64_t x = a[0], y = a[1], w = a[2], h = a[3], sx = a[4], sy = a[5];

  switch (op) {
    case OP_WRITE64: { // x,y,r,g,b,a
      RGBA c = rgba_args(a + 2);
      int e = run_catching([&] { T.img.write_pixel(x, y, c.r, c.g, c.b, c.a); }, &ewhat);
      bool in = T.m.inside(x, y);
      expect_exc(e, in ? EXC_NONE : EXC_OUT_OF_RANGE);
      if (in) T.m.set(x, y, c);
      res.nontrivial = !in;
      break;
    }
    case OP_WRITE32: { // x,y,c32
      uint32_t c = static_cast<uint32_t>(a[2]);
      int e = run_catching([&] { T.img.write_pixel(x, y, c); }, &ewhat);
      bool in = T.m.inside(x, y);
      expect_exc(e, in ? EXC_NONE : EXC_OUT_OF_RANGE);
      if (in) T.m.set(x, y, expand32(c));
      res.nontrivial = !in;
      break;
    }
    case OP_READ: { // x,y
      bool in = T.m.inside(x, y);
      uint64_t r = 1, g = 2, b = 3, al = 4;
      int e = run_catching([&] { T.img.read_pixel(x, y, &r, &g, &b, &al); }, &ewhat);
      expect_exc(e, in ? EXC_NONE : EXC_OUT_OF_RANGE);
      uint32_t c32 = 0;
      e = run_catching([&] { c32 = T.img.read_pixel(x, y); }, &ewhat);
      expect_exc(e, in ? EXC_NONE : EXC_OUT_OF_RANGE);
      e = run_catching([&] { T.img.read_pixel(x, y, nullptr, nullptr, nullptr, nullptr); }, &ewhat);
      expect_exc(e, in ? EXC_NONE : EXC_OUT_OF_RANGE);
      if (in) {
        RGBA p = T.m.get(x, y);
        VCHECK((RGBA{r, g, b, al} == p), "read_pixel:value", "read_pixel(", x, ",", y, ") on ", describe(T.m), " returned (", r, ",", g, ",", b, ",", al, "), model (", p.r, ",", p.g, ",", p.b, ",", p.a, ")");
        VCHECK(c32 == compress32(p), "read_pixel:value32", "read_pixel(", x, ",", y, ") 32-bit form returned ", c32, ", model ", compress32(p));
        uint64_t r2 = 9, b2 = 9;
        T.img.read_pixel(x, y, &r2, nullptr, &b2);
        VCHECK(r2 == p.r && b2 == p.b, "read_pixel:partial", "read_pixel with null g/a pointers returned wrong r/b");
      }
      res.nontrivial = !in;
      break;
    }
    case OP_CLEAR64: { // r,g,b,a
      RGBA c = rgba_args(a);
      expect_exc(run_catching([&] { T.img.clear(c.r, c.g, c.b, c.a); }, &ewhat), EXC_NONE);
      m_clear(T.m, c);
      break;
    }
    case OP_CLEAR32: {
      uint32_t c = static_cast<uint32_t>(a[0]);
      expect_exc(run_catching([&] { T.img.clear(c); }, &ewhat), EXC_NONE);
      m_clear(T.m, expand32(c));
      break;
    }
    case OP_FILL64: { // x,y,w,h,r,g,b,a
      RGBA c = rgba_args(a + 4);
      expect_exc(run_catching([&] { T.img.fill_rect(x, y, w, h, c.r, c.g, c.b, c.a); }, &ewhat), EXC_NONE);
      m_fill_rect(T.m, x, y, w, h, c);
      res.nontrivial = rect_cut(T.m, x, y, w, h);
      break;
    }
    case OP_FILL32: { // x,y,w,h,c32
      uint32_t c = static_cast<uint32_t>(a[4]);
      expect_exc(run_catching([&] { T.img.fill_rect(x, y, w, h, c); }, &ewhat), EXC_NONE);
      m_fill_rect(T.m, x, y, w, h, expand32(c));
      res.nontrivial = rect_cut(T.m, x, y, w, h);
      break;
    }
    case OP_BLIT: {
      expect_exc(run_catching([&] { T.img.blit(O.img, x, y, w, h, sx, sy); }, &ewhat), EXC_NONE);
      res.nontrivial = m_blit(T.m, O.m, x, y, w, h, sx, sy).cut;
      break;
    }
    case OP_MASK_BLIT64: { // ...,r,g,b
      RGBA k{static_cast<uint64_t>(a[6]), static_cast<uint64_t>(a[7]), static_cast<uint64_t>(a[8]), 0};
      expect_exc(run_catching([&] { T.img.mask_blit(O.img, x, y, w, h, sx, sy, k.r, k.g, k.b); }, &ewhat), EXC_NONE);
      res.nontrivial = m_mask_blit(T.m, O.m, x, y, w, h, sx, sy, k).cut;
      break;
    }
    case OP_MASK_BLIT32: {
      uint32_t c = static_cast<uint32_t>(a[6]);
      expect_exc(run_catching([&] { T.img.mask_blit(O.img, x, y, w, h, sx, sy, c); }, &ewhat), EXC_NONE);
      res.nontrivial = m_mask_blit(T.m, O.m, x, y, w, h, sx, sy, expand32(c)).cut;
      break;
    }
    case OP_MASK_DST64: {
      RGBA k{static_cast<uint64_t>(a[6]), static_cast<uint64_t>(a[7]), static_cast<uint64_t>(a[8]), 0};
      expect_exc(run_catching([&] { T.img.mask_blit_dst(O.img, x, y, w, h, sx, sy, k.r, k.g, k.b); }, &ewhat), EXC_NONE);
      res.nontrivial = m_mask_blit_dst(T.m, O.m, x, y, w, h, sx, sy, k).cut;
      break;
    }
    case OP_MASK_DST32: {
      uint32_t c = static_cast<uint32_t>(a[6]);
      expect_exc(run_catching([&] { T.img.mask_blit_dst(O.img, x, y, w, h, sx, sy, c); }, &ewhat), EXC_NONE);
      res.nontrivial = m_mask_blit_dst(T.m, O.m, x, y, w, h, sx, sy, expand32(c)).cut;
      break;
    }
    case OP_MASK_IMG: { // ...,mw,mh,mseed
      int64_t mw = a[6], mh = a[7];
      if (mw < 0 || mh < 0 || mw > 64 || mh > 64) throw std::logic_error("mask dimensions outside the generator's domain");
      Canvas mask(mw, mh, (a[8] >> 1) & 1, 8);
      {
        // half of the mask pixels white (= transparent)
        Rng r(a[8]);
        for (int64_t my = 0; my < mh; my++) {
          for (int64_t mx = 0; mx < mw; mx++) {
            uint64_t k = r.next();
            RGBA p = (k & 1) ? RGBA{0xFF, 0xFF, 0xFF, k >> 8} : RGBA{(k >> 8) & 0xFF, (k >> 16) & 0xFF, (k >> 24) & 0xFF, k >> 32};
            mask.m.set(mx, my, p);
            mask.img.write_pixel(mx, my, p.r, p.g, p.b, p.a);
          }
        }
      }
      int64_t ew = w < 0 ? O.m.w : w, eh = h < 0 ? O.m.h : h;
      if (mw < ew || mh < eh) {
        // documented: a mask smaller than the copied area is refused
        Model before = T.m;
        expect_exc(run_catching([&] { T.img.mask_blit(O.img, x, y, w, h, sx, sy, mask.img); }, &ewhat), EXC_RUNTIME);
        T.m = before;
        res.nontrivial = true;
        break;
      }
      Model probe = T.m;
      BlitInfo bi = m_blit_generic(probe, O.m, x, y, w, h, sx, sy, [](RGBA&, const RGBA&, int64_t, int64_t) { return false; }, true);
      if (bi.max_spx >= mw || bi.max_spy >= mh) {
        res.excluded = "mask_blit(mask): mask covers (w,h) but not the blitted area in source space (caller broke the documented precondition)";
        break;
      }
      expect_exc(run_catching([&] { T.img.mask_blit(O.img, x, y, w, h, sx, sy, mask.img); }, &ewhat), EXC_NONE);
      res.nontrivial = m_mask_blit_img(T.m, O.m, x, y, w, h, sx, sy, mask.m).cut;
      break;
    }
    case OP_BLEND: {
      expect_exc(run_catching([&] { T.img.blend_blit(O.img, x, y, w, h, sx, sy); }, &ewhat), EXC_NONE);
      res.nontrivial = m_blend_blit(T.m, O.m, x, y, w, h, sx, sy).cut;
      break;
    }
    case OP_BLEND_ALPHA: { // ...,source_alpha
      uint64_t sa = static_cast<uint64_t>(a[6]);
      expect_exc(run_catching([&] { T.img.blend_blit(O.img, x, y, w, h, sx, sy, sa); }, &ewhat), EXC_NONE);
      res.nontrivial = m_blend_blit_alpha(T.m, O.m, x, y, w, h, sx, sy, sa).cut;
      break;
    }
    case OP_CUSTOM32: {
      expect_exc(run_catching([&] { T.img.custom_blit(O.img, x, y, w, h, sx, sy, std::function<void(uint32_t&, uint32_t)>(custom_fn32)); }, &ewhat), EXC_NONE);
      res.nontrivial = m_custom_blit32(T.m, O.m, x, y, w, h, sx, sy).cut;
      break;
    }
    case OP_CUSTOM64: {
      expect_exc(run_catching([&] {
        T.img.custom_blit(O.img, x, y, w, h, sx, sy, std::function<void(uint64_t&, uint64_t&, uint64_t&, uint64_t&, uint64_t, uint64_t, uint64_t, uint64_t)>(custom_fn64));
      }, &ewhat), EXC_NONE);
      res.nontrivial = m_custom_blit64(T.m, O.m, x, y, w, h, sx, sy).cut;
      break;
    }
    case OP_LINE64:
    case OP_LINE32: { // x0,y0,x1,y1, r,g,b,a | c32
      int64_t x0 = a[0], y0 = a[1], x1 = a[2], y1 = a[3];
      RGBA c = op == OP_LINE64 ? rgba_args(a + 4) : expand32(static_cast<uint32_t>(a[4]));
      uint32_t c32 = static_cast<uint32_t>(a[4]);
      auto draw = [&](phosg::Image& im) {
        if (op == OP_LINE64) im.draw_line(x0, y0, x1, y1, c.r, c.g, c.b, c.a);
        else im.draw_line(x0, y0, x1, y1, c32);
      };
      auto S = marked_pixels(T.m, c, draw, name);
      check_line_set(T.m, S, x0, y0, x1, y1, name);
      expect_exc(run_catching([&] { draw(T.img); }, &ewhat), EXC_NONE);
      for (const auto& p : S) T.m.set(p.first, p.second, c);
      res.nontrivial = !T.m.inside(x0, y0) || !T.m.inside(x1, y1);
      break;
    }
    case OP_HLINE:
    case OP_VLINE: { // HLINE: x1,x2,y,dash | VLINE: x,y1,y2,dash ; then r,g,b,a,use32
      int64_t dash = a[3];
      bool use32 = a[8] != 0;
      RGBA c = rgba_args(a + 4);
      uint32_t c32 = compress32(c);
      if (use32) c = expand32(c32);
      int64_t p1, p2, q;
      if (op == OP_HLINE) {
        p1 = a[0];
        p2 = a[1];
        q = a[2];
      } else {
        q = a[0];
        p1 = a[1];
        p2 = a[2];
      }
      auto draw = [&](phosg::Image& im) {
        if (op == OP_HLINE) {
          if (use32) im.draw_horizontal_line(p1, p2, q, dash, c32);
          else im.draw_horizontal_line(p1, p2, q, dash, c.r, c.g, c.b, c.a);
        } else {
          if (use32) im.draw_vertical_line(q, p1, p2, dash, c32);
          else im.draw_vertical_line(q, p1, p2, dash, c.r, c.g, c.b, c.a);
        }
      };
      auto S = marked_pixels(T.m, c, draw, name);
      int64_t extent = op == OP_HLINE ? T.m.w : T.m.h, other = op == OP_HLINE ? T.m.h : T.m.w;
      bool fully_inside = p1 >= 0 && p2 < extent && q >= 0 && q < other;
      std::set<std::pair<int64_t, int64_t>> ideal;
      if (q >= 0 && q < other) {
        for (int64_t p = 0; p < extent; p++) {
          if (p >= p1 && p <= p2 && dash_on(p, dash)) ideal.insert(op == OP_HLINE ? std::make_pair(p, q) : std::make_pair(q, p));
        }
      }
      for (const auto& p : S) {
        VCHECK(ideal.count(p), cat("dashed:off-pattern:", name), name, "(", p1, "..", p2, " at ", q, ", dash ", dash, ") on ", describe(T.m), " marked (", p.first, ",", p.second, ") which is not on the requested segment/pattern");
      }
      if (fully_inside) {
        VCHECK(S == ideal, cat("dashed:incomplete:", name), name, "(", p1, "..", p2, " at ", q, ", dash ", dash, ") on ", describe(T.m), " marked ", S.size(), " pixels, the pattern has ", ideal.size());
      }
      expect_exc(run_catching([&] { draw(T.img); }, &ewhat), EXC_NONE);
      for (const auto& p : S) T.m.set(p.first, p.second, c);
      res.nontrivial = !fully_inside;
      break;
    }
    case OP_TEXT: { // x,y, fg r,g,b,a, bg r,g,b,a, string index, overload + 5 * format mode
      // The text that draw_text renders is the FORMATTED text, a byte string with a length: every byte value 0..255 can occur in it,
      // the zero byte only through a %c conversion. Format modes (how the wanted text is handed to draw_text):
      //   0  "%s" with the text as the argument                         (texts without a zero byte)
      //   1  "%s%c%s": the text split around its zero byte (or, without one, around its middle byte)   (at most one zero byte)
      //   2  the text itself as the format: '%' doubled, every zero byte a %c conversion with the argument 0   (at most 8 zero bytes)
      //   3  "%c" alone                                                  (texts of exactly one byte)
      // A mode that cannot express the text falls back to mode 2.
      RGBA fg = rgba_args(a + 2), bg = rgba_args(a + 6);
      size_t si = static_cast<size_t>(a[10]);
      if (si >= strings.size()) throw std::logic_error("text index outside the case's blobs");
      const std::string& s = strings[si];
      if (a[11] < 0 || a[11] >= 20) throw std::logic_error("text overload / format mode outside the domain");
      int ov = static_cast<int>(a[11] % 5), fm = static_cast<int>(a[11] / 5);
      size_t nz = 0;
      for (char ch : s) nz += ch == 0;
      if ((fm == 0 && nz > 0) || (fm == 1 && (nz > 1 || s.empty())) || (fm == 3 && s.size() != 1)) fm = 2;
      if (fm == 2 && nz > 8) throw std::logic_error("text with more than 8 zero bytes is outside the domain");
      uint32_t f32 = compress32(fg), b32 = compress32(bg);
      ssize_t tw = 0, th = 0;
      auto call = [&](const char* fmt, auto... args) {
        switch (ov) {
          case 0: T.img.draw_text(x, y, &tw, &th, fg.r, fg.g, fg.b, fg.a, bg.r, bg.g, bg.b, bg.a, fmt, args...); break;
          case 1: T.img.draw_text(x, y, fg.r, fg.g, fg.b, fg.a, bg.r, bg.g, bg.b, bg.a, fmt, args...); break;
          case 2: T.img.draw_text(x, y, &tw, &th, f32, b32, fmt, args...); break;
          case 3: T.img.draw_text(x, y, f32, b32, fmt, args...); break;
          default: T.img.draw_text(x, y, f32, fmt, args...); break;
        }
      };
      int e = run_catching([&] {
        switch (fm) {
          case 0: call("%s", s.c_str()); break;
          case 1: {
            size_t k = nz ? s.find('\0') : s.size() / 2;
            std::string head = s.substr(0, k), tail = s.substr(k + 1);
            call("%s%c%s", head.c_str(), static_cast<int>(static_cast<unsigned char>(s[k])), tail.c_str());
            break;
          }
          case 3: call("%c", static_cast<int>(static_cast<unsigned char>(s[0]))); break;
          default: {
            std::string f;
            for (char ch : s) {
              if (ch == 0) f += "%c";
              else if (ch == '%') f += "%%";
              else f += ch;
            }
            call(f.c_str(), 0, 0, 0, 0, 0, 0, 0, 0);
            break;
          }
        }
      }, &ewhat);
      expect_exc(e, EXC_NONE);
      static const char* fm_names[4] = {"text-format:%s", "text-format:%s%c%s", "text-format:text-as-format", "text-format:%c"};
      verif::ctx().cls(fm_names[fm]);
      if (nz) verif::ctx().cls("text:zero-byte-in-formatted-text");
      if (ov >= 2) {
        fg = expand32(f32);
        bg = ov == 4 ? RGBA{0, 0, 0, 0} : expand32(b32);
      }
      m_draw_text(T.m, x, y, fg, bg, s);
      res.nontrivial = x < 1 || y < 1 || x + 6 * static_cast<int64_t>(s.size()) > T.m.w || y + 8 > T.m.h;
      break;
    }
    case OP_REV_H:
      expect_exc(run_catching([&] { T.img.reverse_horizontal(); }, &ewhat), EXC_NONE);
      m_reverse_horizontal(T.m);
      break;
    case OP_REV_V:
      expect_exc(run_catching([&] { T.img.reverse_vertical(); }, &ewhat), EXC_NONE);
      m_reverse_vertical(T.m);
      break;
    case OP_INVERT:
      expect_exc(run_catching([&] { T.img.invert(); }, &ewhat), EXC_NONE);
      m_invert(T.m);
      break;
    case OP_SET_ALPHA:
      expect_exc(run_catching([&] { T.img.set_has_alpha(a[0] != 0); }, &ewhat), EXC_NONE);
      m_set_has_alpha(T.m, a[0] != 0);
      break;
    case OP_SET_CW: {
      unsigned nw = static_cast<unsigned>(a[0]) & 0xFF;
      bool valid = nw == 8 || nw == 16 || nw == 32 || nw == 64;
      expect_exc(run_catching([&] { T.img.set_channel_width(nw); }, &ewhat), valid ? EXC_NONE : EXC_RUNTIME);
      if (valid) m_set_channel_width(T.m, nw);
      break;
    }
    case OP_ALPHA_FROM_MASK64: {
      RGBA k{static_cast<uint64_t>(a[0]), static_cast<uint64_t>(a[1]), static_cast<uint64_t>(a[2]), 0};
      expect_exc(run_catching([&] { T.img.set_alpha_from_mask_color(k.r, k.g, k.b); }, &ewhat), EXC_NONE);
      m_set_alpha_from_mask_color(T.m, k);
      break;
    }
    case OP_ALPHA_FROM_MASK32: {
      uint32_t c = static_cast<uint32_t>(a[0]);
      expect_exc(run_catching([&] { T.img.set_alpha_from_mask_color(c); }, &ewhat), EXC_NONE);
      m_set_alpha_from_mask_color(T.m, expand32(c));
      break;
    }
    case OP_COPY_ASSIGN:
      expect_exc(run_catching([&] { T.img = O.img; }, &ewhat), EXC_NONE);
      T.m = O.m;
      break;
    case OP_COPY_CONSTRUCT:
      expect_exc(run_catching([&] {
        phosg::Image tmp(O.img);
        T.img = std::move(tmp);
      }, &ewhat), EXC_NONE);
      T.m = O.m;
      break;
    case OP_MOVE_ASSIGN:
      expect_exc(run_catching([&] {
        phosg::Image tmp;
        tmp = O.img;
        phosg::Image tmp2(std::move(tmp));
        T.img = std::move(tmp2);
      }, &ewhat), EXC_NONE);
      T.m = O.m;
      break;
    case OP_RESIZE_BLIT: { // x,y,w,h,sx,sy,sw,sh
      int64_t sw = a[6], sh = a[7];
      int64_t esw = sw < 0 ? O.m.w : sw, esh = sh < 0 ? O.m.h : sh;
      bool in_range = w >= 2 && h >= 2 && x >= 0 && y >= 0 && static_cast<i128>(x) + w <= T.m.w && static_cast<i128>(y) + h <= T.m.h && sx >= 0 && sy >= 0 && esw >= 1 && esh >= 1 &&
          static_cast<i128>(sx) + esw <= O.m.w && static_cast<i128>(sy) + esh <= O.m.h;
      if (!in_range) {
        res.excluded = "resize_blit: arguments outside both canvases or w,h < 2 (outside the stated domain)";
        break;
      }
      if (O.m.cw == 64 || T.m.cw == 64) {
        res.excluded = "resize_blit on 64-bit channels: the interpolation is done in double and cannot hold the values";
        break;
      }
      expect_exc(run_catching([&] { T.img.resize_blit(O.img, x, y, w, h, sx, sy, sw, sh); }, &ewhat), EXC_NONE);
      // independent bilinear reference at the exact rational source position; the result may be the
      // truncation of a value up to one below it (phosg truncates a double sum) or the value rounded to nearest / up
      std::vector<uint64_t> got = raw_pixels(T.img);
      uint64_t M = T.m.mask();
      for (int64_t yy = 0; yy < h; yy++) {
        for (int64_t xx = 0; xx < w; xx++) {
          long double fx = static_cast<long double>(xx) * (esw - 1) / (w - 1), fy = static_cast<long double>(yy) * (esh - 1) / (h - 1);
          int64_t ix = static_cast<int64_t>(floorl(fx)), iy = static_cast<int64_t>(floorl(fy));
          if (ix > esw - 2 && esw >= 2) ix = esw - 2;
          if (iy > esh - 2 && esh >= 2) iy = esh - 2;
          long double tx = fx - ix, ty = fy - iy;
          int64_t ix2 = esw >= 2 ? ix + 1 : ix, iy2 = esh >= 2 ? iy + 1 : iy;
          RGBA p11 = O.m.get(sx + ix, sy + iy), p21 = O.m.get(sx + ix2, sy + iy), p12 = O.m.get(sx + ix, sy + iy2), p22 = O.m.get(sx + ix2, sy + iy2);
          const uint64_t* c11 = &p11.r;
          const uint64_t* c21 = &p21.r;
          const uint64_t* c12 = &p12.r;
          const uint64_t* c22 = &p22.r;
          size_t di = static_cast<size_t>((y + yy) * T.m.w + (x + xx)) * 4;
          for (int ch = 0; ch < (T.m.alpha ? 4 : 3); ch++) {
            long double v = c11[ch] * (1 - tx) * (1 - ty) + c21[ch] * tx * (1 - ty) + c12[ch] * (1 - tx) * ty + c22[ch] * tx * ty;
            // (how the interpolated value becomes an integer - truncated as in /repo, rounded to nearest, rounded up - is not stated)
            int64_t lo = static_cast<int64_t>(floorl(v - 1 - 1e-3L)), hi = static_cast<int64_t>(ceill(v + 1e-3L));
            if (lo < 0) lo = 0;
            bool ok = false;
            for (int64_t t = lo; t <= hi; t++) ok |= ((static_cast<uint64_t>(t) & M) == got[di + ch]);
            VCHECK(ok, "resize_blit:value", "resize_blit dest (", x + xx, ",", y + yy, ") channel ", ch, " is ", got[di + ch], ", bilinear reference ", static_cast<double>(v), " (", describe(O.m), " -> ", describe(T.m), ")");
            T.m.v[di + ch] = got[di + ch];
          }
        }
      }
      break;
    }
    case OP_EQUALS: {
      bool eq = T.img == O.img, ne = T.img != O.img;
      VCHECK(eq == (T.m == O.m) && ne == !eq, "operator==", "operator== returned ", eq, ", operator!= ", ne, ", models equal: ", T.m == O.m);
      break;
    }
    default:
      throw std::logic_error("unknown opcode");
  }
  return res;
}

// compare both canvases with their models after an operation
inline void check_canvases(Canvas& T, Canvas& O, int op, const char* stage) {
  std::string d = diff(T.img, T.m);
  VCHECK(d.empty(), cat("pixels:", op_name(op)), stage, ": target after ", op_name(op), ": ", d);
  d = diff(O.img, O.m);
  VCHECK(d.empty(), cat("other-canvas-changed:", op_name(op)), stage, ": the other canvas after ", op_name(op), ": ", d);
  d = max_value_diff(T.img, T.m);
  VCHECK(d.empty(), cat("max-value:", op_name(op)), stage, ": target after ", op_name(op), ": ", d);
  d = max_value_diff(O.img, O.m);
  VCHECK(d.empty(), cat("other-canvas-changed:", op_name(op)), stage, ": the other canvas after ", op_name(op), ": ", d);
}

} // namespace c07
