// C04 - JSON serialize -> parse is the identity for every value and every option set; standard-mode output is
// standard JSON (strict mode + an independent reader agree); copies are deep and compare equal to their source.
//
// A case is a value tree (token stream in Case.n, byte strings in Case.s). The oracle builds the phosg::JSON value
// through the public constructors, and for each of the 64 SerializeOption masks checks
//   parse-rejects-own-output     JSON::parse(serialize(v,o)) throws
//   value-changed                the parsed value differs from the model (same int/float kind, ints exact, floats as
//                                %.6g text, strings/keys byte-equal, lists element-wise, dicts key-wise)
//   equal-operator               parsed == v is false although the tree holds no float
//   reserialize-differs          serialize(parsed, o|SORT) != serialize(v, o|SORT)
//   for o within {FORMAT, SORT_DICT_KEYS}:
//   strict-rejects-standard-output / strict-value-changed     strict mode must read the same value
//   standard:ref-rejects / standard:ref-value                 the independent RFC 8259 reader (harness/c05/refjson.hh)
//                                                             must read the same value (Python's json does the same
//                                                             in the c04_py stage)
// and once per tree the copy clauses (copy-*).
// The signature carries the kind of the smallest sub-tree that fails on its own and the smallest failing mask.
#include <float.h>
#include <math.h>

#include <phosg/JSON.hh>

#include "c04/tree.hh"
#include "c05/refjson.hh"
#include "verif.hh"

using namespace verif;
using jt::Node;
using phosg::JSON;

// ---------------------------------------------------------------- Case <-> tree

static void enc(const Node& n, Case& c) {
  c.N(n.k);
  switch (n.k) {
    case Node::NUL: break;
    case Node::BOOL: c.N(n.b ? 1 : 0); break;
    case Node::INT: c.I(n.i); break;
    case Node::FLT: c.D(n.d); break;
    case Node::STR: c.S(n.s); break;
    case Node::LIST:
      c.N(n.items.size());
      for (const auto& ch : n.items) enc(ch, c);
      break;
    case Node::DICT:
      c.N(n.ents.size());
      for (const auto& e : n.ents) {
        c.S(e.first);
        enc(e.second, c);
      }
      break;
  }
}

struct Dec {
  const Case& c;
  size_t ni = 0, si = 0;
  Node node(int depth = 0) {
    if (depth > 400) throw std::logic_error("case: tree too deep");
    uint64_t k = c.u(ni++);
    switch (k) {
      case Node::NUL: return Node::null();
      case Node::BOOL: return Node::boolean(c.u(ni++) != 0);
      case Node::INT: return Node::integer(c.i(ni++));
      case Node::FLT: {
        double d = c.d(ni++);
        int cl = fpclassify(d);
        if (cl != FP_NORMAL && cl != FP_ZERO) throw std::logic_error("case: float outside the domain (finite normal doubles and zero)");
        return Node::real(d);
      }
      case Node::STR: return Node::str(c.str(si++));
      case Node::LIST: {
        uint64_t cnt = c.u(ni++);
        if (cnt > 100000) throw std::logic_error("case: list too long");
        Node n = Node::list();
        for (uint64_t j = 0; j < cnt; j++) n.items.push_back(node(depth + 1));
        return n;
      }
      case Node::DICT: {
        uint64_t cnt = c.u(ni++);
        if (cnt > 100000) throw std::logic_error("case: dict too long");
        Node n = Node::dict();
        for (uint64_t j = 0; j < cnt; j++) {
          std::string key = c.str(si++);
          Node v = node(depth + 1);
          n.add(key, std::move(v)); // a repeated key is dropped: dictionaries have unique keys
        }
        return n;
      }
    }
    throw std::logic_error("case: bad kind token");
  }
};

static Node decode(const Case& c) {
  Dec d{c};
  Node n = d.node();
  if (d.ni != c.n.size() || d.si != c.s.size()) throw std::logic_error("case: trailing tokens");
  return n;
}

// ---------------------------------------------------------------- oracle for one (value, mask)

static const uint32_t kFormat = JSON::SerializeOption::FORMAT;
static const uint32_t kSort = JSON::SerializeOption::SORT_DICT_KEYS;
static const uint32_t kStandardBits = kFormat | kSort;

struct Problem {
  std::string clause, msg;
  bool none() const { return clause.empty(); }
};

static std::string clip(const std::string& t, size_t n = 160) { return jt::show_bytes(t.size() > n ? t.substr(0, n) : t) + (t.size() > n ? "..." : ""); }

static Problem check_mask(const Node& model, const JSON& v, uint32_t mask, bool has_float) {
  std::string t = v.serialize(mask);
  JSON p;
  try {
    p = JSON::parse(t);
  } catch (const std::exception& e) {
    return {"parse-rejects-own-output", cat("JSON::parse threw ", typeid(e).name(), " (", e.what(), ") on serialize(v, 0x", std::hex, mask, ") = ", clip(t))};
  }
  Node back = jt::from_json(p);
  jt::Diff d = jt::diff(back, model, jt::SAME_KIND_SIX_DIGITS);
  if (!d.none()) return {"value-changed:" + d.cls, cat("parse(serialize(v, 0x", std::hex, mask, ")) differs from v at ", d.text, "; text = ", clip(t))};
  if (!has_float && !(p == v)) return {"equal-operator", cat("parse(serialize(v, 0x", std::hex, mask, ")) == v is false; text = ", clip(t))};
  std::string a = p.serialize(mask | kSort), b = v.serialize(mask | kSort);
  if (a != b) return {"reserialize-differs", cat("serialize(parse(t), o|SORT) = ", clip(a), " but serialize(v, o|SORT) = ", clip(b), " (o = 0x", std::hex, mask, ")")};
  if ((mask & ~kStandardBits) == 0) {
    JSON ps;
    try {
      ps = JSON::parse(t, true);
    } catch (const std::exception& e) {
      return {"strict-rejects-standard-output", cat("strict JSON::parse threw ", typeid(e).name(), " (", e.what(), ") on serialize(v, 0x", std::hex, mask, ") = ", clip(t))};
    }
    jt::Diff ds = jt::diff(jt::from_json(ps), model, jt::SAME_KIND_SIX_DIGITS);
    if (!ds.none()) return {"strict-value-changed:" + ds.cls, cat("strict parse(serialize(v, 0x", std::hex, mask, ")) differs at ", ds.text, "; text = ", clip(t))};
    rj::Result r = rj::parse_document(t, 1000);
    if (!r.ok) return {"standard:ref-rejects", cat("the output of serialize(v, 0x", std::hex, mask, ") is not RFC 8259 JSON: ", r.error, " at offset ", std::dec, r.error_pos, "; text = ", clip(t))};
    for (unsigned char ch : t)
      if (ch >= 0x7F) return {"standard:non-ascii-output", cat("serialize(v, 0x", std::hex, mask, ") emitted byte 0x", (int)ch, " unescaped")};
    jt::Diff dr = jt::diff(r.value, model, jt::SAME_KIND_SIX_DIGITS);
    if (!dr.none()) return {"standard:ref-value:" + dr.cls, cat("an independent reader sees a different value in serialize(v, 0x", std::hex, mask, ") at ", dr.text, "; text = ", clip(t))};
  }
  return {};
}

static std::string node_class(const Node& n) {
  switch (n.k) {
    case Node::FLT: {
      char b[64];
      snprintf(b, sizeof(b), "%g", n.d);
      bool e = strchr(b, 'e') != nullptr, dot = strchr(b, '.') != nullptr;
      return std::string("float:") + (e ? (dot ? "exp" : "exp-no-point") : (dot ? "plain" : "integral"));
    }
    case Node::INT: return n.i < 0 ? "int:negative" : "int:non-negative";
    case Node::LIST: return n.items.empty() ? "list:empty" : "list:non-empty";
    case Node::DICT: return n.ents.empty() ? "dict:empty" : "dict:non-empty";
    default: return jt::kind_name(n.k);
  }
}

static bool tree_has_float(const Node& n) {
  if (n.k == Node::FLT) return true;
  for (const auto& c : n.items)
    if (tree_has_float(c)) return true;
  for (const auto& e : n.ents)
    if (tree_has_float(e.second)) return true;
  return false;
}

// Smallest sub-tree that shows a problem with the same clause when serialized on its own (root-cause class).
static const Node* localise(const Node& n, uint32_t mask, const std::string& clause) {
  auto fails = [&](const Node& c) {
    JSON v = jt::build(c);
    Problem p = check_mask(c, v, mask, tree_has_float(c));
    return !p.none() && p.clause == clause;
  };
  for (const auto& c : n.items)
    if (fails(c)) return localise(c, mask, clause);
  for (const auto& e : n.ents) {
    if (fails(e.second)) return localise(e.second, mask, clause);
    // a key is a string: test it as a one-entry dictionary with a null value
    Node d = Node::dict();
    d.add(e.first, Node::null());
    if (!(n.ents.size() == 1 && e.second.k == Node::NUL) && fails(d)) return nullptr; // caller reports "key"
  }
  return &n;
}

// ---------------------------------------------------------------- copies

static void mutate_all(JSON& j) {
  if (j.is_list()) {
    for (auto& c : j.as_list()) mutate_all(*c);
    j.emplace_back(JSON("mutated"));
    j.at(0) = JSON(static_cast<int64_t>(424242));
  } else if (j.is_dict()) {
    for (auto& it : j.as_dict()) mutate_all(*it.second);
    j.emplace(std::string("\x01mutated", 8), JSON(true));
    auto first = j.as_dict().begin();
    *first->second = JSON(1.5);
  } else if (j.is_string()) {
    j.as_string() += "!";
  } else {
    j = JSON("was-a-scalar");
  }
}

static void check_copies(const Node& model, const JSON& v, const jt::Stats& st) {
  std::string before = v.serialize(kSort);
  {
    JSON c(v);
    VCHECK(c == v, "copy-not-equal", "JSON c(v); c == v is false for v = ", clip(before));
    VCHECK(v == c, "copy-not-equal", "JSON c(v); v == c is false for v = ", clip(before));
    jt::Diff d = jt::diff(jt::from_json(c), model, jt::SAME_KIND_SIX_DIGITS);
    VCHECK(d.none(), "copy-differs:" + d.cls, "copy differs from its source at ", d.text);
    VCHECK(c.serialize(kSort) == before, "copy-serializes-differently", "copy serializes to ", clip(c.serialize(kSort)), " source to ", clip(before));
    mutate_all(c);
    std::string after = v.serialize(kSort);
    VCHECK(after == before, "copy-shares-state", "mutating the copy changed the source: ", clip(before), " -> ", clip(after));
    if (st.containers) VCHECK(c != v, "copy-mutation-invisible", "the mutated copy still compares equal to the source");
  }
  {
    // copy assignment over a value that already owns children; source must survive the destruction of the copy
    JSON a = JSON::list({JSON(1), JSON::dict({{"k", JSON::list({2})}})});
    a = v;
    VCHECK(a == v, "copy-assign-not-equal", "a = v; a == v is false for v = ", clip(before));
    VCHECK(a.serialize(kSort) == before, "copy-assign-serializes-differently", "assigned copy serializes to ", clip(a.serialize(kSort)));
    mutate_all(a);
    VCHECK(v.serialize(kSort) == before, "copy-assign-shares-state", "mutating the assigned copy changed the source");
  }
  // both copies are destroyed here; the source must still be intact (ASan reports shared nodes as use-after-free)
  jt::Diff d = jt::diff(jt::from_json(v), model, jt::SAME_KIND_SIX_DIGITS);
  VCHECK(d.none(), "copy-damaged-source:" + d.cls, "source changed after its copies were mutated and destroyed: ", d.text);
  VCHECK(v.serialize(kSort) == before, "copy-damaged-source", "source serializes differently after its copies were destroyed");
}

// ---------------------------------------------------------------- run

static void run_tree(const Case& c) {
  Node model = decode(c);
  jt::Stats st;
  jt::stats_into(model, st);
  JSON v = jt::build(model);

  // construction / accessors: what was put in is what the accessors return (bit-exact)
  {
    Node back = jt::from_json(v);
    jt::Diff d = jt::diff(back, model, jt::SAME_KIND_SIX_DIGITS);
    VCHECK(d.none(), "construct:" + d.cls, "value read back through the accessors differs from what was constructed: ", d.text);
  }
  bool has_float = st.has_float;
  for (uint32_t mask = 0; mask < 64; mask++) {
    Problem p = check_mask(model, v, mask, has_float);
    if (p.none()) continue;
    const Node* where = localise(model, mask, p.clause);
    std::string cls = where ? node_class(*where) : "key";
    char mb[16];
    snprintf(mb, sizeof(mb), "%02x", mask);
    VFAIL(p.clause + ":" + cls + ":opts=" + mb, p.msg);
  }
  check_copies(model, v, st);

  if (st.containers && (st.float_with_exponent || st.nonprintable_byte || st.empty_containers)) ctx().nontrivial_case();
  Ctx& x = ctx();
  if (st.float_with_exponent) x.cls("tree:float-with-exponent");
  if (st.nonprintable_byte) x.cls("tree:string-byte-outside-0x20-0x7e");
  if (st.empty_containers) x.cls("tree:empty-container");
  if (st.has_neg_int) x.cls("tree:negative-int");
  x.cls(st.depth >= 50 ? "depth>=50" : st.depth >= 4 ? "depth:4-49" : st.depth >= 2 ? "depth:2-3" : "depth:1");
  x.count(63); // 64 option masks were evaluated for this tree
}

// ---------------------------------------------------------------- generators

static double gen_float() {
  switch (vg::below(4)) {
    case 0: {
      // any finite normal double
      uint64_t sign = vg::below(2), ex = 1 + vg::below(2046), mant = vg::u64() & ((1ULL << 52) - 1);
      if (vg::chance(1, 4)) mant = vg::pick<uint64_t>({0, 1, (1ULL << 52) - 1, 1ULL << 51});
      uint64_t bits = (sign << 63) | (ex << 52) | mant;
      double d;
      memcpy(&d, &bits, 8);
      return d;
    }
    case 1: {
      // up to six significant digits times a power of ten, across the whole exponent range
      uint64_t m = vg::chance(1, 3) ? 1 + vg::below(9) : 1 + vg::below(999999);
      int64_t e = vg::range(-307, 302);
      if (vg::chance(1, 2)) e = vg::range(-12, 22);
      char b[64];
      snprintf(b, sizeof(b), "%s%llue%lld", vg::coin() ? "-" : "", (unsigned long long)m, (long long)e);
      return strtod(b, nullptr);
    }
    case 2:
      return vg::pick<double>({0.0, -0.0, 1e20, 2e6, 1e-7, 100000.0, 999999.5, 1.79769e308, 2.22508e-308, 1e15, 1e16, 1e6, 1e5, 123456.7,
          0.0001, 0.00001, 5.0, -5.0, 0.1, 1.0 / 3, -1e20, 1e-5, 1.5e300, 2.5e-300, 1e100, 1e-100, 3e9, 4e21, DBL_MAX, DBL_MIN, 1.0, -1.0});
    default: {
      // small decimals and integral values
      int64_t n = vg::range(-2000000, 2000000);
      return vg::coin() ? static_cast<double>(n) : static_cast<double>(n) / 1000.0;
    }
  }
}

static int64_t gen_int() {
  switch (vg::below(5)) {
    case 0: return vg::pick<int64_t>({INT64_MIN, INT64_MAX, 0, 1, -1, INT64_MIN + 1, INT64_MAX - 1, 10, -10, 255, -255, 256, -256});
    case 1: return vg::range(-1000, 1000);
    default: return static_cast<int64_t>(vg::interesting64());
  }
}

static std::string gen_bytes() {
  static const std::string boosted = std::string("\"\\\x7F\b\f\n\r\t/", 9) + std::string(1, '\0') + "\x01\x1f\x80\x81\xc3\xa9\xff\xfe u0x";
  if (vg::chance(1, 8)) return "";
  size_t len = vg::scaled(24);
  std::string r(len, '\0');
  unsigned style = vg::below(3);
  for (size_t k = 0; k < len; k++) {
    unsigned pickm = style == 0 ? vg::below(3) : style == 1 ? 1 : vg::below(2) * 2;
    if (pickm == 0) r[k] = boosted[vg::below(boosted.size())];
    else if (pickm == 1) r[k] = static_cast<char>(vg::below(256));
    else r[k] = static_cast<char>(0x20 + vg::below(0x5F));
  }
  return r;
}

static Node gen_node(int depth, int& budget) {
  budget--;
  bool leaf_only = depth >= 6 || budget <= 0;
  unsigned k = leaf_only ? vg::below(6) : vg::below(10);
  switch (k) {
    case 0: return Node::null();
    case 1: return Node::boolean(vg::coin());
    case 2: return Node::integer(gen_int());
    case 3: return Node::real(gen_float());
    case 4: return Node::str(gen_bytes());
    case 5: return vg::coin() ? Node::real(gen_float()) : Node::integer(gen_int());
    case 6:
    case 7: {
      Node n = Node::list();
      size_t cnt = vg::chance(1, 6) ? 0 : vg::scaled(6);
      for (size_t j = 0; j < cnt && budget > 0; j++) n.items.push_back(gen_node(depth + 1, budget));
      return n;
    }
    default: {
      Node n = Node::dict();
      size_t cnt = vg::chance(1, 6) ? 0 : vg::scaled(6);
      for (size_t j = 0; j < cnt && budget > 0; j++) {
        std::string key = vg::chance(1, 3) ? std::string(1, static_cast<char>('a' + vg::below(4))) : gen_bytes();
        Node v = gen_node(depth + 1, budget);
        n.add(key, std::move(v));
      }
      return n;
    }
  }
}

static Case gen_tree() {
  int budget = 4 + static_cast<int>(vg::scaled(40));
  Node n;
  if (vg::chance(3, 4)) {
    // a container at the root so that the tree exercises separators and nesting
    n = vg::coin() ? Node::list() : Node::dict();
    size_t cnt = vg::scaled(7);
    for (size_t j = 0; j < cnt && budget > 0; j++) {
      Node v = gen_node(1, budget);
      if (n.k == Node::LIST) n.items.push_back(std::move(v));
      else n.add(gen_bytes(), std::move(v));
    }
  } else {
    n = gen_node(0, budget);
  }
  Case c("tree");
  enc(n, c);
  return c;
}

static Case gen_chain() {
  // a chain of containers to depth <= 100 with a leaf (or an empty container) at the bottom
  size_t depth;
  switch (vg::below(6)) {
    case 0: depth = 100; break;
    case 1: depth = 50 + vg::below(50); break;
    default: depth = 2 + vg::scaled(28); break;
  }
  int budget = 3;
  Node cur = vg::chance(1, 3) ? (vg::coin() ? Node::list() : Node::dict()) : gen_node(6, budget);
  for (size_t k = 0; k < depth; k++) {
    Node up;
    if (vg::coin()) {
      up = Node::list();
      if (vg::chance(1, 5)) up.items.push_back(Node::integer(gen_int()));
      up.items.push_back(std::move(cur));
    } else {
      up = Node::dict();
      if (vg::chance(1, 5)) up.add("x", Node::real(gen_float()));
      up.add(vg::chance(1, 4) ? gen_bytes() : std::string("k"), std::move(cur));
    }
    cur = std::move(up);
  }
  Case c("chain");
  enc(cur, c);
  return c;
}

// ---------------------------------------------------------------- fixed regression values (enumerated first)

static void enum_fixed(Enum& e) {
  std::vector<Node> vals;
  for (double d : {0.0, -0.0, 1.4, -10.5, 1e20, 2e6, 1e-7, 100000.0, 999999.5, 1.79769e308, 2.22508e-308, 1e6, 1e5, 1e15, 1e16, 0.00001, DBL_MAX, DBL_MIN})
    vals.push_back(Node::real(d));
  for (int64_t i : {INT64_MIN, INT64_MAX, (int64_t)0, (int64_t)-1, (int64_t)1, (int64_t)-3214, (int64_t)134}) vals.push_back(Node::integer(i));
  vals.push_back(Node::null());
  vals.push_back(Node::boolean(true));
  vals.push_back(Node::boolean(false));
  vals.push_back(Node::list());
  vals.push_back(Node::dict());
  vals.push_back(Node::str(""));
  {
    std::string all;
    for (int b = 0; b < 256; b++) all += static_cast<char>(b);
    vals.push_back(Node::str(all));
    Node d = Node::dict();
    d.add(all, Node::str(all));
    d.add("", Node::list());
    vals.push_back(d);
  }
  // every single byte as a string and as a key
  for (int b = 0; b < 256; b++) {
    Node d = Node::dict();
    d.add(std::string(1, static_cast<char>(b)), Node::str(std::string(1, static_cast<char>(b))));
    vals.push_back(d);
  }
  uint64_t idx = 0;
  for (const auto& v : vals) {
    if (e.stop) break;
    if (!e.mine(idx++)) continue;
    Case c("tree");
    enc(v, c);
    e.exec(c);
    Node l = Node::list();
    l.items.push_back(v);
    l.items.push_back(Node::dict());
    Case c2("tree");
    enc(l, c2);
    e.exec(c2);
  }
  e.complete("fixed value list (boundary floats and ints, every byte value as string and key, empty containers), bare and inside a list, x 64 option masks");
}

int main(int argc, char** argv) {
  std::vector<SubCheck> checks;
  checks.push_back({"tree", run_tree, gen_tree, 16000, 300000, 100, enum_fixed});
  checks.push_back({"chain", run_tree, gen_chain, 480, 12000, 100, nullptr});
  return main_(argc, argv, checks);
}
