// C04 - JSON serialize -> parse is the identity for every value and every option set; standard-mode output is
// standard JSON (strict mode + an independent reader agree); copies are deep and compare equal to their source.
//
// A case is a value tree (token stream in Case.n, byte strings in Case.s). The oracle builds the phosg::JSON value
// through the public constructors, and for each of the 64 SerializeOption masks checks
//   parse-rejects-own-output     JSON::parse(serialize(v,o)) throws
//   value-changed                the parsed value differs from the model (same int/float kind, ints exact, floats as
//                                %.6g text, strings/keys byte-equal, lists element-wise, dicts key-wise)
//   equal-operator               parsed == v is false although the tree holds no float
//   reserialize-differs          serialize(parsed, o|SORT) != serialize(v, o|SORT)
//   for o within {FORMAT, SORT_DICT_KEYS}:
//   strict-rejects-standard-output / strict-value-changed     strict mode must read the same value
//   standard:ref-rejects / standard:ref-value                 the independent RFC 8259 reader (harness/c05/refjson.hh)
//                                                             must read the same value (Python's json does the same
//                                                             in the c04_py stage)
// and once per tree the copy clauses (copy-*).
// Subcheck `assign`: a case is a PAIR (target tree, source tree); `target = source` (copy assignment onto an object that
// already holds a value of any kind - in particular a dictionary sharing some keys with the source) must give a value
// equal to the source and independent of it in both directions (assign-*).
// Subcheck `after_reject`: a case is [texts parsed before (mostly malformed; the outcome of parsing them is not
// asserted), one tree, one option mask]; the round-trip clauses above must hold whatever the same thread parsed before.
// Subcheck `deep`: "arbitrarily nested": chains of 101..5200 (thorough: 10000) lists / dictionaries, run on a thread with a
// 512 MiB stack (the library and the model recurse once per level; the stack is the harness's to provide); the case
// carries the set of option masks to evaluate as a 64-bit map (FORMAT output grows with depth^2).
// The signature carries the kind of the smallest sub-tree that fails on its own and the smallest failing mask.
#include <float.h>
#include <math.h>
#include <pthread.h>

#include <exception>

#include <phosg/JSON.hh>

#include "c04/tree.hh"
#include "c05/refjson.hh"
#include "verif.hh"

using namespace verif;
using jt::Node;
using phosg::JSON;

// ---------------------------------------------------------------- Case <-> tree

static void enc(const Node& n, Case& c) {
  c.N(n.k);
  switch (n.k) {
    case Node::NUL: break;
    case Node::BOOL: c.N(n.b ? 1 : 0); break;
    case Node::INT: c.I(n.i); break;
    case Node::FLT: c.D(n.d); break;
    case Node::STR: c.S(n.s); break;
    case Node::LIST:
      c.N(n.items.size());
      for (const auto& ch : n.items) enc(ch, c);
      break;
    case Node::DICT:
      c.N(n.ents.size());
      for (const auto& e : n.ents) {
        c.S(e.first);
        enc(e.second, c);
      }
      break;
  }
}

struct Dec {
  const Case& c;
  size_t ni = 0, si = 0;
  int max_depth = 400; // `deep` cases (decoded on the big-stack thread) raise it
  Node node(int depth = 0) {
    if (depth > max_depth) throw std::logic_error("case: tree too deep");
    uint64_t k = c.u(ni++);
    switch (k) {
      case Node::NUL: return Node::null();
      case Node::BOOL: return Node::boolean(c.u(ni++) != 0);
      case Node::INT: return Node::integer(c.i(ni++));
      case Node::FLT: {
        double d = c.d(ni++);
        int cl = fpclassify(d);
        if (cl != FP_NORMAL && cl != FP_ZERO) throw std::logic_error("case: float outside the domain (finite normal doubles and zero)");
        return Node::real(d);
      }
      case Node::STR: return Node::str(c.str(si++));
      case Node::LIST: {
        uint64_t cnt = c.u(ni++);
        if (cnt > 100000) throw std::logic_error("case: list too long");
        Node n = Node::list();
        for (uint64_t j = 0; j < cnt; j++) n.items.push_back(node(depth + 1));
        return n;
      }
      case Node::DICT: {
        uint64_t cnt = c.u(ni++);
        if (cnt > 100000) throw std::logic_error("case: dict too long");
        Node n = Node::dict();
        for (uint64_t j = 0; j < cnt; j++) {
          std::string key = c.str(si++);
          Node v = node(depth + 1);
          n.add(key, std::move(v)); // a repeated key is dropped: dictionaries have unique keys
        }
        return n;
      }
    }
    throw std::logic_error("case: bad kind token");
  }
};

static Node decode(const Case& c) {
  Dec d{c};
  Node n = d.node();
  if (d.ni != c.n.size() || d.si != c.s.size()) throw std::logic_error("case: trailing tokens");
  return n;
}

// ---------------------------------------------------------------- oracle for one (value, mask)

static const uint32_t kFormat = JSON::SerializeOption::FORMAT;
static const uint32_t kSort = JSON::SerializeOption::SORT_DICT_KEYS;
static const uint32_t kStandardBits = kFormat | kSort;

struct Problem {
  std::string clause, msg;
  bool none() const { return clause.empty(); }
};

static std::string clip(const std::string& t, size_t n = 160) { return jt::show_bytes(t.size() > n ? t.substr(0, n) : t) + (t.size() > n ? "..." : ""); }

static Problem check_mask(const Node& model, const JSON& v, uint32_t mask, bool has_float, const std::function<void()>* before_parse = nullptr, size_t ref_depth_limit = 1000) {
  std::string t = v.serialize(mask);
  JSON p;
  try {
    if (before_parse) (*before_parse)();
    p = JSON::parse(t);
  } catch (const std::exception& e) {
    return {"parse-rejects-own-output", cat("JSON::parse threw ", typeid(e).name(), " (", e.what(), ") on serialize(v, 0x", std::hex, mask, ") = ", clip(t))};
  }
  Node back = jt::from_json(p);
  jt::Diff d = jt::diff(back, model, jt::SAME_KIND_SIX_DIGITS);
  if (!d.none()) return {"value-changed:" + d.cls, cat("parse(serialize(v, 0x", std::hex, mask, ")) differs from v at ", d.text, "; text = ", clip(t))};
  if (!has_float && !(p == v)) return {"equal-operator", cat("parse(serialize(v, 0x", std::hex, mask, ")) == v is false; text = ", clip(t))};
  std::string a = p.serialize(mask | kSort), b = v.serialize(mask | kSort);
  if (a != b) return {"reserialize-differs", cat("serialize(parse(t), o|SORT) = ", clip(a), " but serialize(v, o|SORT) = ", clip(b), " (o = 0x", std::hex, mask, ")")};
  if ((mask & ~kStandardBits) == 0) {
    JSON ps;
    try {
      if (before_parse) (*before_parse)();
      ps = JSON::parse(t, true);
    } catch (const std::exception& e) {
      return {"strict-rejects-standard-output", cat("strict JSON::parse threw ", typeid(e).name(), " (", e.what(), ") on serialize(v, 0x", std::hex, mask, ") = ", clip(t))};
    }
    jt::Diff ds = jt::diff(jt::from_json(ps), model, jt::SAME_KIND_SIX_DIGITS);
    if (!ds.none()) return {"strict-value-changed:" + ds.cls, cat("strict parse(serialize(v, 0x", std::hex, mask, ")) differs at ", ds.text, "; text = ", clip(t))};
    rj::Result r = rj::parse_document(t, ref_depth_limit);
    if (!r.ok) return {"standard:ref-rejects", cat("the output of serialize(v, 0x", std::hex, mask, ") is not RFC 8259 JSON: ", r.error, " at offset ", std::dec, r.error_pos, "; text = ", clip(t))};
    for (unsigned char ch : t)
      if (ch >= 0x7F) return {"standard:non-ascii-output", cat("serialize(v, 0x", std::hex, mask, ") emitted byte 0x", (int)ch, " unescaped")};
    jt::Diff dr = jt::diff(r.value, model, jt::SAME_KIND_SIX_DIGITS);
    if (!dr.none()) return {"standard:ref-value:" + dr.cls, cat("an independent reader sees a different value in serialize(v, 0x", std::hex, mask, ") at ", dr.text, "; text = ", clip(t))};
  }
  return {};
}

static std::string node_class(const Node& n) {
  switch (n.k) {
    case Node::FLT: {
      char b[64];
      snprintf(b, sizeof(b), "%g", n.d);
      bool e = strchr(b, 'e') != nullptr, dot = strchr(b, '.') != nullptr;
      return std::string("float:") + (e ? (dot ? "exp" : "exp-no-point") : (dot ? "plain" : "integral"));
    }
    case Node::INT: return n.i < 0 ? "int:negative" : "int:non-negative";
    case Node::LIST: return n.items.empty() ? "list:empty" : "list:non-empty";
    case Node::DICT: return n.ents.empty() ? "dict:empty" : "dict:non-empty";
    default: return jt::kind_name(n.k);
  }
}

static bool tree_has_float(const Node& n) {
  if (n.k == Node::FLT) return true;
  for (const auto& c : n.items)
    if (tree_has_float(c)) return true;
  for (const auto& e : n.ents)
    if (tree_has_float(e.second)) return true;
  return false;
}

// Smallest sub-tree that shows a problem with the same clause when serialized on its own (root-cause class).
static const Node* localise(const Node& n, uint32_t mask, const std::string& clause) {
  auto fails = [&](const Node& c) {
    JSON v = jt::build(c);
    Problem p = check_mask(c, v, mask, tree_has_float(c));
    return !p.none() && p.clause == clause;
  };
  for (const auto& c : n.items)
    if (fails(c)) return localise(c, mask, clause);
  for (const auto& e : n.ents) {
    if (fails(e.second)) return localise(e.second, mask, clause);
    // a key is a string: test it as a one-entry dictionary with a null value
    Node d = Node::dict();
    d.add(e.first, Node::null());
    if (!(n.ents.size() == 1 && e.second.k == Node::NUL) && fails(d)) return nullptr; // caller reports "key"
  }
  return &n;
}

// ---------------------------------------------------------------- copies

static void mutate_all(JSON& j) {
  if (j.is_list()) {
    for (auto& c : j.as_list()) mutate_all(*c);
    j.emplace_back(JSON("mutated"));
    j.at(0) = JSON(static_cast<int64_t>(424242));
  } else if (j.is_dict()) {
    for (auto& it : j.as_dict()) mutate_all(*it.second);
    j.emplace(std::string("\x01mutated", 8), JSON(true));
    auto first = j.as_dict().begin();
    *first->second = JSON(1.5);
  } else if (j.is_string()) {
    j.as_string() += "!";
  } else {
    j = JSON("was-a-scalar");
  }
}

static void check_copies(const Node& model, const JSON& v, const jt::Stats& st) {
  std::string before = v.serialize(kSort);
  {
    JSON c(v);
    VCHECK(c == v, "copy-not-equal", "JSON c(v); c == v is false for v = ", clip(before));
    VCHECK(v == c, "copy-not-equal", "JSON c(v); v == c is false for v = ", clip(before));
    jt::Diff d = jt::diff(jt::from_json(c), model, jt::SAME_KIND_SIX_DIGITS);
    VCHECK(d.none(), "copy-differs:" + d.cls, "copy differs from its source at ", d.text);
    VCHECK(c.serialize(kSort) == before, "copy-serializes-differently", "copy serializes to ", clip(c.serialize(kSort)), " source to ", clip(before));
    mutate_all(c);
    std::string after = v.serialize(kSort);
    VCHECK(after == before, "copy-shares-state", "mutating the copy changed the source: ", clip(before), " -> ", clip(after));
    if (st.containers) VCHECK(c != v, "copy-mutation-invisible", "the mutated copy still compares equal to the source");
  }
  {
    // copy assignment over a value that already owns children; source must survive the destruction of the copy
    JSON a = JSON::list({JSON(1), JSON::dict({{"k", JSON::list({2})}})});
    a = v;
    VCHECK(a == v, "copy-assign-not-equal", "a = v; a == v is false for v = ", clip(before));
    VCHECK(a.serialize(kSort) == before, "copy-assign-serializes-differently", "assigned copy serializes to ", clip(a.serialize(kSort)));
    mutate_all(a);
    VCHECK(v.serialize(kSort) == before, "copy-assign-shares-state", "mutating the assigned copy changed the source");
  }
  // both copies are destroyed here; the source must still be intact (ASan reports shared nodes as use-after-free)
  jt::Diff d = jt::diff(jt::from_json(v), model, jt::SAME_KIND_SIX_DIGITS);
  VCHECK(d.none(), "copy-damaged-source:" + d.cls, "source changed after its copies were mutated and destroyed: ", d.text);
  VCHECK(v.serialize(kSort) == before, "copy-damaged-source", "source serializes differently after its copies were destroyed");
}

// ---------------------------------------------------------------- run

// For a tall tree: the deepest sub-tree on the path through the last container child of each level that still fails
// with the same clause (binary search; the answer goes into the message, the signature says "deep-nesting").
static std::string localise_deep(const Node& n, uint32_t mask, const std::string& clause, size_t ref_depth_limit) {
  std::vector<const Node*> path;
  for (const Node* cur = &n; cur;) {
    path.push_back(cur);
    const Node* next = nullptr;
    for (const auto& c : cur->items)
      if (c.k == Node::LIST || c.k == Node::DICT) next = &c;
    for (const auto& e : cur->ents)
      if (e.second.k == Node::LIST || e.second.k == Node::DICT) next = &e.second;
    cur = next;
  }
  auto fails = [&](size_t k) {
    JSON v = jt::build(*path[k]);
    Problem p = check_mask(*path[k], v, mask, tree_has_float(*path[k]), nullptr, ref_depth_limit);
    return !p.none() && p.clause == clause;
  };
  size_t lo = 0, hi = path.size(); // fails(lo) is known; find the last k in [lo, hi) that fails, assuming monotonicity
  while (hi - lo > 1) {
    size_t mid = lo + (hi - lo) / 2;
    if (fails(mid)) lo = mid;
    else hi = mid;
  }
  jt::Stats st;
  jt::stats_into(*path[lo], st);
  return cat("the sub-tree ", lo, " levels below the root (", st.depth - 1, " containers above its deepest leaf) fails on its own, the one below it does not");
}

// all round-trip clauses for one tree under the option masks whose bit is set in `masks`
static void run_tree_masks(const Node& model, uint64_t masks, bool deep) {
  jt::Stats st;
  jt::stats_into(model, st);
  JSON v = jt::build(model);
  size_t ref_depth_limit = std::max<size_t>(1000, st.depth + 8);

  // construction / accessors: what was put in is what the accessors return (bit-exact)
  {
    Node back = jt::from_json(v);
    jt::Diff d = jt::diff(back, model, jt::SAME_KIND_SIX_DIGITS);
    VCHECK(d.none(), "construct:" + d.cls, "value read back through the accessors differs from what was constructed: ", d.text);
  }
  bool has_float = st.has_float;
  uint64_t evaluated = 0;
  for (uint32_t mask = 0; mask < 64; mask++) {
    if (!((masks >> mask) & 1)) continue;
    evaluated++;
    Problem p = check_mask(model, v, mask, has_float, nullptr, ref_depth_limit);
    if (p.none()) continue;
    char mb[16];
    snprintf(mb, sizeof(mb), "%02x", mask);
    if (deep && st.depth > 400) {
      std::string where = localise_deep(model, mask, p.clause, ref_depth_limit);
      VFAIL(p.clause + ":deep-nesting:opts=" + mb, p.msg, "; nesting depth of the tree = ", st.depth - 1, " containers; ", where);
    }
    const Node* where = localise(model, mask, p.clause);
    std::string cls = where ? node_class(*where) : "key";
    VFAIL(p.clause + ":" + cls + ":opts=" + mb, p.msg);
  }
  check_copies(model, v, st);

  if (st.containers && (st.float_with_exponent || st.nonprintable_byte || st.empty_containers)) ctx().nontrivial_case();
  Ctx& x = ctx();
  if (st.float_with_exponent) x.cls("tree:float-with-exponent");
  if (st.nonprintable_byte) x.cls("tree:string-byte-outside-0x20-0x7e");
  if (st.empty_containers) x.cls("tree:empty-container");
  if (st.has_neg_int) x.cls("tree:negative-int");
  x.cls(st.depth >= 3000 ? "depth>=3000" : st.depth >= 1000 ? "depth:1000-2999" : st.depth >= 400 ? "depth:400-999" : st.depth >= 50 ? "depth:50-399" : st.depth >= 4 ? "depth:4-49" : st.depth >= 2 ? "depth:2-3" : "depth:1");
  if (evaluated) x.count(evaluated - 1); // one evaluation per (tree, option mask)
}

static void run_tree(const Case& c) {
  Node model = decode(c);
  run_tree_masks(model, ~0ULL, false);
}

// ---------------------------------------------------------------- deep: tall chains on a thread with a large stack
//
// Case: n = [map of the option masks to evaluate (bit m = mask m), tree tokens...], s = the tree's strings.
// The library's serializer, parser, comparison, copy and destructor recurse once per nesting level, and so do the
// model's; how much stack a level costs is not part of the property, so the whole case (decode, build, every clause,
// destruction of the values) runs on a thread whose stack is far larger than any of that needs.

#ifndef C04_BIG_STACK_MIB
#define C04_BIG_STACK_MIB 512
#endif
static void on_big_stack(const std::function<void()>& f) {
  struct Box {
    const std::function<void()>* f;
    std::exception_ptr err;
  } box{&f, nullptr};
  pthread_attr_t attr;
  pthread_attr_init(&attr);
  if (pthread_attr_setstacksize(&attr, static_cast<size_t>(C04_BIG_STACK_MIB) << 20) != 0) throw std::logic_error("cannot set the thread stack size");
  pthread_t th;
  int rc = pthread_create(
      &th, &attr, +[](void* p) -> void* {
        Box* b = static_cast<Box*>(p);
        try {
          (*b->f)();
        } catch (...) {
          b->err = std::current_exception();
        }
        return nullptr;
      },
      &box);
  pthread_attr_destroy(&attr);
  if (rc != 0) throw std::logic_error("cannot create the big-stack thread");
  pthread_join(th, nullptr);
  if (box.err) std::rethrow_exception(box.err);
}

static void run_deep(const Case& c) {
  on_big_stack([&c]() {
    uint64_t masks = c.u(0);
    if (masks == 0) throw std::logic_error("case: empty mask set");
    Dec d{c};
    d.ni = 1;
    d.max_depth = 40000;
    {
      Node model = d.node();
      if (d.ni != c.n.size() || d.si != c.s.size()) throw std::logic_error("case: trailing tokens");
      run_tree_masks(model, masks, true);
    }
  });
}

// ---------------------------------------------------------------- generators

static double gen_float() {
  switch (vg::below(4)) {
    case 0: {
      // any finite normal double
      uint64_t sign = vg::below(2), ex = 1 + vg::below(2046), mant = vg::u64() & ((1ULL << 52) - 1);
      if (vg::chance(1, 4)) mant = vg::pick<uint64_t>({0, 1, (1ULL << 52) - 1, 1ULL << 51});
      uint64_t bits = (sign << 63) | (ex << 52) | mant;
      double d;
      memcpy(&d, &bits, 8);
      return d;
    }
    case 1: {
      // up to six significant digits times a power of ten, across the whole exponent range
      uint64_t m = vg::chance(1, 3) ? 1 + vg::below(9) : 1 + vg::below(999999);
      int64_t e = vg::range(-307, 302);
      if (vg::chance(1, 2)) e = vg::range(-12, 22);
      char b[64];
      snprintf(b, sizeof(b), "%s%llue%lld", vg::coin() ? "-" : "", (unsigned long long)m, (long long)e);
      return strtod(b, nullptr);
    }
    case 2:
      return vg::pick<double>({0.0, -0.0, 1e20, 2e6, 1e-7, 100000.0, 999999.5, 1.79769e308, 2.22508e-308, 1e15, 1e16, 1e6, 1e5, 123456.7,
          0.0001, 0.00001, 5.0, -5.0, 0.1, 1.0 / 3, -1e20, 1e-5, 1.5e300, 2.5e-300, 1e100, 1e-100, 3e9, 4e21, DBL_MAX, DBL_MIN, 1.0, -1.0});
    default: {
      // small decimals and integral values
      int64_t n = vg::range(-2000000, 2000000);
      return vg::coin() ? static_cast<double>(n) : static_cast<double>(n) / 1000.0;
    }
  }
}

// Integers around a change of the digit count: +-(radix^k + d). The decimal text of an int64 has 1..19 digits and the
// hexadecimal one 1..16; code that sizes, pads or splits the text by digit count (a logarithm, a table, a shift) is
// exact everywhere except within some distance of radix^k, and that distance grows with k when floating point is
// involved (doubles are 2^(k-53) apart near 2^k). d: 0, a few units, tens, up to +-5000.
static int64_t pow_int(unsigned radix, unsigned k) {
  int64_t p = 1;
  for (unsigned j = 0; j < k; j++) p *= radix;
  return p;
}
static int64_t gen_digit_boundary_int() {
  bool dec = vg::chance(2, 3);
  int64_t base = dec ? pow_int(10, 1 + vg::below(18)) : pow_int(16, 1 + vg::below(15));
  int64_t d;
  switch (vg::below(4)) {
    case 0: d = vg::range(-3, 3); break;
    case 1: d = vg::range(-70, 70); break;
    case 2: d = vg::range(-600, 600); break;
    default: d = vg::range(-5000, 5000); break;
  }
  int64_t v = base + d; // |base| <= 10^18 < 2^63 - 5000: no overflow
  ctx().cls(dec ? "gen:int-near-power-of-10" : "gen:int-near-power-of-16");
  return vg::coin() ? v : -v;
}

static int64_t gen_int() {
  switch (vg::below(6)) {
    case 0: return vg::pick<int64_t>({INT64_MIN, INT64_MAX, 0, 1, -1, INT64_MIN + 1, INT64_MAX - 1, 10, -10, 255, -255, 256, -256});
    case 1: return vg::range(-1000, 1000);
    case 2: return gen_digit_boundary_int();
    default: return static_cast<int64_t>(vg::interesting64());
  }
}

// Well-known multi-byte sequences: a byte-oriented generator practically never forms a particular 3- or 4-byte
// sequence, but code that treats strings as text (escaping, UTF-8 decoding, line handling, HTML/JS hardening, terminal
// output, printf) keys on exactly these. To JSON.hh a string is a byte string: every one of them is ordinary content.
static const std::vector<std::string>& tokens() {
  static const std::vector<std::string> t = {
      // UTF-8: BOM, line / paragraph separator, NBSP, first and last code point of every encoded length, replacement
      // character, non-characters, zero-width space, bidi override, euro sign, emoji, NEL
      "\xEF\xBB\xBF", "\xE2\x80\xA8", "\xE2\x80\xA9", "\xC2\xA0", "\xC2\x80", "\xC2\x85", "\xC3\xA9", "\xDF\xBF", "\xE0\xA0\x80",
      "\xEF\xBF\xBD", "\xEF\xBF\xBE", "\xEF\xBF\xBF", "\xE2\x80\x8B", "\xE2\x80\xAE", "\xE2\x82\xAC", "\xF0\x9F\x98\x80",
      "\xF0\x90\x80\x80", "\xF4\x8F\xBF\xBF",
      // surrogates encoded as UTF-8 (CESU-8), overlong forms, beyond U+10FFFF, 5- and 6-byte forms
      "\xED\xA0\x80", "\xED\xBF\xBF", "\xED\xA0\xBD\xED\xB8\x80", "\xC0\x80", "\xC0\xAF", "\xC1\xBF", "\xE0\x80\x80", "\xE0\x9F\xBF",
      "\xF0\x80\x80\x80", "\xF0\x8F\xBF\xBF", "\xF4\x90\x80\x80", "\xF5\x80\x80\x80", "\xF8\x88\x80\x80\x80", "\xFC\x84\x80\x80\x80\x80",
      // truncated sequences and stray continuation bytes; UTF-16 byte-order marks
      "\xC2", "\xE2", "\xE2\x80", "\xF0\x9F", "\xF0\x9F\x98", "\x80", "\xBF", "\xA8", "\xFE\xFF", "\xFF\xFE", "\xFF\xFF", "\xFE",
      // line ends, terminal escape sequences, C0/C1 controls
      "\r\n", "\n\r", "\r", "\n", "\x1B[0m", "\x1B[31;1m", "\x1B]0;", "\x1B", "\x9B", std::string(1, '\0'), std::string(2, '\0'), "\x7F", "\x1F",
      "\x85", "\xA0", "\xAD",
      // markup
      "</script>", "<!--", "-->", "]]>", "&amp;", "<", ">", "'", "`",
      // text that looks like an escape sequence, a comment, a literal or structure of JSON itself
      "\\u2028", "\\u2029", "\\u0000", "\\u00e9", "\\u00E9", "\\u", "\\ud83d\\ude00", "\\x41", "\\x", "\\n", "\\\"", "\\\\", "\\", "\"", "\\/", "/",
      "/*", "*/", "//", "#", "null", "true", "false", "NaN", "Infinity", "-0", "1e5", "0x1F", ",", ":", "{", "}", "[", "]", "{}", "[]",
      "\"\"", " ", "\t",
      // printf / template directives
      "%s", "%n", "%%", "%02hhX", "${",
  };
  return t;
}

static std::string gen_bytes_plain() {
  static const std::string boosted = std::string("\"\\\x7F\b\f\n\r\t/", 9) + std::string(1, '\0') + "\x01\x1f\x80\x81\xc3\xa9\xff\xfe u0x";
  if (vg::chance(1, 8)) return "";
  size_t len = vg::scaled(24);
  std::string r(len, '\0');
  unsigned style = vg::below(3);
  for (size_t k = 0; k < len; k++) {
    unsigned pickm = style == 0 ? vg::below(3) : style == 1 ? 1 : vg::below(2) * 2;
    if (pickm == 0) r[k] = boosted[vg::below(boosted.size())];
    else if (pickm == 1) r[k] = static_cast<char>(vg::below(256));
    else r[k] = static_cast<char>(0x20 + vg::below(0x5F));
  }
  return r;
}

// strings and keys: bytes as above; one in five has 1..3 of the well-known sequences spliced in at the start, at the end
// or at a random position (also next to each other, also as the whole string)
static std::string gen_bytes() {
  std::string r = gen_bytes_plain();
  if (!vg::chance(1, 5)) return r;
  if (vg::chance(1, 4)) r.clear();
  size_t cnt = 1 + vg::below(3);
  for (size_t j = 0; j < cnt; j++) {
    const std::string& tok = tokens()[vg::below(tokens().size())];
    unsigned where = vg::below(3);
    size_t pos = where == 0 ? 0 : where == 1 ? r.size() : vg::below(r.size() + 1);
    r.insert(pos, tok);
  }
  ctx().cls("gen:string-with-well-known-sequence");
  return r;
}

static Node gen_node(int depth, int& budget) {
  budget--;
  bool leaf_only = depth >= 6 || budget <= 0;
  unsigned k = leaf_only ? vg::below(6) : vg::below(10);
  switch (k) {
    case 0: return Node::null();
    case 1: return Node::boolean(vg::coin());
    case 2: return Node::integer(gen_int());
    case 3: return Node::real(gen_float());
    case 4: return Node::str(gen_bytes());
    case 5: return vg::coin() ? Node::real(gen_float()) : Node::integer(gen_int());
    case 6:
    case 7: {
      Node n = Node::list();
      size_t cnt = vg::chance(1, 6) ? 0 : vg::scaled(6);
      for (size_t j = 0; j < cnt && budget > 0; j++) n.items.push_back(gen_node(depth + 1, budget));
      return n;
    }
    default: {
      Node n = Node::dict();
      size_t cnt = vg::chance(1, 6) ? 0 : vg::scaled(6);
      for (size_t j = 0; j < cnt && budget > 0; j++) {
        std::string key = vg::chance(1, 3) ? std::string(1, static_cast<char>('a' + vg::below(4))) : gen_bytes();
        Node v = gen_node(depth + 1, budget);
        n.add(key, std::move(v));
      }
      return n;
    }
  }
}

static Case gen_tree() {
  int budget = 4 + static_cast<int>(vg::scaled(40));
  Node n;
  if (vg::chance(3, 4)) {
    // a container at the root so that the tree exercises separators and nesting
    n = vg::coin() ? Node::list() : Node::dict();
    size_t cnt = vg::scaled(7);
    for (size_t j = 0; j < cnt && budget > 0; j++) {
      Node v = gen_node(1, budget);
      if (n.k == Node::LIST) n.items.push_back(std::move(v));
      else n.add(gen_bytes(), std::move(v));
    }
  } else {
    n = gen_node(0, budget);
  }
  Case c("tree");
  enc(n, c);
  return c;
}

static Case gen_chain() {
  // a chain of containers to depth <= 100 with a leaf (or an empty container) at the bottom
  size_t depth;
  switch (vg::below(6)) {
    case 0: depth = 100; break;
    case 1: depth = 50 + vg::below(50); break;
    default: depth = 2 + vg::scaled(28); break;
  }
  int budget = 3;
  Node cur = vg::chance(1, 3) ? (vg::coin() ? Node::list() : Node::dict()) : gen_node(6, budget);
  for (size_t k = 0; k < depth; k++) {
    Node up;
    if (vg::coin()) {
      up = Node::list();
      if (vg::chance(1, 5)) up.items.push_back(Node::integer(gen_int()));
      up.items.push_back(std::move(cur));
    } else {
      up = Node::dict();
      if (vg::chance(1, 5)) up.add("x", Node::real(gen_float()));
      up.add(vg::chance(1, 4) ? gen_bytes() : std::string("k"), std::move(cur));
    }
    cur = std::move(up);
  }
  Case c("chain");
  enc(cur, c);
  return c;
}

// A chain of `depth` containers above a leaf. Level kinds, sibling entries and keys are a pure function of
// (style, seed, level), so the case shrinks on its depth.
//   style 0: lists only, 1: dictionaries only, 2: alternating, 3: by hash, 4: runs of 1..64 levels of one kind
//   siblings: 0 none, 1: one level in 16, 2: one level in 4 carries a second entry (before or after the nested one)
static Node make_chain(size_t depth, unsigned style, uint64_t seed, unsigned siblings, const std::string& key, Node leaf) {
  Node cur = std::move(leaf);
  bool run_kind = seed & 1;
  size_t run_left = 0;
  for (size_t k = depth; k-- > 0;) { // k = level of the container being built, 0 = root
    uint64_t h = mix(seed, k);
    bool is_list;
    switch (style) {
      case 0: is_list = true; break;
      case 1: is_list = false; break;
      case 2: is_list = (k & 1) == (seed & 1); break;
      case 3: is_list = (h >> 7) & 1; break;
      default:
        if (run_left == 0) {
          run_left = 1 + ((h >> 9) & 63);
          run_kind = !run_kind;
        }
        run_left--;
        is_list = run_kind;
        break;
    }
    bool sib = siblings == 0 ? false : siblings == 1 ? ((h >> 20) & 15) == 0 : ((h >> 20) & 3) == 0;
    bool sib_first = (h >> 30) & 1;
    Node up;
    if (is_list) {
      up = Node::list();
      if (sib && sib_first) up.items.push_back(Node::integer(static_cast<int64_t>(k)));
      up.items.push_back(std::move(cur));
      if (sib && !sib_first) up.items.push_back(Node::str("s"));
    } else {
      up = Node::dict();
      if (sib && sib_first) up.add("a", Node::real(0.5));
      up.add(((h >> 40) & 7) == 0 ? key : std::string("k"), std::move(cur));
      if (sib && !sib_first) up.add("z", Node::null());
    }
    cur = std::move(up);
  }
  return cur;
}

static const uint64_t kAllMasks = ~0ULL;
static uint64_t non_format_masks() {
  uint64_t m = 0;
  for (uint32_t k = 0; k < 64; k++)
    if (!(k & kFormat)) m |= 1ULL << k;
  return m;
}
// Which option masks a chain of this depth is evaluated under. The serializer returns strings by value and copies the
// text of a sub-tree about three times per level: one serialization costs ~9 x depth^2 bytes of copying without FORMAT
// and ~4 x depth^3 with FORMAT (whose text is ~2 x depth^2 bytes long), three serializations per mask.
static uint64_t masks_for_depth(size_t depth, uint64_t pick) {
  if (depth <= 120) return kAllMasks;
  uint64_t m = non_format_masks();
  // up to 400 levels: all 32 combinations without FORMAT, FORMAT alone and one more combination with FORMAT
  if (depth <= 400) return m | (1ULL << kFormat) | (1ULL << ((pick & 63) | kFormat));
  // the standard mask, SORT_DICT_KEYS, everything-but-FORMAT, and four more combinations
  m = (1ULL << 0) | (1ULL << kSort) | (1ULL << (63 & ~kFormat));
  for (unsigned j = 0; j < 4; j++) m |= 1ULL << (((pick >> (8 * j)) & 63) & ~kFormat);
  return m;
}

static Case deep_case(size_t depth, unsigned style, uint64_t seed, unsigned siblings, const std::string& key, Node leaf, uint64_t masks) {
  Case c("deep");
  c.N(masks);
  Node n = make_chain(depth, style, seed, siblings, key, std::move(leaf));
  enc(n, c);
  // take the chain apart from the top: the default destructor of the model recurses once per level, and this runs on
  // the main thread's ordinary stack
  while (true) {
    Node* next = nullptr;
    for (auto& ch : n.items)
      if (ch.k == Node::LIST || ch.k == Node::DICT) next = &ch;
    for (auto& e : n.ents)
      if (e.second.k == Node::LIST || e.second.k == Node::DICT) next = &e.second;
    if (!next) break;
    Node t = std::move(*next);
    n = std::move(t);
  }
  return c;
}

static Case gen_deep() {
  static const int max_depth = ctx().thorough() ? 10000 : 5200;
  size_t depth;
  switch (vg::below(4)) {
    case 0: {
      // around round numbers, decimal and binary
      static const std::vector<int64_t> quick_bases = {128, 200, 255, 256, 500, 512, 999, 1000, 1001, 1024, 1500, 2000, 2048, 2500, 3000, 4000, 4096, 5000};
      static const std::vector<int64_t> more_bases = {6000, 7000, 8192, 9998};
      int64_t base = (ctx().thorough() && vg::chance(1, 5)) ? vg::pick(more_bases) : vg::pick(quick_bases);
      depth = static_cast<size_t>(std::min<int64_t>(max_depth, base + vg::range(-2, 2)));
      break;
    }
    case 1: depth = 101 + vg::below(max_depth - 100); break;
    default: depth = 101 + vg::scaled(1900); break;
  }
  unsigned style = vg::below(5), siblings = vg::below(3);
  uint64_t seed = vg::u64();
  std::string key = vg::chance(1, 2) ? gen_bytes() : std::string("key");
  int budget = 3;
  Node leaf = vg::chance(1, 3) ? (vg::coin() ? Node::list() : Node::dict()) : gen_node(6, budget);
  return deep_case(depth, style, seed, siblings, key, std::move(leaf), masks_for_depth(depth, vg::u64()));
}

// fixed depths x level-kind styles x {scalar leaf, empty container at the bottom}
static void enum_deep(Enum& e) {
  std::vector<size_t> depths = {101, 250, 500, 999, 1000, 1001, 1500, 2000, 3000, 5000};
  if (e.thorough()) depths.insert(depths.end(), {700, 7000, 10000});
  uint64_t idx = 0;
  for (size_t depth : depths)
    for (unsigned style = 0; style < 4; style++)
      for (unsigned leaf = 0; leaf < 2; leaf++) {
        if (e.stop) return;
        if (depth > 1001 && leaf != (style == 3 ? 1u : 0u)) continue; // the taller ones: one leaf per style
        if (!e.mine(idx++)) continue;
        uint64_t masks = masks_for_depth(depth, 0x3F2A1504 + depth);
        // thorough: FORMAT alone also on taller chains (2 MB of text at depth 1001, ~12 GB of copying)
        if (e.thorough() && depth > 400 && depth <= 1001 && style == 2 && leaf == 0) masks |= 1ULL << kFormat;
        e.exec(deep_case(depth, style, 0x9E3779B9 + depth, style == 3 ? 1 : 0, "key", leaf ? Node::dict() : Node::integer(7), masks));
      }
  e.complete(cat("chains of ", depths.size(), " fixed depths (101 .. ", depths.back(), ", among them 999, 1000, 1001) x {lists, dictionaries, alternating, mixed by hash with sibling entries} x {integer, empty dictionary} at the bottom (beyond depth 1001 one of the two per style)"));
}

// ---------------------------------------------------------------- assign: copy assignment onto a live target
//
// "copies are deep and compare equal to their source" for the copy made by operator=(const JSON&) when the left-hand
// side already holds a value: whatever the target held before (null, scalar, string, list, a dictionary with keys the
// source has / lacks, nested dictionaries), afterwards it equals the source, is structurally the source's model, and
// neither object sees the other's later mutation or destruction.
// Case: tokens of the target tree followed by tokens of the source tree.

static std::string pair_class(const Node& t, const Node& s) {
  std::string r = std::string(jt::kind_name(t.k)) + "<-" + jt::kind_name(s.k);
  if (t.k == Node::DICT && s.k == Node::DICT) {
    size_t only_target = 0, shared = 0;
    for (const auto& e : t.ents) (s.has_key(e.first) ? shared : only_target)++;
    r += std::string(only_target ? ":target-has-extra-keys" : ":target-keys-subset") + (shared ? ":shared-keys" : "");
  }
  return r;
}

static void check_assigned(const JSON& a, const JSON& v, const Node& src_model, const char* what, const std::string& cls) {
  std::string sv = v.serialize(kSort), sa = a.serialize(kSort);
  VCHECK(a == v, "assign-not-equal:" + cls, what, ": copy == source is false; copy = ", clip(sa), " source = ", clip(sv));
  VCHECK(v == a, "assign-not-equal:" + cls, what, ": source == copy is false; copy = ", clip(sa), " source = ", clip(sv));
  VCHECK(!(a != v), "assign-not-equal:" + cls, what, ": copy != source is true; copy = ", clip(sa), " source = ", clip(sv));
  jt::Diff d = jt::diff(jt::from_json(a), src_model, jt::SAME_KIND_SIX_DIGITS);
  VCHECK(d.none(), "assign-differs:" + d.cls + ":" + cls, what, ": the assigned copy differs from its source at ", d.text, "; copy = ", clip(sa), " source = ", clip(sv));
  VCHECK(sa == sv, "assign-serializes-differently:" + cls, what, ": copy serializes to ", clip(sa), " source to ", clip(sv));
}

static void run_assign(const Case& c) {
  Dec dec{c};
  Node T = dec.node(), S = dec.node();
  if (dec.ni != c.n.size() || dec.si != c.s.size()) throw std::logic_error("case: trailing tokens");
  std::string cls = pair_class(T, S);
  const JSON v = jt::build(S);
  const std::string before = v.serialize(kSort);
  auto source_intact = [&](const char* what) {
    jt::Diff d = jt::diff(jt::from_json(v), S, jt::SAME_KIND_SIX_DIGITS);
    VCHECK(d.none(), "assign-damaged-source:" + cls, what, ": the source changed at ", d.text);
    VCHECK(v.serialize(kSort) == before, "assign-damaged-source:" + cls, what, ": the source serializes to ", clip(v.serialize(kSort)), " instead of ", clip(before));
  };
  {
    // 1. target = source; then every container of the copy is mutated and the copy destroyed
    JSON t = jt::build(T);
    t = v;
    check_assigned(t, v, S, "target = source", cls);
    mutate_all(t);
    source_intact("after mutating the assigned copy");
  }
  source_intact("after destroying the assigned copy");
  {
    // 2. the other direction: the source is mutated and destroyed, the copy must not notice
    JSON t = jt::build(T);
    {
      JSON src = jt::build(S);
      t = src;
      mutate_all(src);
      jt::Diff d = jt::diff(jt::from_json(t), S, jt::SAME_KIND_SIX_DIGITS);
      VCHECK(d.none(), "assign-shares-state:" + cls, "mutating the source after `target = source` changed the copy at ", d.text);
    }
    check_assigned(t, v, S, "target = source (source destroyed afterwards)", cls);
  }
  {
    // 3. the target is an element of a list / a value of a dictionary; its siblings are untouched
    JSON l = JSON::list();
    l.emplace_back(jt::build(T));
    l.emplace_back(jt::build(T));
    l.at(0) = v;
    check_assigned(l.at(0), v, S, "list.at(0) = source", cls + ":in-list");
    jt::Diff d = jt::diff(jt::from_json(l.at(1)), T, jt::SAME_KIND_SIX_DIGITS);
    VCHECK(d.none() && l.size() == 2, "assign-touches-sibling:" + cls, "assigning to list.at(0) changed list.at(1) at ", d.text);
    JSON m = JSON::dict();
    m.emplace("k", jt::build(T));
    m.emplace("other", jt::build(T));
    m.at("k") = v;
    check_assigned(m.at("k"), v, S, "dict.at(\"k\") = source", cls + ":in-dict");
    d = jt::diff(jt::from_json(m.at("other")), T, jt::SAME_KIND_SIX_DIGITS);
    VCHECK(d.none() && m.size() == 2, "assign-touches-sibling:" + cls, "assigning to dict.at(\"k\") changed dict.at(\"other\") at ", d.text);
  }
  {
    // 4. a second assignment onto the same object: back to (a fresh copy of) what it held at first
    JSON t = jt::build(T);
    const JSON first = jt::build(T);
    t = v;
    t = first;
    check_assigned(t, first, T, "target = source; target = former value", pair_class(S, T) + ":second-assignment");
  }
  source_intact("at the end");

  jt::Stats st;
  jt::stats_into(S, st);
  jt::stats_into(T, st);
  Ctx& x = ctx();
  x.cls("assign:" + cls);
  if (T.k == Node::DICT && S.k == Node::DICT) {
    bool extra = false;
    for (const auto& e : T.ents) extra |= !S.has_key(e.first);
    if (extra) x.nontrivial_case(); // the target holds a key the source lacks
  }
}

// a structural variation of `n`: the same kind with entries dropped / added / replaced (recursively), so that a
// container target shares part of its shape and keys with the source
static Node gen_node(int depth, int& budget);
static std::string gen_bytes();
static Node gen_variation(const Node& n, int depth, int& budget) {
  budget--;
  if (budget <= 0 || depth > 6) return vg::coin() ? n : Node::null();
  switch (n.k) {
    case Node::DICT: {
      Node r = Node::dict();
      unsigned style = vg::below(4); // 0: mixed, 1: keep all keys, 2: drop many, 3: disjoint-ish
      for (const auto& e : n.ents) {
        unsigned q = vg::below(6);
        bool drop = style == 1 ? false : style == 2 ? q < 4 : style == 3 ? q < 5 : q < 2;
        if (drop) continue;
        if (q == 5) r.add(e.first, gen_node(depth + 1, budget));
        else if (q >= 3) r.add(e.first, gen_variation(e.second, depth + 1, budget));
        else r.add(e.first, e.second);
      }
      size_t extra = vg::below(4);
      for (size_t j = 0; j < extra && budget > 0; j++) {
        std::string key = vg::chance(2, 3) ? std::string(1, static_cast<char>('a' + vg::below(6))) : gen_bytes();
        r.add(key, vg::coin() ? gen_node(depth + 1, budget) : Node::integer(vg::range(0, 9)));
      }
      return r;
    }
    case Node::LIST: {
      Node r = Node::list();
      for (const auto& ch : n.items) {
        unsigned q = vg::below(6);
        if (q == 0) continue;
        if (q == 1) r.items.push_back(gen_node(depth + 1, budget));
        else if (q <= 3) r.items.push_back(gen_variation(ch, depth + 1, budget));
        else r.items.push_back(ch);
      }
      if (vg::chance(1, 3) && budget > 0) r.items.push_back(gen_node(depth + 1, budget));
      return r;
    }
    default:
      return vg::coin() ? n : gen_node(6, budget);
  }
}

static Node gen_rooted(int& budget) {
  // a dictionary at the root three times out of four (dictionaries are where assignment has keys to reconcile)
  unsigned q = vg::below(8);
  if (q >= 6) return gen_node(0, budget);
  Node n = q == 5 ? Node::list() : Node::dict();
  size_t cnt = vg::scaled(7);
  for (size_t j = 0; j < cnt && budget > 0; j++) {
    Node v = vg::chance(1, 3) ? Node::integer(vg::range(0, 9)) : gen_node(1, budget);
    if (n.k == Node::LIST) n.items.push_back(std::move(v));
    else n.add(vg::chance(2, 3) ? std::string(1, static_cast<char>('a' + vg::below(6))) : gen_bytes(), std::move(v));
  }
  return n;
}

static Case gen_assign() {
  int budget = 4 + static_cast<int>(vg::scaled(30));
  Node S = gen_rooted(budget);
  Node T;
  int b2 = 4 + static_cast<int>(vg::scaled(30));
  switch (vg::below(8)) {
    case 0: T = gen_node(6, b2); break; // a leaf: null, bool, number, string
    case 1: T = gen_rooted(b2); break; // an unrelated tree
    case 2: T = gen_variation(gen_rooted(b2), 0, b2); break;
    default: T = gen_variation(S, 0, b2); break; // shares part of its shape and keys with the source
  }
  if (vg::chance(1, 8)) std::swap(S, T);
  Case c("assign");
  enc(T, c);
  enc(S, c);
  return c;
}

// every ordered pair (target, source) over a small universe: leaves, lists, and every dictionary over the keys a, b, c
// whose values are 1, {"x":1} or {"y":2} (64 dictionaries: every subset/superset/overlap relation between the key sets
// of target and source, one level down too)
static void enum_assign(Enum& e) {
  std::vector<Node> u;
  u.push_back(Node::null());
  u.push_back(Node::boolean(true));
  u.push_back(Node::integer(0));
  u.push_back(Node::real(1.5));
  u.push_back(Node::str(""));
  u.push_back(Node::str("a"));
  u.push_back(Node::list());
  Node inner[3];
  inner[0] = Node::integer(1);
  inner[1] = Node::dict();
  inner[1].add("x", Node::integer(1));
  inner[2] = Node::dict();
  inner[2].add("y", Node::integer(2));
  {
    Node l = Node::list();
    l.items.push_back(Node::integer(1));
    u.push_back(l);
    l.items.push_back(inner[1]);
    u.push_back(l);
    Node l2 = Node::list();
    l2.items.push_back(inner[2]);
    u.push_back(l2);
  }
  for (unsigned code = 0; code < 64; code++) {
    Node d = Node::dict();
    for (unsigned k = 0; k < 3; k++) {
      unsigned sel = (code >> (2 * k)) & 3;
      if (sel) d.add(std::string(1, static_cast<char>('a' + k)), inner[sel - 1]);
    }
    u.push_back(d);
  }
  uint64_t idx = 0;
  for (const auto& t : u)
    for (const auto& s : u) {
      if (e.stop) return;
      if (!e.mine(idx++)) continue;
      Case c("assign");
      enc(t, c);
      enc(s, c);
      e.exec(c);
    }
  e.complete(cat("every ordered (target, source) pair over ", u.size(), " values: null, bool, int, float, two strings, four lists and all 64 dictionaries over the keys a,b,c with values 1 / {\"x\":1} / {\"y\":2}"));
}

// ---------------------------------------------------------------- after_reject: the round trip after other parses on the same thread
//
// The statement quantifies over values and options only: parse(serialize(v, o)) == v must hold whatever the thread
// parsed before, including texts the parser rejected half-way (inside a string token, a number, a container).
// Case: n = [mask, P, then P x (kind, a, b), then the tree tokens], s = [texts of the literal preludes..., tree strings...]
//   kind 0: the next literal text                                   (a = strict flag)
//   kind 1: serialize(v, b & 63) cut after (b >> 8) mod (len+1) bytes (a = strict flag): input ending anywhere, often mid-string
//   kind 2: serialize(v, b & 63) with the byte at (b >> 16) mod len replaced by byte (b >> 8) & 255 (a = strict flag)
// Parsing a prelude may succeed or throw std::exception; neither is asserted here (C05 owns the parser's error behaviour).

static void run_after_reject(const Case& c) {
  uint32_t mask = static_cast<uint32_t>(c.u(0)) & 63;
  size_t P = c.u(1);
  if (P > 16) throw std::logic_error("case: too many preludes");
  Dec dec{c};
  dec.ni = 2 + 3 * P;
  size_t literals = 0;
  for (size_t k = 0; k < P; k++) literals += c.u(2 + 3 * k) == 0;
  dec.si = literals;
  Node model = dec.node();
  if (dec.ni != c.n.size() || dec.si != c.s.size()) throw std::logic_error("case: trailing tokens");
  jt::Stats st;
  jt::stats_into(model, st);
  JSON v = jt::build(model);

  std::vector<std::pair<std::string, bool>> texts;
  size_t lit = 0;
  for (size_t k = 0; k < P; k++) {
    uint64_t kind = c.u(2 + 3 * k), a = c.u(3 + 3 * k), b = c.u(4 + 3 * k);
    std::string t;
    if (kind == 0) {
      t = c.str(lit++);
    } else if (kind == 1) {
      t = v.serialize(b & 63);
      t.resize((b >> 8) % (t.size() + 1));
    } else if (kind == 2) {
      t = v.serialize(b & 63);
      if (!t.empty()) t[(b >> 16) % t.size()] = static_cast<char>((b >> 8) & 0xFF);
    } else {
      throw std::logic_error("case: bad prelude kind");
    }
    texts.emplace_back(std::move(t), (a & 1) != 0);
  }
  uint64_t rejected = 0, accepted = 0;
  std::function<void()> prelude = [&]() {
    for (const auto& t : texts) {
      try {
        JSON::parse(t.first, t.second);
        accepted++;
      } catch (const std::exception&) {
        rejected++;
      }
    }
  };
  Problem p = check_mask(model, v, mask, st.has_float, &prelude);
  if (!p.none()) {
    // does the same (value, mask) fail without the prelude? then it is the plain round-trip defect
    Problem alone = check_mask(model, v, mask, st.has_float);
    char mb[16];
    snprintf(mb, sizeof(mb), "%02x", mask);
    std::string shown;
    for (const auto& t : texts) shown += (shown.empty() ? "" : ", ") + clip(t.first, 40);
    VFAIL(p.clause + (alone.none() ? ":only-after-other-parses" : "") + ":opts=" + mb, p.msg, "; parsed before on the same thread: ", shown);
  }
  Ctx& x = ctx();
  if (rejected && st.nodes > 1) x.nontrivial_case();
  x.cls(rejected ? "after_reject:some-prelude-rejected" : "after_reject:no-prelude-rejected");
}

static std::string gen_prelude_text() {
  static const std::vector<std::string> contexts = {"", "", "[", "{", "{\"k\":", "[1,", "[\"ok\",", "{\"a\":1,", " \n[ ", "[[{\"q\":[", "{\"a\":\"b\",\"c\":"};
  static const std::string body_alphabet = "abcxyz019 _-:,{}[]/\x01\x7f\x80\xff";
  std::string pre = contexts[vg::below(contexts.size())];
  switch (vg::below(10)) {
    case 0:
    case 1:
    case 2:
    case 3:
    case 4: {
      // ends (or goes wrong) inside a string token, as a value or as a dictionary key
      std::string body = vg::bytes_from(body_alphabet, vg::below(3) ? 1 + vg::below(12) : 0);
      if (vg::chance(1, 4)) body += vg::pick<std::string>({"\\n", "\\\"", "\\\\", "\\x41", "\\u0041", "\\t"}) + vg::bytes_from(body_alphabet, vg::below(4));
      std::string tail = vg::pick<std::string>({"\\q", "\\x4", "\\x", "\\xZ1", "\\u12", "\\u", "\\u00G0", "\\u1234", "\\", "", "", "\\a", "\\0", "\\U0041"});
      std::string close = vg::chance(1, 4) ? "\"" : "";
      return pre + "\"" + body + tail + close;
    }
    case 5:
    case 6:
      // goes wrong outside a string token
      return pre + vg::pick<std::string>({"nul", "tru", "fals", "}", "]", "1 2", "{\"a\" 1}", "[1 2]", "@", "", "-", "0x", "1e", "1.", "//", "/*", "{\"a\":}", "{,}", "[,]", ":", "\"a\":", "[1,]x", "{1:2}", "+1", ".5", "--1"});
    case 7:
      // a valid text (accepted; may leave state behind just as well)
      return vg::pick<std::string>({"[]", "{}", "\"ok\"", "{\"a\":\"b\"}", "[\"x\",1]", "null", "0", "-1.5e3", "[[[]]]", "\"\\u00e9\""});
    case 8:
      return pre + gen_bytes();
    default:
      return gen_bytes();
  }
}

static Case gen_after_reject() {
  int budget = 3 + static_cast<int>(vg::scaled(24));
  Node n;
  if (vg::chance(3, 4)) {
    n = vg::coin() ? Node::list() : Node::dict();
    size_t cnt = 1 + vg::scaled(5);
    for (size_t j = 0; j < cnt && budget > 0; j++) {
      Node v = vg::chance(1, 3) ? Node::str(gen_bytes()) : gen_node(1, budget);
      if (n.k == Node::LIST) n.items.push_back(std::move(v));
      else n.add(gen_bytes(), std::move(v));
    }
  } else {
    n = vg::coin() ? Node::str(gen_bytes()) : gen_node(0, budget);
  }
  Case c("after_reject");
  c.N(vg::chance(1, 3) ? 0 : vg::below(64));
  size_t P = vg::chance(1, 10) ? 0 : 1 + vg::below(3);
  c.N(P);
  static const std::string repl = std::string("\"\\xu{}[],:a \n\xff", 14) + std::string(1, '\0');
  for (size_t k = 0; k < P; k++) {
    unsigned q = vg::below(10);
    uint64_t strict = vg::chance(1, 4) ? 1 : 0;
    if (q < 6) {
      c.N(0).N(strict).N(0);
      c.S(gen_prelude_text());
    } else if (q < 9) {
      c.N(1).N(strict).N(vg::below(64) | (vg::below(1u << 20) << 8));
    } else {
      c.N(2).N(strict).N(vg::below(64) | (static_cast<uint64_t>(static_cast<unsigned char>(repl[vg::below(repl.size())])) << 8) | (vg::below(1u << 20) << 16));
    }
  }
  enc(n, c);
  return c;
}

// every prelude of a fixed list x every tree of a fixed list (strings as root, list item, dictionary value and key)
static void enum_after_reject(Enum& e) {
  std::vector<std::string> preludes = {"\"abc", "\"abc\\q", "\"abc\\x4", "\"abc\\u12", "[\"k\\", "{\"key", "{\"a\":\"v\\u1234", "[1,\"two\\xZZ\"]", "\"\\", "[\"a\",\"b", "nul", "[1 2]", "{\"a\":\"b\"}", "\"", "{\"a\":1,\"bcd\\q\":2}"};
  std::vector<Node> trees;
  trees.push_back(Node::str("plain"));
  trees.push_back(Node::str(""));
  {
    Node l = Node::list();
    l.items.push_back(Node::integer(1));
    l.items.push_back(Node::str("s"));
    trees.push_back(l);
    Node d = Node::dict();
    d.add("key", Node::str("value"));
    trees.push_back(d);
    Node d2 = Node::dict();
    d2.add("n", Node::integer(5));
    trees.push_back(d2);
    Node ll = Node::list();
    ll.items.push_back(d);
    ll.items.push_back(Node::str("\x01\xff"));
    trees.push_back(ll);
    trees.push_back(Node::integer(7));
  }
  uint64_t idx = 0;
  for (const auto& pt : preludes)
    for (uint64_t strict = 0; strict < 2; strict++)
      for (const auto& t : trees)
        for (uint64_t mask : {0u, 4u, 8u, 63u}) {
          if (e.stop) return;
          if (!e.mine(idx++)) continue;
          Case c("after_reject");
          c.N(mask).N(1).N(0).N(strict).N(0);
          c.S(pt);
          enc(t, c);
          e.exec(c);
        }
  e.complete(cat(preludes.size(), " fixed texts (rejected inside a string token: bad escape, incomplete \\x / \\u, end of input; rejected elsewhere; accepted) x default/strict x ", trees.size(), " small trees x 4 option masks"));
}

// ---------------------------------------------------------------- fixed regression values (enumerated first)

static void enum_fixed(Enum& e) {
  std::vector<Node> vals;
  for (double d : {0.0, -0.0, 1.4, -10.5, 1e20, 2e6, 1e-7, 100000.0, 999999.5, 1.79769e308, 2.22508e-308, 1e6, 1e5, 1e15, 1e16, 0.00001, DBL_MAX, DBL_MIN})
    vals.push_back(Node::real(d));
  for (int64_t i : {INT64_MIN, INT64_MAX, (int64_t)0, (int64_t)-1, (int64_t)1, (int64_t)-3214, (int64_t)134}) vals.push_back(Node::integer(i));
  vals.push_back(Node::null());
  vals.push_back(Node::boolean(true));
  vals.push_back(Node::boolean(false));
  vals.push_back(Node::list());
  vals.push_back(Node::dict());
  vals.push_back(Node::str(""));
  {
    std::string all;
    for (int b = 0; b < 256; b++) all += static_cast<char>(b);
    vals.push_back(Node::str(all));
    Node d = Node::dict();
    d.add(all, Node::str(all));
    d.add("", Node::list());
    vals.push_back(d);
  }
  // every single byte as a string and as a key
  for (int b = 0; b < 256; b++) {
    Node d = Node::dict();
    d.add(std::string(1, static_cast<char>(b)), Node::str(std::string(1, static_cast<char>(b))));
    vals.push_back(d);
  }
  // every well-known sequence alone, at the start, at the end and in the middle of a text, and every ordered pair of
  // them next to each other (a truncated start followed by a continuation byte forms the complete sequence), as string and key
  {
    const auto& tk = tokens();
    auto both = [&](const std::string& t) {
      Node d = Node::dict();
      d.add(t, Node::str(t));
      vals.push_back(d);
    };
    for (const auto& t : tk) {
      both(t);
      both(t + "a");
      both("a" + t);
      both("ab" + t + "cd");
    }
    // ordered pairs: one dictionary per first sequence, holding every second sequence
    for (const auto& t : tk) {
      Node d = Node::dict();
      for (const auto& u : tk) d.add(t + u, Node::str(t + u));
      vals.push_back(d);
    }
  }
  // integers around every change of the digit count, both radices, both signs: +-(10^k + d), k = 1..18, and
  // +-(16^k + d), k = 1..15, for every |d| <= dmax, plus the neighbourhood of INT64_MIN / INT64_MAX; lists of <= 129 integers
  const int64_t dmax = ctx().thorough() ? 5000 : 64;
  {
    auto push_run = [&](int64_t base, bool negate) {
      Node l = Node::list();
      for (int64_t d = -dmax; d <= dmax; d++) {
        int64_t v = base + d;
        l.items.push_back(Node::integer(negate ? -v : v));
        if (l.items.size() == 129 || d == dmax) {
          vals.push_back(l);
          l = Node::list();
        }
      }
    };
    for (unsigned k = 1; k <= 18; k++)
      for (int neg = 0; neg < 2; neg++) push_run(pow_int(10, k), neg);
    for (unsigned k = 1; k <= 15; k++)
      for (int neg = 0; neg < 2; neg++) push_run(pow_int(16, k), neg);
    Node hi = Node::list(), lo = Node::list();
    for (int64_t d = 0; d <= 128; d++) {
      hi.items.push_back(Node::integer(INT64_MAX - d));
      lo.items.push_back(Node::integer(INT64_MIN + d));
    }
    vals.push_back(hi);
    vals.push_back(lo);
  }
  uint64_t idx = 0;
  for (const auto& v : vals) {
    if (e.stop) break;
    if (!e.mine(idx++)) continue;
    Case c("tree");
    enc(v, c);
    e.exec(c);
    Node l = Node::list();
    l.items.push_back(v);
    l.items.push_back(Node::dict());
    Case c2("tree");
    enc(l, c2);
    e.exec(c2);
  }
  e.complete(cat("fixed value list (boundary floats and ints, every integer +-(10^k + d), k = 1..18, and +-(16^k + d), k = 1..15, |d| <= ", dmax, ", INT64_MAX - d and INT64_MIN + d for d <= 128, every byte value as string and key, ", tokens().size(), " well-known multi-byte sequences alone / at the start / end / middle of a text and all ordered pairs of them as string and key, empty containers), bare and inside a list, x 64 option masks"));
}

int main(int argc, char** argv) {
  std::vector<SubCheck> checks;
  checks.push_back({"tree", run_tree, gen_tree, 16000, 300000, 100, enum_fixed});
  checks.push_back({"chain", run_tree, gen_chain, 480, 12000, 100, nullptr});
  checks.push_back({"deep", run_deep, gen_deep, 48, 1200, 100, enum_deep});
  checks.push_back({"assign", run_assign, gen_assign, 24000, 400000, 100, enum_assign});
  checks.push_back({"after_reject", run_after_reject, gen_after_reject, 24000, 400000, 100, enum_after_reject});
  return main_(argc, argv, checks);
}
