// C04 - JSON serialize -> parse is the identity for every value and every option set; standard-mode output is
// standard JSON (strict mode + an independent reader agree); copies are deep and compare equal to their source.
//
// A case is a value tree (token stream in Case.n, byte strings in Case.s). The oracle builds the phosg::JSON value
// through the public constructors, and for each of the 64 SerializeOption masks checks
//   parse-rejects-own-output     JSON::parse(serialize(v,o)) throws
//   value-changed                the parsed value differs from the model (same int/float kind, ints exact, floats as
//                                %.6g text, strings/keys byte-equal, lists element-wise, dicts key-wise)
//   equal-operator               parsed == v is false although the tree holds no float
//   reserialize-differs          serialize(parsed, o|SORT) != serialize(v, o|SORT)
//   for o within {FORMAT, SORT_DICT_KEYS}:
//   strict-rejects-standard-output / strict-value-changed     strict mode must read the same value
//   standard:ref-rejects / standard:ref-value                 the independent RFC 8259 reader (harness/c05/refjson.hh)
//                                                             must read the same value (Python's json does the same
//                                                             in the c04_py stage)
// and once per tree the copy clauses (copy-*).
// Subcheck `assign`: a case is a PAIR (target tree, source tree); `target = source` (copy assignment onto an object that
// already holds a value of any kind - in particular a dictionary sharing some keys with the source) must give a value
// equal to the source and independent of it in both directions (assign-*).
// Subcheck `after_reject`: a case is [texts parsed before (mostly malformed; the outcome of parsing them is not
// asserted), one tree, one option mask]; the round-trip clauses above must hold whatever the same thread parsed before.
// The signature carries the kind of the smallest sub-tree that fails on its own and the smallest failing mask.
#include <float.h>
#include <math.h>

#include <phosg/JSON.hh>

#include "c04/tree.hh"
#include "c05/refjson.hh"
#include "verif.hh"

using namespace verif;
using jt::Node;
using phosg::JSON;

// ---------------------------------------------------------------- Case <-> tree

static void enc(const Node& n, Case& c) {
  c.N(n.k);
  switch (n.k) {
    case Node::NUL: break;
    case Node::BOOL: c.N(n.b ? 1 : 0); break;
    case Node::INT: c.I(n.i); break;
    case Node::FLT: c.D(n.d); break;
    case Node::STR: c.S(n.s); break;
    case Node::LIST:
      c.N(n.items.size());
      for (const auto& ch : n.items) enc(ch, c);
      break;
    case Node::DICT:
      c.N(n.ents.size());
      for (const auto& e : n.ents) {
        c.S(e.first);
        enc(e.second, c);
      }
      break;
  }
}

struct Dec {
  const Case& c;
  size_t ni = 0, si = 0;
  Node node(int depth = 0) {
    if (depth > 400) throw std::logic_error("case: tree too deep");
    uint64_t k = c.u(ni++);
    switch (k) {
      case Node::NUL: return Node::null();
      case Node::BOOL: return Node::boolean(c.u(ni++) != 0);
      case Node::INT: return Node::integer(c.i(ni++));
      case Node::FLT: {
        double d = c.d(ni++);
        int cl = fpclassify(d);
        if (cl != FP_NORMAL && cl != FP_ZERO) throw std::logic_error("case: float outside the domain (finite normal doubles and zero)");
        return Node::real(d);
      }
      case Node::STR: return Node::str(c.str(si++));
      case Node::LIST: {
        uint64_t cnt = c.u(ni++);
        if (cnt > 100000) throw std::logic_error("case: list too long");
        Node n = Node::list();
        for (uint64_t j = 0; j < cnt; j++) n.items.push_back(node(depth + 1));
        return n;
      }
      case Node::DICT: {
        uint64_t cnt = c.u(ni++);
        if (cnt > 100000) throw std::logic_error("case: dict too long");
        Node n = Node::dict();
        for (uint64_t j = 0; j < cnt; j++) {
          std::string key = c.str(si++);
          Node v = node(depth + 1);
          n.add(key, std::move(v)); // a repeated key is dropped: dictionaries have unique keys
        }
        return n;
      }
    }
    throw std::logic_error("case: bad kind token");
  }
};

static Node decode(const Case& c) {
  Dec d{c};
  Node n = d.node();
  if (d.ni != c.n.size() || d.si != c.s.size()) throw std::logic_error("case: trailing tokens");
  return n;
}

// ---------------------------------------------------------------- oracle for one (value, mask)

static const uint32_t kFormat = JSON::SerializeOption::FORMAT;
static const uint32_t kSort = JSON::SerializeOption::SORT_DICT_KEYS;
static const uint32_t kStandardBits = kFormat | kSort;

struct Problem {
  std::string clause, msg;
  bool none() const { return clause.empty(); }
};

static std::string clip(const std::string& t, size_t n = 160) { return jt::show_bytes(t.size() > n ? t.substr(0, n) : t) + (t.size() > n ? "..." : ""); }

static Problem check_mask(const Node& model, const JSON& v, uint32_t mask, bool has_float, const std::function<void()>* before_parse = nullptr) {
  std::string t = v.serialize(mask);
  JSON p;
  try {
    if (before_parse) (*before_parse)();
    p = JSON::parse(t);
  } catch (const std::exception& e) {
    return {"parse-rejects-own-output", cat("JSON::parse threw ", typeid(e).name(), " (", e.what(), ") on serialize(v, 0x", std::hex, mask, ") = ", clip(t))};
  }
  Node back = jt::from_json(p);
  jt::Diff d = jt::diff(back, model, jt::SAME_KIND_SIX_DIGITS);
  if (!d.none()) return {"value-changed:" + d.cls, cat("parse(serialize(v, 0x", std::hex, mask, ")) differs from v at ", d.text, "; text = ", clip(t))};
  if (!has_float && !(p == v)) return {"equal-operator", cat("parse(serialize(v, 0x", std::hex, mask, ")) == v is false; text = ", clip(t))};
  std::string a = p.serialize(mask | kSort), b = v.serialize(mask | kSort);
  if (a != b) return {"reserialize-differs", cat("serialize(parse(t), o|SORT) = ", clip(a), " but serialize(v, o|SORT) = ", clip(b), " (o = 0x", std::hex, mask, ")")};
  if ((mask & ~kStandardBits) == 0) {
    JSON ps;
    try {
      if (before_parse) (*before_parse)();
      ps = JSON::parse(t, true);
    } catch (const std::exception& e) {
      return {"strict-rejects-standard-output", cat("strict JSON::parse threw ", typeid(e).name(), " (", e.what(), ") on serialize(v, 0x", std::hex, mask, ") = ", clip(t))};
    }
    jt::Diff ds = jt::diff(jt::from_json(ps), model, jt::SAME_KIND_SIX_DIGITS);
    if (!ds.none()) return {"strict-value-changed:" + ds.cls, cat("strict parse(serialize(v, 0x", std::hex, mask, ")) differs at ", ds.text, "; text = ", clip(t))};
    rj::Result r = rj::parse_document(t, 1000);
    if (!r.ok) return {"standard:ref-rejects", cat("the output of serialize(v, 0x", std::hex, mask, ") is not RFC 8259 JSON: ", r.error, " at offset ", std::dec, r.error_pos, "; text = ", clip(t))};
    for (unsigned char ch : t)
      if (ch >= 0x7F) return {"standard:non-ascii-output", cat("serialize(v, 0x", std::hex, mask, ") emitted byte 0x", (int)ch, " unescaped")};
    jt::Diff dr = jt::diff(r.value, model, jt::SAME_KIND_SIX_DIGITS);
    if (!dr.none()) return {"standard:ref-value:" + dr.cls, cat("an independent reader sees a different value in serialize(v, 0x", std::hex, mask, ") at ", dr.text, "; text = ", clip(t))};
  }
  return {};
}

static std::string node_class(const Node& n) {
  switch (n.k) {
    case Node::FLT: {
      char b[64];
      snprintf(b, sizeof(b), "%g", n.d);
      bool e = strchr(b, 'e') != nullptr, dot = strchr(b, '.') != nullptr;
      return std::string("float:") + (e ? (dot ? "exp" : "exp-no-point") : (dot ? "plain" : "integral"));
    }
    case Node::INT: return n.i < 0 ? "int:negative" : "int:non-negative";
    case Node::LIST: return n.items.empty() ? "list:empty" : "list:non-empty";
    case Node::DICT: return n.ents.empty() ? "dict:empty" : "dict:non-empty";
    default: return jt::kind_name(n.k);
  }
}

static bool tree_has_float(const Node& n) {
  if (n.k == Node::FLT) return true;
  for (const auto& c : n.items)
    if (tree_has_float(c)) return true;
  for (const auto& e : n.ents)
    if (tree_has_float(e.second)) return true;
  return false;
}

// Smallest sub-tree that shows a problem with the same clause when serialized on its own (root-cause class).
static const Node* localise(const Node& n, uint32_t mask, const std::string& clause) {
  auto fails = [&](const Node& c) {
    JSON v = jt::build(c);
    Problem p = check_mask(c, v, mask, tree_has_float(c));
    return !p.none() && p.clause == clause;
  };
  for (const auto& c : n.items)
    if (fails(c)) return localise(c, mask, clause);
  for (const auto& e : n.ents) {
    if (fails(e.second)) return localise(e.second, mask, clause);
    // a key is a string: test it as a one-entry dictionary with a null value
    Node d = Node::dict();
    d.add(e.first, Node::null());
    if (!(n.ents.size() == 1 && e.second.k == Node::NUL) && fails(d)) return nullptr; // caller reports "key"
  }
  return &n;
}

// ---------------------------------------------------------------- copies

static void mutate_all(JSON& j) {
  if (j.is_list()) {
    for (auto& c : j.as_list()) mutate_all(*c);
    j.emplace_back(JSON("mutated"));
    j.at(0) = JSON(static_cast<int64_t>(424242));
  } else if (j.is_dict()) {
    for (auto& it : j.as_dict()) mutate_all(*it.second);
    j.emplace(std::string("\x01mutated", 8), JSON(true));
    auto first = j.as_dict().begin();
    *first->second = JSON(1.5);
  } else if (j.is_string()) {
    j.as_string() += "!";
  } else {
    j = JSON("was-a-scalar");
  }
}

static void check_copies(const Node& model, const JSON& v, const jt::Stats& st) {
  std::string before = v.serialize(kSort);
  {
    JSON c(v);
    VCHECK(c == v, "copy-not-equal", "JSON c(v); c == v is false for v = ", clip(before));
    VCHECK(v == c, "copy-not-equal", "JSON c(v); v == c is false for v = ", clip(before));
    jt::Diff d = jt::diff(jt::from_json(c), model, jt::SAME_KIND_SIX_DIGITS);
    VCHECK(d.none(), "copy-differs:" + d.cls, "copy differs from its source at ", d.text);
    VCHECK(c.serialize(kSort) == before, "copy-serializes-differently", "copy serializes to ", clip(c.serialize(kSort)), " source to ", clip(before));
    mutate_all(c);
    std::string after = v.serialize(kSort);
    VCHECK(after == before, "copy-shares-state", "mutating the copy changed the source: ", clip(before), " -> ", clip(after));
    if (st.containers) VCHECK(c != v, "copy-mutation-invisible", "the mutated copy still compares equal to the source");
  }
  {
    // copy assignment over a value that already owns children; source must survive the destruction of the copy
    JSON a = JSON::list({JSON(1), JSON::dict({{"k", JSON::list({2})}})});
    a = v;
    VCHECK(a == v, "copy-assign-not-equal", "a = v; a == v is false for v = ", clip(before));
    VCHECK(a.serialize(kSort) == before, "copy-assign-serializes-differently", "assigned copy serializes to ", clip(a.serialize(kSort)));
    mutate_all(a);
    VCHECK(v.serialize(kSort) == before, "copy-assign-shares-state", "mutating the assigned copy changed the source");
  }
  // both copies are destroyed here; the source must still be intact (ASan reports shared nodes as use-after-free)
  jt::Diff d = jt::diff(jt::from_json(v), model, jt::SAME_KIND_SIX_DIGITS);
  VCHECK(d.none(), "copy-damaged-source:" + d.cls, "source changed after its copies were mutated and destroyed: ", d.text);
  VCHECK(v.serialize(kSort) == before, "copy-damaged-source", "source serializes differently after its copies were destroyed");
}

// ---------------------------------------------------------------- run

static void run_tree(const Case& c) {
  Node model = decode(c);
  jt::Stats st;
  jt::stats_into(model, st);
  JSON v = jt::build(model);

  // construction / accessors: what was put in is what the accessors return (bit-exact)
  {
    Node back = jt::from_json(v);
    jt::Diff d = jt::diff(back, model, jt::SAME_KIND_SIX_DIGITS);
    VCHECK(d.none(), "construct:" + d.cls, "value read back through the accessors differs from what was constructed: ", d.text);
  }
  bool has_float = st.has_float;
  for (uint32_t mask = 0; mask < 64; mask++) {
    Problem p = check_mask(model, v, mask, has_float);
    if (p.none()) continue;
    const Node* where = localise(model, mask, p.clause);
    std::string cls = where ? node_class(*where) : "key";
    char mb[16];
    snprintf(mb, sizeof(mb), "%02x", mask);
    VFAIL(p.clause + ":" + cls + ":opts=" + mb, p.msg);
  }
  check_copies(model, v, st);

  if (st.containers && (st.float_with_exponent || st.nonprintable_byte || st.empty_containers)) ctx().nontrivial_case();
  Ctx& x = ctx();
  if (st.float_with_exponent) x.cls("tree:float-with-exponent");
  if (st.nonprintable_byte) x.cls("tree:string-byte-outside-0x20-0x7e");
  if (st.empty_containers) x.cls("tree:empty-container");
  if (st.has_neg_int) x.cls("tree:negative-int");
  x.cls(st.depth >= 50 ? "depth>=50" : st.depth >= 4 ? "depth:4-49" : st.depth >= 2 ? "depth:2-3" : "depth:1");
  x.count(63); // 64 option masks were evaluated for this tree
}

// ---------------------------------------------------------------- generators

static double gen_float() {
  switch (vg::below(4)) {
    case 0: {
      // any finite normal double
      uint64_t sign = vg::below(2), ex = 1 + vg::below(2046), mant = vg::u64() & ((1ULL << 52) - 1);
      if (vg::chance(1, 4)) mant = vg::pick<uint64_t>({0, 1, (1ULL << 52) - 1, 1ULL << 51});
      uint64_t bits = (sign << 63) | (ex << 52) | mant;
      double d;
      memcpy(&d, &bits, 8);
      return d;
    }
    case 1: {
      // up to six significant digits times a power of ten, across the whole exponent range
      uint64_t m = vg::chance(1, 3) ? 1 + vg::below(9) : 1 + vg::below(999999);
      int64_t e = vg::range(-307, 302);
      if (vg::chance(1, 2)) e = vg::range(-12, 22);
      char b[64];
      snprintf(b, sizeof(b), "%s%llue%lld", vg::coin() ? "-" : "", (unsigned long long)m, (long long)e);
      return strtod(b, nullptr);
    }
    case 2:
      return vg::pick<double>({0.0, -0.0, 1e20, 2e6, 1e-7, 100000.0, 999999.5, 1.79769e308, 2.22508e-308, 1e15, 1e16, 1e6, 1e5, 123456.7,
          0.0001, 0.00001, 5.0, -5.0, 0.1, 1.0 / 3, -1e20, 1e-5, 1.5e300, 2.5e-300, 1e100, 1e-100, 3e9, 4e21, DBL_MAX, DBL_MIN, 1.0, -1.0});
    default: {
      // small decimals and integral values
      int64_t n = vg::range(-2000000, 2000000);
      return vg::coin() ? static_cast<double>(n) : static_cast<double>(n) / 1000.0;
    }
  }
}

static int64_t gen_int() {
  switch (vg::below(5)) {
    case 0: return vg::pick<int64_t>({INT64_MIN, INT64_MAX, 0, 1, -1, INT64_MIN + 1, INT64_MAX - 1, 10, -10, 255, -255, 256, -256});
    case 1: return vg::range(-1000, 1000);
    default: return static_cast<int64_t>(vg::interesting64());
  }
}

static std::string gen_bytes() {
  static const std::string boosted = std::string("\"\\\x7F\b\f\n\r\t/", 9) + std::string(1, '\0') + "\x01\x1f\x80\x81\xc3\xa9\xff\xfe u0x";
  if (vg::chance(1, 8)) return "";
  size_t len = vg::scaled(24);
  std::string r(len, '\0');
  unsigned style = vg::below(3);
  for (size_t k = 0; k < len; k++) {
    unsigned pickm = style == 0 ? vg::below(3) : style == 1 ? 1 : vg::below(2) * 2;
    if (pickm == 0) r[k] = boosted[vg::below(boosted.size())];
    else if (pickm == 1) r[k] = static_cast<char>(vg::below(256));
    else r[k] = static_cast<char>(0x20 + vg::below(0x5F));
  }
  return r;
}

static Node gen_node(int depth, int& budget) {
  budget--;
  bool leaf_only = depth >= 6 || budget <= 0;
  unsigned k = leaf_only ? vg::below(6) : vg::below(10);
  switch (k) {
    case 0: return Node::null();
    case 1: return Node::boolean(vg::coin());
    case 2: return Node::integer(gen_int());
    case 3: return Node::real(gen_float());
    case 4: return Node::str(gen_bytes());
    case 5: return vg::coin() ? Node::real(gen_float()) : Node::integer(gen_int());
    case 6:
    case 7: {
      Node n = Node::list();
      size_t cnt = vg::chance(1, 6) ? 0 : vg::scaled(6);
      for (size_t j = 0; j < cnt && budget > 0; j++) n.items.push_back(gen_node(depth + 1, budget));
      return n;
    }
    default: {
      Node n = Node::dict();
      size_t cnt = vg::chance(1, 6) ? 0 : vg::scaled(6);
      for (size_t j = 0; j < cnt && budget > 0; j++) {
        std::string key = vg::chance(1, 3) ? std::string(1, static_cast<char>('a' + vg::below(4))) : gen_bytes();
        Node v = gen_node(depth + 1, budget);
        n.add(key, std::move(v));
      }
      return n;
    }
  }
}

static Case gen_tree() {
  int budget = 4 + static_cast<int>(vg::scaled(40));
  Node n;
  if (vg::chance(3, 4)) {
    // a container at the root so that the tree exercises separators and nesting
    n = vg::coin() ? Node::list() : Node::dict();
    size_t cnt = vg::scaled(7);
    for (size_t j = 0; j < cnt && budget > 0; j++) {
      Node v = gen_node(1, budget);
      if (n.k == Node::LIST) n.items.push_back(std::move(v));
      else n.add(gen_bytes(), std::move(v));
    }
  } else {
    n = gen_node(0, budget);
  }
  Case c("tree");
  enc(n, c);
  return c;
}

static Case gen_chain() {
  // a chain of containers to depth <= 100 with a leaf (or an empty container) at the bottom
  size_t depth;
  switch (vg::below(6)) {
    case 0: depth = 100; break;
    case 1: depth = 50 + vg::below(50); break;
    default: depth = 2 + vg::scaled(28); break;
  }
  int budget = 3;
  Node cur = vg::chance(1, 3) ? (vg::coin() ? Node::list() : Node::dict()) : gen_node(6, budget);
  for (size_t k = 0; k < depth; k++) {
    Node up;
    if (vg::coin()) {
      up = Node::list();
      if (vg::chance(1, 5)) up.items.push_back(Node::integer(gen_int()));
      up.items.push_back(std::move(cur));
    } else {
      up = Node::dict();
      if (vg::chance(1, 5)) up.add("x", Node::real(gen_float()));
      up.add(vg::chance(1, 4) ? gen_bytes() : std::string("k"), std::move(cur));
    }
    cur = std::move(up);
  }
  Case c("chain");
  enc(cur, c);
  return c;
}

// ---------------------------------------------------------------- assign: copy assignment onto a live target
//
// "copies are deep and compare equal to their source" for the copy made by operator=(const JSON&) when the left-hand
// side already holds a value: whatever the target held before (null, scalar, string, list, a dictionary with keys the
// source has / lacks, nested dictionaries), afterwards it equals the source, is structurally the source's model, and
// neither object sees the other's later mutation or destruction.
// Case: tokens of the target tree followed by tokens of the source tree.

static std::string pair_class(const Node& t, const Node& s) {
  std::string r = std::string(jt::kind_name(t.k)) + "<-" + jt::kind_name(s.k);
  if (t.k == Node::DICT && s.k == Node::DICT) {
    size_t only_target = 0, shared = 0;
    for (const auto& e : t.ents) (s.has_key(e.first) ? shared : only_target)++;
    r += std::string(only_target ? ":target-has-extra-keys" : ":target-keys-subset") + (shared ? ":shared-keys" : "");
  }
  return r;
}

static void check_assigned(const JSON& a, const JSON& v, const Node& src_model, const char* what, const std::string& cls) {
  std::string sv = v.serialize(kSort), sa = a.serialize(kSort);
  VCHECK(a == v, "assign-not-equal:" + cls, what, ": copy == source is false; copy = ", clip(sa), " source = ", clip(sv));
  VCHECK(v == a, "assign-not-equal:" + cls, what, ": source == copy is false; copy = ", clip(sa), " source = ", clip(sv));
  VCHECK(!(a != v), "assign-not-equal:" + cls, what, ": copy != source is true; copy = ", clip(sa), " source = ", clip(sv));
  jt::Diff d = jt::diff(jt::from_json(a), src_model, jt::SAME_KIND_SIX_DIGITS);
  VCHECK(d.none(), "assign-differs:" + d.cls + ":" + cls, what, ": the assigned copy differs from its source at ", d.text, "; copy = ", clip(sa), " source = ", clip(sv));
  VCHECK(sa == sv, "assign-serializes-differently:" + cls, what, ": copy serializes to ", clip(sa), " source to ", clip(sv));
}

static void run_assign(const Case& c) {
  Dec dec{c};
  Node T = dec.node(), S = dec.node();
  if (dec.ni != c.n.size() || dec.si != c.s.size()) throw std::logic_error("case: trailing tokens");
  std::string cls = pair_class(T, S);
  const JSON v = jt::build(S);
  const std::string before = v.serialize(kSort);
  auto source_intact = [&](const char* what) {
    jt::Diff d = jt::diff(jt::from_json(v), S, jt::SAME_KIND_SIX_DIGITS);
    VCHECK(d.none(), "assign-damaged-source:" + cls, what, ": the source changed at ", d.text);
    VCHECK(v.serialize(kSort) == before, "assign-damaged-source:" + cls, what, ": the source serializes to ", clip(v.serialize(kSort)), " instead of ", clip(before));
  };
  {
    // 1. target = source; then every container of the copy is mutated and the copy destroyed
    JSON t = jt::build(T);
    t = v;
    check_assigned(t, v, S, "target = source", cls);
    mutate_all(t);
    source_intact("after mutating the assigned copy");
  }
  source_intact("after destroying the assigned copy");
  {
    // 2. the other direction: the source is mutated and destroyed, the copy must not notice
    JSON t = jt::build(T);
    {
      JSON src = jt::build(S);
      t = src;
      mutate_all(src);
      jt::Diff d = jt::diff(jt::from_json(t), S, jt::SAME_KIND_SIX_DIGITS);
      VCHECK(d.none(), "assign-shares-state:" + cls, "mutating the source after `target = source` changed the copy at ", d.text);
    }
    check_assigned(t, v, S, "target = source (source destroyed afterwards)", cls);
  }
  {
    // 3. the target is an element of a list / a value of a dictionary; its siblings are untouched
    JSON l = JSON::list();
    l.emplace_back(jt::build(T));
    l.emplace_back(jt::build(T));
    l.at(0) = v;
    check_assigned(l.at(0), v, S, "list.at(0) = source", cls + ":in-list");
    jt::Diff d = jt::diff(jt::from_json(l.at(1)), T, jt::SAME_KIND_SIX_DIGITS);
    VCHECK(d.none() && l.size() == 2, "assign-touches-sibling:" + cls, "assigning to list.at(0) changed list.at(1) at ", d.text);
    JSON m = JSON::dict();
    m.emplace("k", jt::build(T));
    m.emplace("other", jt::build(T));
    m.at("k") = v;
    check_assigned(m.at("k"), v, S, "dict.at(\"k\") = source", cls + ":in-dict");
    d = jt::diff(jt::from_json(m.at("other")), T, jt::SAME_KIND_SIX_DIGITS);
    VCHECK(d.none() && m.size() == 2, "assign-touches-sibling:" + cls, "assigning to dict.at(\"k\") changed dict.at(\"other\") at ", d.text);
  }
  {
    // 4. a second assignment onto the same object: back to (a fresh copy of) what it held at first
    JSON t = jt::build(T);
    const JSON first = jt::build(T);
    t = v;
    t = first;
    check_assigned(t, first, T, "target = source; target = former value", pair_class(S, T) + ":second-assignment");
  }
  source_intact("at the end");

  jt::Stats st;
  jt::stats_into(S, st);
  jt::stats_into(T, st);
  Ctx& x = ctx();
  x.cls("assign:" + cls);
  if (T.k == Node::DICT && S.k == Node::DICT) {
    bool extra = false;
    for (const auto& e : T.ents) extra |= !S.has_key(e.first);
    if (extra) x.nontrivial_case(); // the target holds a key the source lacks
  }
}

// a structural variation of `n`: the same kind with entries dropped / added / replaced (recursively), so that a
// container target shares part of its shape and keys with the source
static Node gen_node(int depth, int& budget);
static std::string gen_bytes();
static Node gen_variation(const Node& n, int depth, int& budget) {
  budget--;
  if (budget <= 0 || depth > 6) return vg::coin() ? n : Node::null();
  switch (n.k) {
    case Node::DICT: {
      Node r = Node::dict();
      unsigned style = vg::below(4); // 0: mixed, 1: keep all keys, 2: drop many, 3: disjoint-ish
      for (const auto& e : n.ents) {
        unsigned q = vg::below(6);
        bool drop = style == 1 ? false : style == 2 ? q < 4 : style == 3 ? q < 5 : q < 2;
        if (drop) continue;
        if (q == 5) r.add(e.first, gen_node(depth + 1, budget));
        else if (q >= 3) r.add(e.first, gen_variation(e.second, depth + 1, budget));
        else r.add(e.first, e.second);
      }
      size_t extra = vg::below(4);
      for (size_t j = 0; j < extra && budget > 0; j++) {
        std::string key = vg::chance(2, 3) ? std::string(1, static_cast<char>('a' + vg::below(6))) : gen_bytes();
        r.add(key, vg::coin() ? gen_node(depth + 1, budget) : Node::integer(vg::range(0, 9)));
      }
      return r;
    }
    case Node::LIST: {
      Node r = Node::list();
      for (const auto& ch : n.items) {
        unsigned q = vg::below(6);
        if (q == 0) continue;
        if (q == 1) r.items.push_back(gen_node(depth + 1, budget));
        else if (q <= 3) r.items.push_back(gen_variation(ch, depth + 1, budget));
        else r.items.push_back(ch);
      }
      if (vg::chance(1, 3) && budget > 0) r.items.push_back(gen_node(depth + 1, budget));
      return r;
    }
    default:
      return vg::coin() ? n : gen_node(6, budget);
  }
}

static Node gen_rooted(int& budget) {
  // a dictionary at the root three times out of four (dictionaries are where assignment has keys to reconcile)
  unsigned q = vg::below(8);
  if (q >= 6) return gen_node(0, budget);
  Node n = q == 5 ? Node::list() : Node::dict();
  size_t cnt = vg::scaled(7);
  for (size_t j = 0; j < cnt && budget > 0; j++) {
    Node v = vg::chance(1, 3) ? Node::integer(vg::range(0, 9)) : gen_node(1, budget);
    if (n.k == Node::LIST) n.items.push_back(std::move(v));
    else n.add(vg::chance(2, 3) ? std::string(1, static_cast<char>('a' + vg::below(6))) : gen_bytes(), std::move(v));
  }
  return n;
}

static Case gen_assign() {
  int budget = 4 + static_cast<int>(vg::scaled(30));
  Node S = gen_rooted(budget);
  Node T;
  int b2 = 4 + static_cast<int>(vg::scaled(30));
  switch (vg::below(8)) {
    case 0: T = gen_node(6, b2); break; // a leaf: null, bool, number, string
    case 1: T = gen_rooted(b2); break; // an unrelated tree
    case 2: T = gen_variation(gen_rooted(b2), 0, b2); break;
    default: T = gen_variation(S, 0, b2); break; // shares part of its shape and keys with the source
  }
  if (vg::chance(1, 8)) std::swap(S, T);
  Case c("assign");
  enc(T, c);
  enc(S, c);
  return c;
}

// every ordered pair (target, source) over a small universe: leaves, lists, and every dictionary over the keys a, b, c
// whose values are 1, {"x":1} or {"y":2} (64 dictionaries: every subset/superset/overlap relation between the key sets
// of target and source, one level down too)
static void enum_assign(Enum& e) {
  std::vector<Node> u;
  u.push_back(Node::null());
  u.push_back(Node::boolean(true));
  u.push_back(Node::integer(0));
  u.push_back(Node::real(1.5));
  u.push_back(Node::str(""));
  u.push_back(Node::str("a"));
  u.push_back(Node::list());
  Node inner[3];
  inner[0] = Node::integer(1);
  inner[1] = Node::dict();
  inner[1].add("x", Node::integer(1));
  inner[2] = Node::dict();
  inner[2].add("y", Node::integer(2));
  {
    Node l = Node::list();
    l.items.push_back(Node::integer(1));
    u.push_back(l);
    l.items.push_back(inner[1]);
    u.push_back(l);
    Node l2 = Node::list();
    l2.items.push_back(inner[2]);
    u.push_back(l2);
  }
  for (unsigned code = 0; code < 64; code++) {
    Node d = Node::dict();
    for (unsigned k = 0; k < 3; k++) {
      unsigned sel = (code >> (2 * k)) & 3;
      if (sel) d.add(std::string(1, static_cast<char>('a' + k)), inner[sel - 1]);
    }
    u.push_back(d);
  }
  uint64_t idx = 0;
  for (const auto& t : u)
    for (const auto& s : u) {
      if (e.stop) return;
      if (!e.mine(idx++)) continue;
      Case c("assign");
      enc(t, c);
      enc(s, c);
      e.exec(c);
    }
  e.complete(cat("every ordered (target, source) pair over ", u.size(), " values: null, bool, int, float, two strings, four lists and all 64 dictionaries over the keys a,b,c with values 1 / {\"x\":1} / {\"y\":2}"));
}

// ---------------------------------------------------------------- after_reject: the round trip after other parses on the same thread
//
// The statement quantifies over values and options only: parse(serialize(v, o)) == v must hold whatever the thread
// parsed before, including texts the parser rejected half-way (inside a string token, a number, a container).
// Case: n = [mask, P, then P x (kind, a, b), then the tree tokens], s = [texts of the literal preludes..., tree strings...]
//   kind 0: the next literal text                                   (a = strict flag)
//   kind 1: serialize(v, b & 63) cut after (b >> 8) mod (len+1) bytes (a = strict flag): input ending anywhere, often mid-string
//   kind 2: serialize(v, b & 63) with the byte at (b >> 16) mod len replaced by byte (b >> 8) & 255 (a = strict flag)
// Parsing a prelude may succeed or throw std::exception; neither is asserted here (C05 owns the parser's error behaviour).

static void run_after_reject(const Case& c) {
  uint32_t mask = static_cast<uint32_t>(c.u(0)) & 63;
  size_t P = c.u(1);
  if (P > 16) throw std::logic_error("case: too many preludes");
  Dec dec{c};
  dec.ni = 2 + 3 * P;
  size_t literals = 0;
  for (size_t k = 0; k < P; k++) literals += c.u(2 + 3 * k) == 0;
  dec.si = literals;
  Node model = dec.node();
  if (dec.ni != c.n.size() || dec.si != c.s.size()) throw std::logic_error("case: trailing tokens");
  jt::Stats st;
  jt::stats_into(model, st);
  JSON v = jt::build(model);

  std::vector<std::pair<std::string, bool>> texts;
  size_t lit = 0;
  for (size_t k = 0; k < P; k++) {
    uint64_t kind = c.u(2 + 3 * k), a = c.u(3 + 3 * k), b = c.u(4 + 3 * k);
    std::string t;
    if (kind == 0) {
      t = c.str(lit++);
    } else if (kind == 1) {
      t = v.serialize(b & 63);
      t.resize((b >> 8) % (t.size() + 1));
    } else if (kind == 2) {
      t = v.serialize(b & 63);
      if (!t.empty()) t[(b >> 16) % t.size()] = static_cast<char>((b >> 8) & 0xFF);
    } else {
      throw std::logic_error("case: bad prelude kind");
    }
    texts.emplace_back(std::move(t), (a & 1) != 0);
  }
  uint64_t rejected = 0, accepted = 0;
  std::function<void()> prelude = [&]() {
    for (const auto& t : texts) {
      try {
        JSON::parse(t.first, t.second);
        accepted++;
      } catch (const std::exception&) {
        rejected++;
      }
    }
  };
  Problem p = check_mask(model, v, mask, st.has_float, &prelude);
  if (!p.none()) {
    // does the same (value, mask) fail without the prelude? then it is the plain round-trip defect
    Problem alone = check_mask(model, v, mask, st.has_float);
    char mb[16];
    snprintf(mb, sizeof(mb), "%02x", mask);
    std::string shown;
    for (const auto& t : texts) shown += (shown.empty() ? "" : ", ") + clip(t.first, 40);
    VFAIL(p.clause + (alone.none() ? ":only-after-other-parses" : "") + ":opts=" + mb, p.msg, "; parsed before on the same thread: ", shown);
  }
  Ctx& x = ctx();
  if (rejected && st.nodes > 1) x.nontrivial_case();
  x.cls(rejected ? "after_reject:some-prelude-rejected" : "after_reject:no-prelude-rejected");
}

static std::string gen_prelude_text() {
  static const std::vector<std::string> contexts = {"", "", "[", "{", "{\"k\":", "[1,", "[\"ok\",", "{\"a\":1,", " \n[ ", "[[{\"q\":[", "{\"a\":\"b\",\"c\":"};
  static const std::string body_alphabet = "abcxyz019 _-:,{}[]/\x01\x7f\x80\xff";
  std::string pre = contexts[vg::below(contexts.size())];
  switch (vg::below(10)) {
    case 0:
    case 1:
    case 2:
    case 3:
    case 4: {
      // ends (or goes wrong) inside a string token, as a value or as a dictionary key
      std::string body = vg::bytes_from(body_alphabet, vg::below(3) ? 1 + vg::below(12) : 0);
      if (vg::chance(1, 4)) body += vg::pick<std::string>({"\\n", "\\\"", "\\\\", "\\x41", "\\u0041", "\\t"}) + vg::bytes_from(body_alphabet, vg::below(4));
      std::string tail = vg::pick<std::string>({"\\q", "\\x4", "\\x", "\\xZ1", "\\u12", "\\u", "\\u00G0", "\\u1234", "\\", "", "", "\\a", "\\0", "\\U0041"});
      std::string close = vg::chance(1, 4) ? "\"" : "";
      return pre + "\"" + body + tail + close;
    }
    case 5:
    case 6:
      // goes wrong outside a string token
      return pre + vg::pick<std::string>({"nul", "tru", "fals", "}", "]", "1 2", "{\"a\" 1}", "[1 2]", "@", "", "-", "0x", "1e", "1.", "//", "/*", "{\"a\":}", "{,}", "[,]", ":", "\"a\":", "[1,]x", "{1:2}", "+1", ".5", "--1"});
    case 7:
      // a valid text (accepted; may leave state behind just as well)
      return vg::pick<std::string>({"[]", "{}", "\"ok\"", "{\"a\":\"b\"}", "[\"x\",1]", "null", "0", "-1.5e3", "[[[]]]", "\"\\u00e9\""});
    case 8:
      return pre + gen_bytes();
    default:
      return gen_bytes();
  }
}

static Case gen_after_reject() {
  int budget = 3 + static_cast<int>(vg::scaled(24));
  Node n;
  if (vg::chance(3, 4)) {
    n = vg::coin() ? Node::list() : Node::dict();
    size_t cnt = 1 + vg::scaled(5);
    for (size_t j = 0; j < cnt && budget > 0; j++) {
      Node v = vg::chance(1, 3) ? Node::str(gen_bytes()) : gen_node(1, budget);
      if (n.k == Node::LIST) n.items.push_back(std::move(v));
      else n.add(gen_bytes(), std::move(v));
    }
  } else {
    n = vg::coin() ? Node::str(gen_bytes()) : gen_node(0, budget);
  }
  Case c("after_reject");
  c.N(vg::chance(1, 3) ? 0 : vg::below(64));
  size_t P = vg::chance(1, 10) ? 0 : 1 + vg::below(3);
  c.N(P);
  static const std::string repl = std::string("\"\\xu{}[],:a \n\xff", 14) + std::string(1, '\0');
  for (size_t k = 0; k < P; k++) {
    unsigned q = vg::below(10);
    uint64_t strict = vg::chance(1, 4) ? 1 : 0;
    if (q < 6) {
      c.N(0).N(strict).N(0);
      c.S(gen_prelude_text());
    } else if (q < 9) {
      c.N(1).N(strict).N(vg::below(64) | (vg::below(1u << 20) << 8));
    } else {
      c.N(2).N(strict).N(vg::below(64) | (static_cast<uint64_t>(static_cast<unsigned char>(repl[vg::below(repl.size())])) << 8) | (vg::below(1u << 20) << 16));
    }
  }
  enc(n, c);
  return c;
}

// every prelude of a fixed list x every tree of a fixed list (strings as root, list item, dictionary value and key)
static void enum_after_reject(Enum& e) {
  std::vector<std::string> preludes = {"\"abc", "\"abc\\q", "\"abc\\x4", "\"abc\\u12", "[\"k\\", "{\"key", "{\"a\":\"v\\u1234", "[1,\"two\\xZZ\"]", "\"\\", "[\"a\",\"b", "nul", "[1 2]", "{\"a\":\"b\"}", "\"", "{\"a\":1,\"bcd\\q\":2}"};
  std::vector<Node> trees;
  trees.push_back(Node::str("plain"));
  trees.push_back(Node::str(""));
  {
    Node l = Node::list();
    l.items.push_back(Node::integer(1));
    l.items.push_back(Node::str("s"));
    trees.push_back(l);
    Node d = Node::dict();
    d.add("key", Node::str("value"));
    trees.push_back(d);
    Node d2 = Node::dict();
    d2.add("n", Node::integer(5));
    trees.push_back(d2);
    Node ll = Node::list();
    ll.items.push_back(d);
    ll.items.push_back(Node::str("\x01\xff"));
    trees.push_back(ll);
    trees.push_back(Node::integer(7));
  }
  uint64_t idx = 0;
  for (const auto& pt : preludes)
    for (uint64_t strict = 0; strict < 2; strict++)
      for (const auto& t : trees)
        for (uint64_t mask : {0u, 4u, 8u, 63u}) {
          if (e.stop) return;
          if (!e.mine(idx++)) continue;
          Case c("after_reject");
          c.N(mask).N(1).N(0).N(strict).N(0);
          c.S(pt);
          enc(t, c);
          e.exec(c);
        }
  e.complete(cat(preludes.size(), " fixed texts (rejected inside a string token: bad escape, incomplete \\x / \\u, end of input; rejected elsewhere; accepted) x default/strict x ", trees.size(), " small trees x 4 option masks"));
}

// ---------------------------------------------------------------- fixed regression values (enumerated first)

static void enum_fixed(Enum& e) {
  std::vector<Node> vals;
  for (double d : {0.0, -0.0, 1.4, -10.5, 1e20, 2e6, 1e-7, 100000.0, 999999.5, 1.79769e308, 2.22508e-308, 1e6, 1e5, 1e15, 1e16, 0.00001, DBL_MAX, DBL_MIN})
    vals.push_back(Node::real(d));
  for (int64_t i : {INT64_MIN, INT64_MAX, (int64_t)0, (int64_t)-1, (int64_t)1, (int64_t)-3214, (int64_t)134}) vals.push_back(Node::integer(i));
  vals.push_back(Node::null());
  vals.push_back(Node::boolean(true));
  vals.push_back(Node::boolean(false));
  vals.push_back(Node::list());
  vals.push_back(Node::dict());
  vals.push_back(Node::str(""));
  {
    std::string all;
    for (int b = 0; b < 256; b++) all += static_cast<char>(b);
    vals.push_back(Node::str(all));
    Node d = Node::dict();
    d.add(all, Node::str(all));
    d.add("", Node::list());
    vals.push_back(d);
  }
  // every single byte as a string and as a key
  for (int b = 0; b < 256; b++) {
    Node d = Node::dict();
    d.add(std::string(1, static_cast<char>(b)), Node::str(std::string(1, static_cast<char>(b))));
    vals.push_back(d);
  }
  uint64_t idx = 0;
  for (const auto& v : vals) {
    if (e.stop) break;
    if (!e.mine(idx++)) continue;
    Case c("tree");
    enc(v, c);
    e.exec(c);
    Node l = Node::list();
    l.items.push_back(v);
    l.items.push_back(Node::dict());
    Case c2("tree");
    enc(l, c2);
    e.exec(c2);
  }
  e.complete("fixed value list (boundary floats and ints, every byte value as string and key, empty containers), bare and inside a list, x 64 option masks");
}

int main(int argc, char** argv) {
  std::vector<SubCheck> checks;
  checks.push_back({"tree", run_tree, gen_tree, 16000, 300000, 100, enum_fixed});
  checks.push_back({"chain", run_tree, gen_chain, 480, 12000, 100, nullptr});
  checks.push_back({"assign", run_assign, gen_assign, 24000, 400000, 100, enum_assign});
  checks.push_back({"after_reject", run_after_reject, gen_after_reject, 24000, 400000, 100, enum_after_reject});
  return main_(argc, argv, checks);
}
