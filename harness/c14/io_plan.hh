// C14 helpers: short-read plans injected through -Wl,--wrap=read,pread,close, fopencookie streams,
// real pipes fed by a writer thread, scratch-directory handling.
#pragma once

#include <dirent.h>
#include <errno.h>
#include <fcntl.h>
#include <poll.h>
#include <signal.h>
#include <stdio.h>
#include <string.h>
#include <sys/stat.h>
#include <sys/types.h>
#include <unistd.h>

#include <map>
#include <memory>
#include <set>
#include <string>
#include <thread>
#include <vector>

#include "../verif.hh"

extern "C" {
ssize_t __real_read(int fd, void* buf, size_t n);
ssize_t __real_pread(int fd, void* buf, size_t n, off_t off);
int __real_close(int fd);
ssize_t __real_write(int fd, const void* buf, size_t n);
}

namespace c14 {

using verif::Case;

// ---------------------------------------------------------------- chunk limits

// How many bytes the next read may deliver: explicit list first, then 1..k pseudo-random
// (a pure function of seed and call index), then unlimited.
struct Limiter {
  std::vector<uint64_t> list;
  uint64_t k = 0, seed = 0;
  size_t idx = 0;
  uint64_t next() {
    size_t i = idx++;
    if (i < list.size()) return list[i] ? list[i] : 1;
    if (k) return 1 + verif::mix(seed, i) % k;
    return UINT64_MAX;
  }
};

// ---------------------------------------------------------------- the read()/pread() plan

struct WrapPlan {
  bool active = false;
  int fd = -1;
  Limiter lim;
  uint64_t calls = 0; // read()/pread() calls on fd
  uint64_t truncated = 0; // calls that delivered fewer bytes than requested because of the plan
  uint64_t delivered = 0; // bytes handed out
  uint64_t eof_after = UINT64_MAX; // the source ends after this many bytes (a file that shrank after fstat)
  std::vector<uint64_t> fail_calls; // indices of the read()/pread() calls on fd that fail (-1, fail_errno) without consuming anything
  int fail_errno = EINTR;
  uint64_t faulted = 0; // calls that failed because of the plan
  void arm(int f, const Limiter& l, uint64_t eof = UINT64_MAX) {
    fd = f;
    lim = l;
    calls = truncated = delivered = faulted = 0;
    eof_after = eof;
    fail_calls.clear();
    fail_errno = EINTR;
    active = true;
  }
  void set_faults(const std::vector<uint64_t>& calls_that_fail, int err) {
    fail_calls = calls_that_fail;
    fail_errno = err;
  }
  // true when the call about to be made is one the plan makes fail (counts it)
  bool fail_now() {
    for (uint64_t k : fail_calls)
      if (k == calls) {
        calls++;
        faulted++;
        return true;
      }
    return false;
  }
  void disarm() {
    active = false;
    fd = -1;
  }
};
inline WrapPlan& plan() {
  static WrapPlan p;
  return p;
}

// ---------------------------------------------------------------- the write() plan
//
// The write-side twin of the short-read plan: write() on `fd` accepts at most lim.next() bytes per call (a positive
// count smaller than requested - what a pipe, a signal or the kernel's per-call limit produces - and the destination
// keeps accepting afterwards), or fails without accepting anything at the call indices in fail_calls.
struct WritePlan {
  bool active = false;
  int fd = -1;
  Limiter lim;
  uint64_t calls = 0, truncated = 0, accepted = 0, faulted = 0;
  std::vector<uint64_t> fail_calls;
  int fail_errno = EINTR;
  void arm(int f, const Limiter& l) {
    fd = f;
    lim = l;
    calls = truncated = accepted = faulted = 0;
    fail_calls.clear();
    fail_errno = EINTR;
    active = true;
  }
  bool fail_now() {
    for (uint64_t k : fail_calls)
      if (k == calls) {
        calls++;
        faulted++;
        return true;
      }
    return false;
  }
  void disarm() {
    active = false;
    fd = -1;
  }
};
inline WritePlan& write_plan() {
  static WritePlan p;
  return p;
}

// ---------------------------------------------------------------- the close() log

// While the log is active it can also inject the one fault close() has: the call RELEASES the descriptor and reports -1 / EINTR
// (Linux, like most systems, frees the number before it can be interrupted: a caller that retries closes the number a second
// time - EBADF, or whatever was opened on it in the meantime). fault_mode 1: just that; fault_mode 2: the number is also taken
// again at once by an unrelated descriptor (/dev/null), as another thread's open() would, recorded in `reused`. The j-th logged
// close() call is faulted when bit (j mod 62) of fault_mask is set and the previous logged call was not itself a faulted one
// (so a retry loop terminates).
struct CloseLog {
  bool active = false;
  struct Ev {
    int fd;
    int err; // 0 or errno
    bool injected; // err is the EINTR reported by the fault plan (the descriptor was released)
  };
  std::vector<Ev> events;
  int fault_mode = 0;
  uint64_t fault_mask = 0;
  uint64_t faulted = 0;
  std::set<int> reused; // numbers re-opened by fault_mode 2: unrelated descriptors from then on
  void start(int mode = 0, uint64_t mask = 0) {
    events.clear();
    events.reserve(64);
    fault_mode = mode;
    fault_mask = mask;
    faulted = 0;
    reused.clear();
    active = true;
  }
  void stop() {
    active = false;
    fault_mode = 0;
  }
  bool fault_now() const {
    if (!fault_mode) return false;
    if (!events.empty() && events.back().injected) return false;
    return (fault_mask >> (events.size() % 62)) & 1;
  }
};
inline CloseLog& closelog() {
  static CloseLog l;
  return l;
}

// ---------------------------------------------------------------- delivery description carried by a Case

struct Delivery {
  uint64_t k = 0, seed = 0;
  std::vector<uint64_t> list; // explicit chunk limits for the reader side
  std::vector<uint64_t> wchunks; // writer thread: bytes per write (cyclic); empty = everything at once
  std::vector<uint64_t> gaps_us; // writer thread: pause after each write (cyclic)
  Limiter limiter() const {
    Limiter l;
    l.list = list;
    l.k = k;
    l.seed = seed;
    return l;
  }
  void put(Case& c) const {
    c.N(k).N(seed);
    c.N(list.size());
    for (auto v : list) c.N(v);
    c.N(wchunks.size());
    for (auto v : wchunks) c.N(v);
    c.N(gaps_us.size());
    for (auto v : gaps_us) c.N(v);
  }
};

struct Reader {
  const Case& c;
  size_t i = 0;
  explicit Reader(const Case& cc, size_t start = 0) : c(cc), i(start) {}
  uint64_t next() { return c.u(i++); }
  bool done() const { return i >= c.n.size(); }
  std::vector<uint64_t> list() {
    uint64_t n = next();
    if (n > 200000) throw std::logic_error("case: list too long");
    std::vector<uint64_t> v;
    for (uint64_t k = 0; k < n; k++) v.push_back(next());
    return v;
  }
  Delivery delivery() {
    Delivery d;
    d.k = next();
    d.seed = next();
    d.list = list();
    d.wchunks = list();
    d.gaps_us = list();
    for (auto g : d.gaps_us)
      if (g > 20000) throw std::logic_error("case: writer gap above 20 ms");
    return d;
  }
};

// ---------------------------------------------------------------- scratch space (under the shard's cwd)

inline void rm_rf(const std::string& p) {
  struct stat st;
  if (::lstat(p.c_str(), &st) != 0) return;
  if (S_ISDIR(st.st_mode)) {
    DIR* d = opendir(p.c_str());
    if (d) {
      std::vector<std::string> names;
      while (struct dirent* e = readdir(d)) {
        if (!strcmp(e->d_name, ".") || !strcmp(e->d_name, "..")) continue;
        names.push_back(e->d_name);
      }
      closedir(d);
      for (const auto& n : names) rm_rf(p + "/" + n);
    }
    ::rmdir(p.c_str());
  } else {
    ::unlink(p.c_str());
  }
}

inline const std::string& scratch() {
  static std::string dir = [] {
    std::string p = verif::cat("c14_scratch_", verif::ctx().shard, "_", getpid());
    rm_rf(p);
    if (::mkdir(p.c_str(), 0777) != 0) throw std::logic_error("cannot create scratch directory " + p);
    return p;
  }();
  return dir;
}

inline void write_file_raw(const std::string& path, const std::string& data) {
  int fd = ::open(path.c_str(), O_CREAT | O_TRUNC | O_WRONLY, 0644);
  if (fd < 0) throw std::logic_error("harness: cannot create " + path + ": " + strerror(errno));
  size_t off = 0;
  while (off < data.size()) {
    ssize_t w = ::write(fd, data.data() + off, data.size() - off);
    if (w <= 0) {
      __real_close(fd);
      throw std::logic_error("harness: write failed on " + path);
    }
    off += w;
  }
  __real_close(fd);
}

inline bool read_file_raw(const std::string& path, std::string& out) {
  int fd = ::open(path.c_str(), O_RDONLY);
  if (fd < 0) return false;
  out.clear();
  char buf[65536];
  for (;;) {
    ssize_t r = __real_read(fd, buf, sizeof(buf));
    if (r < 0) {
      __real_close(fd);
      return false;
    }
    if (r == 0) break;
    out.append(buf, r);
  }
  __real_close(fd);
  return true;
}

inline std::set<int> open_fds() {
  std::set<int> r;
  DIR* d = opendir("/proc/self/fd");
  if (!d) return r;
  int dfd = dirfd(d);
  while (struct dirent* e = readdir(d)) {
    if (e->d_name[0] == '.') continue;
    int fd = atoi(e->d_name);
    if (fd != dfd) r.insert(fd);
  }
  closedir(d);
  return r;
}

// ---------------------------------------------------------------- descriptor sources

enum FdKind : uint64_t { FD_FILE = 0,
  FD_PIPE = 1 };

// A readable descriptor that will deliver exactly `content` and then EOF. Regular file, or a pipe fed by
// a writer thread (chunked writes with pauses). The short-read plan of the Delivery is armed on it.
struct FdSource {
  int fd = -1;
  std::thread th;
  FdSource(uint64_t kind, const std::string& content, const Delivery& d, bool arm_plan = true) {
    if (kind == FD_FILE) {
      std::string path = scratch() + "/src.bin";
      write_file_raw(path, content);
      fd = ::open(path.c_str(), O_RDONLY);
      if (fd < 0) throw std::logic_error("harness: cannot reopen source file");
    } else if (kind == FD_PIPE) {
      int p[2];
      if (::pipe(p) != 0) throw std::logic_error("harness: pipe failed");
      fd = p[0];
      int wfd = p[1];
      th = std::thread([wfd, &content, wch = d.wchunks, gaps = d.gaps_us] {
        size_t off = 0, i = 0;
        bool broken = false;
        while (off < content.size() && !broken) {
          size_t chunk = wch.empty() ? content.size() - off : (wch[i % wch.size()] ? wch[i % wch.size()] : 1);
          chunk = std::min(chunk, content.size() - off);
          size_t done = 0;
          while (done < chunk) {
            ssize_t w = ::write(wfd, content.data() + off + done, chunk - done);
            if (w <= 0) {
              broken = true;
              break;
            }
            done += w;
          }
          off += done;
          if (!gaps.empty() && gaps[i % gaps.size()] && off < content.size()) usleep(gaps[i % gaps.size()]);
          i++;
        }
        __real_close(wfd);
      });
    } else {
      throw std::logic_error("case: unknown fd source kind");
    }
    if (arm_plan) plan().arm(fd, d.limiter());
  }
  int release() {
    int f = fd;
    fd = -1;
    return f;
  }
  ~FdSource() {
    plan().disarm();
    if (fd >= 0) __real_close(fd); // lets a blocked writer fail with EPIPE
    if (th.joinable()) th.join();
  }
  FdSource(const FdSource&) = delete;
  FdSource& operator=(const FdSource&) = delete;
};

// ---------------------------------------------------------------- stream sources

enum FileKind : uint64_t { F_COOKIE = 0,
  F_MEM = 1,
  F_PIPE = 2,
  F_FILE = 3 };

struct Cookie {
  const std::string* content;
  size_t pos = 0;
  Limiter lim;
  uint64_t calls = 0, truncated = 0;
  std::vector<uint64_t> fail_calls; // indices of the read callbacks that fail (-1, fail_errno) without consuming anything
  int fail_errno = EINTR;
  uint64_t faulted = 0;
};

inline ssize_t cookie_read(void* ck, char* buf, size_t size) {
  Cookie* c = static_cast<Cookie*>(ck);
  for (uint64_t k : c->fail_calls)
    if (k == c->calls) {
      c->calls++;
      c->faulted++;
      errno = c->fail_errno;
      return -1;
    }
  uint64_t l = c->lim.next();
  size_t remaining = c->content->size() - c->pos;
  size_t n = std::min<uint64_t>(std::min<uint64_t>(size, l), remaining);
  c->calls++;
  if (n < size && n < remaining) c->truncated++;
  memcpy(buf, c->content->data() + c->pos, n);
  c->pos += n;
  return n;
}
inline int cookie_close(void*) { return 0; }

// FILE* that will deliver exactly `content` and then EOF.
struct FileSource {
  FILE* f = nullptr;
  Cookie cookie;
  std::unique_ptr<FdSource> pipe_src;
  char vbuf[256];
  FileSource(uint64_t kind, uint64_t bufmode, const std::string& content, const Delivery& d) {
    if (kind == F_COOKIE) {
      cookie.content = &content;
      cookie.lim = d.limiter();
      cookie_io_functions_t io = {cookie_read, nullptr, nullptr, cookie_close};
      f = fopencookie(&cookie, "rb", io);
    } else if (kind == F_MEM) {
      f = content.empty() ? fopen("/dev/null", "rb") : fmemopen(const_cast<char*>(content.data()), content.size(), "rb");
    } else if (kind == F_PIPE) {
      pipe_src.reset(new FdSource(FD_PIPE, content, d, false));
      f = fdopen(pipe_src->fd, "rb");
      if (f) pipe_src->release();
    } else if (kind == F_FILE) {
      std::string path = scratch() + "/src.bin";
      write_file_raw(path, content);
      f = fopen(path.c_str(), "rb");
    } else {
      throw std::logic_error("case: unknown stream source kind");
    }
    if (!f) throw std::logic_error("harness: cannot open stream source");
    switch (bufmode) {
      case 0: break;
      case 1: setvbuf(f, nullptr, _IONBF, 0); break;
      case 2: setvbuf(f, vbuf, _IOFBF, 7); break;
      case 3: setvbuf(f, vbuf, _IOFBF, 256); break;
      default: throw std::logic_error("case: unknown buffer mode");
    }
  }
  ~FileSource() {
    if (f) fclose(f); // closes the pipe's read end first, so a blocked writer wakes up
    pipe_src.reset();
  }
  FileSource(const FileSource&) = delete;
  FileSource& operator=(const FileSource&) = delete;
};

} // namespace c14
