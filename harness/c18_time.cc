// C18 - time, duration and size formatting is total and value-faithful.
//
// Subchecks (this file is built twice: the ASan+UBSan stage runs all of them, the -O2 stage - compiled with
// -DC18_SWEEP_ONLY - runs only the full-resolution duration sweep):
//   duration        format_duration(usecs, precision): never throws, [d:][hh:][mm:]ss[.f] shape, value faithful
//   duration_sweep  the same oracle over every microsecond of the +-2 s windows around 1 s, 60 s, 3600 s, 86400 s
//   time            format_time(t) == own days-to-civil rendering (cross-checked against std::chrono and a slow day count)
//   size            format_size picks the right unit, prints a faithful mantissa, parse_size reads it back
//   parse_size      parse_size on "I.F <unit>B" texts for every unit letter
//   timeval         usecs_to_timeval / timeval_to_usecs are exact inverses
//   time_seq        SEQUENCES of format_time calls on one (fresh) thread with related timestamps (same second, +-1 s, multiples
//                   of 2^32 / 2^31 / 2^16 seconds, 2^32 us or ms, days, years apart), every result against the civil calendar
//
// A third build (-DC18_NDEBUG_LIB, stage c18_ndebug) links the library objects compiled with -DNDEBUG and runs the subchecks as
// *_nd on a reduced plan; namespace after_main (both sanitized builds) repeats fixed calls after main() has returned.
//
// Ambient state: the functions of this property are pure functions of their arguments, so the errno value the thread
// happens to hold on entry (0, ERANGE, EINVAL, EILSEQ, EINTR, ... left by an unrelated earlier call) must not change any
// result. The incoming errno is part of every duration / time / size / parse_size / time_seq case (trailing field, 0 when
// absent) and is stored immediately before each call into phosg.
//
// Ambient state, time zone: format_time promises the UTC calendar date and time, so the TZ environment variable of the
// calling process (and the zone tzset() derived from it) must not change any result. Every time / time_seq case carries
// the TZ setting it runs under as its blob field (absent = the environment as the harness found it, "(unset)" = TZ removed,
// anything else = setenv("TZ", ...) followed by tzset()); the previous setting is restored when the case is over, so a case
// replays exactly and leaves nothing behind. POSIX TZ strings (JST-9, EST5EDT,M3.2.0,M11.1.0, NPT-5:45, <+14>-14 ...) need
// no zone database; a few database names are in the list too (they mean UTC where the database is not installed).
#include <errno.h>
#include <stdlib.h>
#include <sys/time.h>
#include <time.h>

#include <chrono>
#include <memory>
#include <thread>

#include <phosg/Strings.hh>
#include <phosg/Time.hh>

#include "c18/ref.hh"
#include "verif.hh"

using namespace verif;
using c18::u128;

// Stage c18_ndebug (-DC18_NDEBUG_LIB, library objects compiled with -DNDEBUG): the same oracles, subcheck names with the suffix _nd
#ifdef C18_NDEBUG_LIB
#define C18_SFX "_nd"
#else
#define C18_SFX ""
#endif
#define NM(x) x C18_SFX

static const uint64_t kBoundaries[4] = {1000000ULL, 60000000ULL, 3600000000ULL, 86400000000ULL};

// ---------------------------------------------------------------- ambient errno

static const uint64_t kErrnos[] = {0, ERANGE, EINVAL, EILSEQ, EINTR, EDOM, ENOENT, EAGAIN, ENOMEM, EOVERFLOW};
static const size_t kNumErrnos = sizeof(kErrnos) / sizeof(kErrnos[0]);
static inline uint64_t errno_for(uint64_t x) { return kErrnos[mix(x, 0xE884) % kNumErrnos]; } // deterministic rotation for the enumerators
static inline uint64_t opt(const Case& c, size_t i) { return c.n.size() > i ? c.u(i) : 0; }
static inline void ambient(uint64_t e) { errno = static_cast<int>(e); }
static inline uint64_t gen_errno() { return vg::chance(1, 3) ? 0 : kErrnos[vg::below(kNumErrnos)]; }
static std::string errno_note(uint64_t e) { return e ? cat(" [errno was ", e, " (", strerror(static_cast<int>(e)), ") on entry]") : std::string(); }

// ---------------------------------------------------------------- duration

// case: n = [usecs, precision (-1..6)]
static void run_duration(const Case& c) {
  uint64_t usecs = c.u(0);
  int64_t p = c.i(1);
  if (p < -1 || p > 6) throw std::logic_error("precision outside -1..6");
  uint64_t en = opt(c, 2);
  std::string text;
  try {
    ambient(en);
    text = phosg::format_duration(usecs, static_cast<int8_t>(p));
  } catch (const std::exception& e) {
    VFAIL("duration-throws", "format_duration(", usecs, ", ", p, ") threw ", typeid(e).name(), ": ", e.what(), errno_note(en));
  }
  int v = c18::check_duration(usecs, static_cast<int>(p), text.data(), text.size());
  VCHECK(v == c18::DUR_OK, c18::verdict_name(v), "format_duration(", usecs, ", ", p, ") = \"", text, "\"", errno_note(en));
  bool near = false;
  for (uint64_t b : kBoundaries) near |= (usecs + 1000 >= b && usecs <= b + 1000);
  if ((usecs >= 60000000ULL && p >= 0) || near) ctx().nontrivial_case();
  ctx().cls(usecs < 1000000ULL ? "duration:<1s" : usecs < 60000000ULL ? "duration:<1min" : usecs < 3600000000ULL ? "duration:<1h" : usecs < 86400000000ULL ? "duration:<1d" : "duration:>=1d");
}

// hot loop: all usecs in [lo, hi) with the given stride, all 8 precisions; returns evaluations done
static uint64_t sweep(Enum& e, const char* check, uint64_t lo, uint64_t hi, uint64_t stride) {
  uint64_t n = 0;
  for (int p = -1; p <= 6 && !e.stop; p++) {
    e.journal_block(Case(check).N(lo).I(p));
    for (uint64_t u = lo; u < hi; u += stride) {
      n++;
      bool ok = false;
      uint64_t en = errno_for(u + static_cast<uint64_t>(p + 1));
      try {
        ambient(en);
        std::string text = phosg::format_duration(u, static_cast<int8_t>(p));
        ok = c18::check_duration(u, p, text.data(), text.size()) == c18::DUR_OK;
      } catch (const std::exception&) {
      }
      if (!ok) {
        // record the precise case through the full oracle; skip the rest of this block (same root cause)
        e.exec_light(Case(check).N(u).I(p).N(en));
        break;
      }
    }
  }
  return n;
}

static void enum_duration_sweep(Enum& e) {
  // quick: every 11th microsecond (coprime to every power of ten, so all residues of the printed digits occur)
  uint64_t stride = e.thorough() ? 1 : 11;
  const uint64_t block = 1ULL << 16;
  uint64_t idx = 0;
  for (uint64_t b : kBoundaries) {
    uint64_t lo = b >= 2000000ULL ? b - 2000000ULL : 0, hi = b + 2000000ULL + 1;
    for (uint64_t s = lo; s < hi && !e.stop; s += block, idx++) {
      if (!e.mine(idx)) continue;
      uint64_t first = s;
      if (stride > 1) first += (stride - (s - lo) % stride) % stride; // keep one global phase
      uint64_t end = std::min(s + block, hi);
      if (first >= end) continue;
      e.x.count(sweep(e, e.sc.name.c_str(), first, end, stride));
    }
  }
  // the cases within 1 ms of a boundary are the non-trivial ones of this sweep (distinct (usecs, precision))
  for (uint64_t b : kBoundaries)
    for (uint64_t u = b - 1000; u <= b + 1000; u++)
      if (e.mine(u) && (u % stride == (b >= 2000000ULL ? b - 2000000ULL : 0) % stride))
        for (int p = -1; p <= 6; p++) e.x.nontrivial(mix(u, static_cast<uint64_t>(p + 1)));
  e.complete(cat("every ", stride == 1 ? "" : cat(stride, "th "), "microsecond within +-2 s of 1 s, 60 s, 3600 s and 86400 s x precision -1..6"));
}

static void enum_duration(Enum& e) {
  uint64_t idx = 0;
  // +-3 ms at full resolution, through the journalled path
  for (uint64_t b : kBoundaries) {
    for (uint64_t u = b - 3000; u <= b + 3000 && !e.stop; u++, idx++) {
      if (!e.mine(idx)) continue;
      for (int p = -1; p <= 6; p++) e.exec(Case(NM("duration")).N(u).I(p).N(errno_for(u * 8 + static_cast<uint64_t>(p + 1))));
    }
  }
  // stride-997 sweep of the +-2 s windows
  for (uint64_t b : kBoundaries) {
    uint64_t lo = b >= 2000000ULL ? b - 2000000ULL : 0, hi = b + 2000000ULL;
    for (uint64_t u = lo; u <= hi && !e.stop; u += 997, idx++) {
      if (!e.mine(idx)) continue;
      for (int p = -1; p <= 6; p++) e.exec(Case(NM("duration")).N(u).I(p).N(errno_for(u * 8 + static_cast<uint64_t>(p + 1))));
    }
  }
  // every field combination once: d in {0,1,9,10,99,100}, h, m, s at their extremes, sub-second ties
  for (uint64_t d : {0ULL, 1ULL, 9ULL, 10ULL, 99ULL, 100ULL, 36500ULL, 106751991ULL}) {
    for (uint64_t h : {0ULL, 1ULL, 9ULL, 10ULL, 12ULL, 13ULL, 23ULL}) {
      for (uint64_t m : {0ULL, 1ULL, 5ULL, 9ULL, 10ULL, 59ULL}) {
        idx++;
        if (!e.mine(idx)) continue;
        for (uint64_t s : {0ULL, 1ULL, 5ULL, 9ULL, 10ULL, 59ULL}) {
          for (uint64_t f : {0ULL, 1ULL, 499999ULL, 500000ULL, 500001ULL, 949999ULL, 950000ULL, 999499ULL, 999500ULL, 999999ULL}) {
            uint64_t u = ((d * 24 + h) * 60 + m) * 60000000ULL + s * 1000000ULL + f;
            for (int p = -1; p <= 6; p++) e.exec(Case(NM("duration")).N(u).I(p).N(errno_for(u * 8 + static_cast<uint64_t>(p + 1))));
          }
        }
      }
    }
  }
  e.complete("every microsecond within +-3 ms of 1 s, 60 s, 3600 s, 86400 s; every 997th microsecond of the +-2 s windows; a grid of day/hour/minute/second/fraction extremes; all x precision -1..6 (incoming errno rotating over 10 values)");
}

static Case gen_duration() {
  uint64_t u;
  int64_t p = vg::range(-1, 6);
  static const uint64_t pow10[7] = {1, 10, 100, 1000, 10000, 100000, 1000000};
  switch (vg::below(8)) {
    case 0: u = vg::below(120000000ULL); break;
    case 1: u = vg::u64() >> (1 + vg::below(63)); break; // log-uniform up to 2^63
    case 2: { // near a multiple of a unit
      uint64_t unit = vg::pick<uint64_t>({1000000ULL, 60000000ULL, 3600000000ULL, 86400000000ULL});
      uint64_t k = vg::below(vg::coin() ? 100 : 100000000ULL / (unit / 1000000ULL));
      u = unit * k + vg::below(2001);
      u = u >= 1000 ? u - 1000 : u;
      break;
    }
    case 3: { // a rounding tie (or one off) at the requested precision, anywhere
      uint64_t unit = pow10[6 - (p < 0 ? vg::below(7) : p)];
      uint64_t base = (vg::u64() >> (1 + vg::below(40))) / unit * unit;
      u = base + unit / 2 + vg::below(3) - 1;
      break;
    }
    case 4: { // carry into the next field: 59.99.. seconds, 59 minutes, 23 hours
      uint64_t d = vg::below(3), h = vg::pick<uint64_t>({0, 1, 23}), m = vg::pick<uint64_t>({0, 1, 59});
      u = ((d * 24 + h) * 60 + m) * 60000000ULL + 59000000ULL + 999999 - vg::below(1200);
      break;
    }
    case 5: u = (1ULL << 63) - vg::below(1000000); break;
    case 6: u = vg::below(61) * 1000000ULL + vg::below(10) * 100000 + vg::below(3); break;
    default: u = vg::interesting64() >> 1; break;
  }
  if (u > (1ULL << 63)) u = 1ULL << 63;
  return Case(NM("duration")).N(u).I(p).N(gen_errno());
}

#ifndef C18_SWEEP_ONLY

// ---------------------------------------------------------------- ambient time zone

static const char* const kUnsetTZ = "(unset)";
static const char* const kTZs[] = {
    kUnsetTZ, "", "UTC0", "JST-9", "EST5EDT,M3.2.0,M11.1.0", "NPT-5:45", "<+14>-14", "<-12>12", "CET-1CEST,M3.5.0,M10.5.0/3",
    "NZST-12NZDT,M9.5.0,M4.1.0/3", "<-0330>3:30<-0230>,M3.2.0,M11.1.0", "PST8PDT", "IST-5:30", "XXX0:00:01", "<+1245>-12:45<+1345>,M9.5.0/2:45,M4.1.0/3:45",
    "Europe/Berlin", "America/New_York", ":Asia/Kolkata", "Australia/Lord_Howe", "Pacific/Kiritimati", "not a zone"};
static const size_t kNumTZs = sizeof(kTZs) / sizeof(kTZs[0]);
static inline const char* tz_for(uint64_t x) { return kTZs[mix(x, 0x7A0E) % kNumTZs]; } // deterministic rotation for the enumerators
static inline const std::string* opt_tz(const Case& c) { return c.s.empty() ? nullptr : &c.s[0]; }
static std::string tz_note(const std::string* tz) { return tz ? (*tz == kUnsetTZ ? std::string(" [TZ unset]") : cat(" [TZ=\"", *tz, "\"]")) : std::string(); }

// applies a TZ setting for the lifetime of the object and puts the previous one back afterwards
struct TzScope {
  bool active = false, had = false;
  std::string old;
  explicit TzScope(const std::string* tz) {
    if (!tz) return;
    if (tz->find('\0') != std::string::npos) throw std::logic_error("TZ setting with a NUL byte");
    active = true;
    if (const char* o = getenv("TZ")) {
      had = true;
      old = o;
    }
    apply(*tz == kUnsetTZ ? nullptr : tz->c_str());
  }
  ~TzScope() {
    if (active) apply(had ? old.c_str() : nullptr);
  }
  TzScope(const TzScope&) = delete;
  TzScope& operator=(const TzScope&) = delete;
  static void apply(const char* v) {
    if (v) setenv("TZ", v, 1);
    else unsetenv("TZ");
    tzset();
  }
};
// each generated case: a quarter in the environment as found, the rest under a listed setting
static void gen_tz(Case& c) {
  if (!vg::chance(1, 4)) c.S(kTZs[vg::below(kNumTZs)]);
}
// attribution of a mismatch: does the same call give the expected text once TZ is out of the picture?
static bool time_ok_without_tz(uint64_t t, const std::string& want) {
  std::string unset = kUnsetTZ;
  TzScope z(&unset);
  try {
    errno = 0;
    return phosg::format_time(t) == want;
  } catch (const std::exception&) {
    return false;
  }
}

// ---------------------------------------------------------------- format_time

static const uint64_t kSecond = 1000000ULL;
static const uint64_t kEndOfDomain = static_cast<uint64_t>(c18::kLastDay + 1) * c18::kUsecPerDay; // 10000-01-01 00:00:00

// case: n = [t, incoming errno] microseconds since the epoch, year <= 9999; s = [TZ setting] (optional)
static void run_time(const Case& c) {
  uint64_t t = c.u(0);
  if (t >= kEndOfDomain) throw std::logic_error("timestamp beyond year 9999");
  char buf[64];
  size_t n = c18::ref_format_time(t, buf, sizeof(buf));
  std::string want(buf, n);
  // cross-check the reference itself against two other routes (std::chrono's calendar, a year-by-year count)
  {
    int64_t days = static_cast<int64_t>(t / c18::kUsecPerDay);
    c18::Civil cv = c18::civil_from_days(days);
    std::chrono::year_month_day ymd{std::chrono::sys_days{std::chrono::days{days}}};
    if (static_cast<int>(ymd.year()) != cv.year || static_cast<unsigned>(ymd.month()) != cv.month || static_cast<unsigned>(ymd.day()) != cv.day ||
        c18::days_from_civil_slow(cv.year, cv.month, cv.day) != days) {
      throw std::logic_error(cat("harness: calendar references disagree on day ", days));
    }
  }
  uint64_t en = opt(c, 1);
  const std::string* tz = opt_tz(c);
  std::string got;
  {
    TzScope zone(tz);
    try {
      ambient(en);
      got = phosg::format_time(t);
    } catch (const std::exception& e) {
      VFAIL("time-throws", "format_time(", t, ") threw ", typeid(e).name(), ": ", e.what(), errno_note(en), tz_note(tz));
    }
  }
  if (got != want) {
    std::string clause = "time-date";
    if (got.size() >= 19 && want.compare(0, 19, got, 0, 19) == 0) clause = "time-microseconds";
    else if (got.size() >= 10 && want.compare(0, 10, got, 0, 10) == 0) clause = "time-clock";
    bool tz_dep = tz && time_ok_without_tz(t, want);
    if (tz_dep) clause += ":depends-on-TZ";
    VFAIL(clause, "format_time(", t, ") = \"", got, "\" expected \"", want, "\" (UTC)", errno_note(en), tz_note(tz), tz_dep ? "; the same call gives the expected text when TZ is unset" : "");
  }
  if (tz) ctx().cls(cat("time:TZ=", *tz));
  else ctx().cls("time:TZ as found");
  c18::Civil cv = c18::civil_from_days(static_cast<int64_t>(t / c18::kUsecPerDay));
  uint64_t sod = (t % c18::kUsecPerDay) / 1000000;
  if ((cv.month == 2 && cv.day >= 28) || (cv.month == 3 && cv.day == 1) || (cv.month == 12 && cv.day == 31) || (cv.month == 1 && cv.day == 1) || sod % 60 == 59 || t % 1000000 != 0) ctx().nontrivial_case();
}

static void enum_time(Enum& e) {
  // second 0, 59 and 86399 of every day 1970-01-01 .. 9999-12-31, microseconds rotating over 0 / 999999 / hash
  const int64_t block = 2048;
  uint64_t bidx = 0;
  if (c18::days_from_civil_slow(9999, 12, 31) != c18::kLastDay || c18::days_from_civil_slow(1970, 1, 1) != 0) throw std::logic_error("harness: day count of the domain is wrong");
  for (int64_t d0 = 0; d0 <= c18::kLastDay && !e.stop; d0 += block, bidx++) {
    if (!e.mine(bidx)) continue;
    // the block runs under one TZ setting (rotating over the list from block to block)
    std::string tz = kTZs[bidx % kNumTZs];
    e.journal_block(Case(NM("time")).N(static_cast<uint64_t>(d0) * c18::kUsecPerDay).N(0).S(tz));
    int64_t d1 = std::min<int64_t>(d0 + block, c18::kLastDay + 1);
    uint64_t n = 0;
    bool bad = false;
    std::unique_ptr<TzScope> zone(new TzScope(&tz));
    for (int64_t d = d0; d < d1 && !bad; d++) {
      static const uint64_t secs[3] = {0, 59, 86399};
      for (int k = 0; k < 3; k++) {
        uint64_t h = mix(static_cast<uint64_t>(d), k);
        uint64_t us = (h % 3 == 0) ? 0 : (h % 3 == 1) ? 999999 : (h >> 8) % 1000000;
        uint64_t t = static_cast<uint64_t>(d) * c18::kUsecPerDay + secs[k] * 1000000 + us;
        char buf[64];
        size_t len = c18::ref_format_time(t, buf, sizeof(buf));
        n++;
        bool ok = false;
        uint64_t en = errno_for(t);
        try {
          ambient(en);
          std::string got = phosg::format_time(t);
          ok = got.size() == len && memcmp(got.data(), buf, len) == 0;
        } catch (const std::exception&) {
        }
        if (!ok) {
          zone.reset();
          e.exec_light(Case(NM("time")).N(t).N(en).S(tz));
          bad = true;
          break;
        }
      }
    }
    zone.reset();
    e.x.count(n);
    // one fully journalled case per block keeps the reference cross-checks (std::chrono, slow count) in play
    e.exec(Case(NM("time")).N(static_cast<uint64_t>(d0) * c18::kUsecPerDay + 86399ULL * 1000000 + 999999).N(0).S(tz_for(bidx)));
  }
  // every day of the years around leap-rule corners through the full oracle
  uint64_t idx = 0;
  for (int64_t y : {1970, 1972, 1999, 2000, 2001, 2038, 2100, 2400, 9999}) {
    int64_t first = c18::days_from_civil_slow(y, 1, 1);
    for (int64_t d = first; d < first + (c18::is_leap(y) ? 366 : 365) && !e.stop; d++, idx++) {
      if (!e.mine(idx)) continue;
      for (uint64_t s : {0ULL, 59ULL, 3599ULL, 3600ULL, 43200ULL, 86399ULL})
        e.exec(Case(NM("time")).N(static_cast<uint64_t>(d) * c18::kUsecPerDay + s * 1000000 + (mix(idx, s) % 1000000)).N(errno_for(idx * 8 + s)).S(tz_for(idx * 8 + s)));
    }
  }
  // every listed TZ setting x the hours of one winter and one summer day (DST rules of either hemisphere), the first and the last day of the domain
  for (size_t z = 0; z < kNumTZs && !e.stop; z++) {
    if (!e.mine(idx++)) continue;
    for (int64_t day : {int64_t(0), c18::days_from_civil_slow(2024, 1, 15), c18::days_from_civil_slow(2024, 7, 15), c18::days_from_civil_slow(2038, 1, 19), c18::kLastDay})
      for (uint64_t h = 0; h < 24; h++)
        e.exec(Case(NM("time")).N(static_cast<uint64_t>(day) * c18::kUsecPerDay + h * 3600 * kSecond + (mix(z, h) % kSecond)).N(errno_for(z * 24 + h)).S(kTZs[z]));
  }
  e.complete(cat("second 0, 59 and 86399 of every day 1970-01-01..9999-12-31 (microseconds 0 / 999999 / hashed; TZ setting rotating over ", kNumTZs,
      " values from one block of 2048 days to the next); every day of 1970, 1972, 1999, 2000, 2001, 2038, 2100, 2400, 9999 x 6 times of day (TZ rotating); every listed TZ setting x every hour of 1970-01-01, 2024-01-15, 2024-07-15, 2038-01-19, 9999-12-31"));
}

static Case gen_time() {
  uint64_t day;
  switch (vg::below(5)) {
    case 0: day = vg::below(c18::kLastDay + 1); break;
    case 1: { // around the end of February
      int64_t y = 1970 + static_cast<int64_t>(vg::below(8030));
      day = static_cast<uint64_t>(c18::days_from_civil_slow(y, 2, 27)) + vg::below(4);
      break;
    }
    case 2: { // around new year
      int64_t y = 1971 + static_cast<int64_t>(vg::below(8029));
      day = static_cast<uint64_t>(c18::days_from_civil_slow(y, 1, 1)) - 1 + vg::below(2);
      break;
    }
    case 3: { // century years
      int64_t y = 2000 + 100 * static_cast<int64_t>(vg::below(80));
      day = static_cast<uint64_t>(c18::days_from_civil_slow(y, vg::coin() ? 2 : 3, vg::coin() ? 28 : 1)) + vg::below(2);
      break;
    }
    default: day = vg::below(25000); break; // 1970..2038
  }
  uint64_t sod;
  switch (vg::below(4)) {
    case 0: sod = vg::below(86400); break;
    case 1: sod = 60 * vg::below(1440) + 59; break;
    case 2: sod = 3600 * vg::below(24) + vg::pick<uint64_t>({0, 3599}); break;
    default: sod = vg::pick<uint64_t>({0, 1, 59, 60, 43199, 43200, 86399}); break;
  }
  uint64_t us = vg::chance(1, 4) ? vg::pick<uint64_t>({0, 1, 9, 10, 99999, 100000, 999999}) : vg::below(1000000);
  if (day > static_cast<uint64_t>(c18::kLastDay)) day = c18::kLastDay;
  Case c(NM("time"));
  c.N(day * c18::kUsecPerDay + sod * 1000000 + us).N(gen_errno());
  gen_tz(c);
  return c;
}

// ---------------------------------------------------------------- format_time: sequences of calls on one thread
//
// format_time is a function of its argument: what it returned for earlier timestamps must not influence what it returns
// now. A case is a sequence of timestamps formatted back to back on one thread - a FRESH thread, so that a case does not
// depend on what earlier cases left behind (thread-local state included) and replays exactly. Consecutive timestamps are
// related the way a memo, a truncated key or a reused buffer would confuse them: same second with other microseconds,
// the same timestamp again, +-1 us / 1 s / 1 min / 1 h / 1 day / 365 days, and k x 2^16, 2^24, 2^31, 2^32 seconds,
// k x 2^32 microseconds or milliseconds apart.
// case: n = [incoming errno, t1, t2, ...]; s = [TZ setting] (optional): applied (setenv + tzset) before the thread starts,
// restored after it has been joined
static const uint64_t kSec = 1000000ULL;
static const uint64_t kSeqDeltas[] = {1, 999999, kSec, 60 * kSec, 3600 * kSec, 86400 * kSec, 365 * 86400 * kSec, 1ULL << 32, (1ULL << 32) * 1000,
    (1ULL << 32) * kSec, (1ULL << 31) * kSec, (1ULL << 16) * kSec, (1ULL << 24) * kSec};
static const size_t kNumSeqDeltas = sizeof(kSeqDeltas) / sizeof(kSeqDeltas[0]);
static const size_t kSeqDelta2p32s = 9;

static void run_time_seq(const Case& c) {
  if (c.n.size() < 2 || c.n.size() > 65) throw std::logic_error("time_seq: 1..64 timestamps");
  uint64_t en = c.u(0);
  size_t n = c.n.size() - 1;
  for (size_t i = 0; i < n; i++)
    if (c.u(i + 1) >= kEndOfDomain) throw std::logic_error("timestamp beyond year 9999");
  std::vector<std::string> got(n), threw(n);
  const std::string* tz = opt_tz(c);
  std::unique_ptr<TzScope> zone(new TzScope(tz));
  std::thread th([&] {
    for (size_t i = 0; i < n; i++) {
      try {
        ambient(en);
        got[i] = phosg::format_time(c.u(i + 1));
      } catch (const std::exception& e) {
        threw[i] = cat(typeid(e).name(), ": ", e.what());
        if (threw[i].empty()) threw[i] = "exception";
      }
    }
  });
  th.join();
  zone.reset();
  bool step_2p32 = false, step_same_second = false, distinct_seconds = false;
  for (size_t i = 0; i < n; i++) {
    uint64_t t = c.u(i + 1);
    char buf[64];
    std::string want(buf, c18::ref_format_time(t, buf, sizeof(buf)));
    auto history = [&]() {
      std::string h;
      for (size_t j = 0; j <= i; j++) h += cat(j ? ", " : "", c.u(j + 1));
      return h;
    };
    VCHECK(threw[i].empty(), "time-seq-throws", "call #", i, " of the sequence format_time(", history(), ") threw ", threw[i], errno_note(en), tz_note(tz));
    if (got[i] != want) {
      std::string clause = "time-seq-date";
      if (got[i].size() >= 19 && want.compare(0, 19, got[i], 0, 19) == 0) clause = "time-seq-microseconds";
      else if (got[i].size() >= 10 && want.compare(0, 10, got[i], 0, 10) == 0) clause = "time-seq-clock";
      // root-cause class: is it (the date/time part of) the answer to an earlier call of the sequence?
      for (size_t j = 0; j < i && got[i].size() >= 19; j++) {
        char bj[64];
        c18::ref_format_time(c.u(j + 1), bj, sizeof(bj));
        if (got[i].compare(0, 19, bj, 19) == 0 && want.compare(0, 19, bj, 19) != 0) {
          clause += ":answer-to-an-earlier-call";
          break;
        }
      }
      if (clause.find(':') == std::string::npos && tz && time_ok_without_tz(t, want)) clause += ":depends-on-TZ";
      VFAIL(clause, "call #", i, " of the sequence format_time(", history(), ") on one thread returned \"", got[i], "\" expected \"", want, "\" (UTC)", errno_note(en), tz_note(tz));
    }
    if (i > 0) {
      uint64_t a = c.u(i) / kSec, b = t / kSec;
      uint64_t d = a > b ? a - b : b - a;
      if (d != 0) distinct_seconds = true;
      if (d != 0 && (d & 0xFFFFFFFFULL) == 0) step_2p32 = true;
      if (d == 0 && c.u(i) != t) step_same_second = true;
    }
  }
  if (distinct_seconds) ctx().nontrivial_case();
  if (step_2p32) ctx().cls("time_seq:has-a-step-of-k*2^32-seconds");
  if (step_same_second) ctx().cls("time_seq:has-a-same-second-step");
  ctx().cls(tz ? (*tz == kUnsetTZ || tz->empty() || *tz == "UTC0" ? "time_seq:TZ unset / empty / UTC0" : "time_seq:TZ set to another zone") : "time_seq:TZ as found");
}

static uint64_t seq_step(uint64_t t, uint64_t d, bool up) {
  if (up && t + d < kEndOfDomain) return t + d;
  if (t >= d) return t - d;
  if (t + d < kEndOfDomain) return t + d;
  return t;
}

static void enum_time_seq(Enum& e) {
  uint64_t idx = 0;
  for (int64_t y : {1970, 1999, 2000, 2038, 2106, 2400, 5000, 9999}) {
    for (int md = 0; md < 3; md++) {
      int64_t day = md == 0 ? c18::days_from_civil_slow(y, 1, 1) : md == 1 ? c18::days_from_civil_slow(y, 3, 1) - 1 : c18::days_from_civil_slow(y, 12, 31);
      for (uint64_t sod : {0ULL, 23296ULL, 86399ULL}) {
        if (!e.mine(idx++)) continue;
        uint64_t base = static_cast<uint64_t>(day) * c18::kUsecPerDay + sod * kSec + 654321;
        for (size_t di = 0; di < kNumSeqDeltas && !e.stop; di++) {
          uint64_t kmax = (di == kSeqDelta2p32s) ? 59 : 3;
          for (uint64_t k = 1; k <= kmax; k++) {
            for (int up = 0; up < 2; up++) {
              uint64_t d = kSeqDeltas[di] * k;
              if (up ? (base + d >= kEndOfDomain) : (base < d)) continue;
              uint64_t other = up ? base + d : base - d;
              // there and back, then the neighbouring microsecond of each
              e.exec(Case(NM("time_seq")).N(errno_for(idx * 64 + di)).N(base).N(other).N(base).N(other ^ 1).N(base ^ 1).S(tz_for((idx * 64 + di) * 128 + k * 2 + up)));
            }
          }
        }
      }
    }
  }
  e.complete("for 72 base timestamps (Jan 1, last day of February, Dec 31 of 1970, 1999, 2000, 2038, 2106, 2400, 5000, 9999 x 3 times of day): the sequence "
             "t, t', t, t' xor 1us, t xor 1us for t' = t +- k x {1 us, 999999 us, 1 s, 1 min, 1 h, 1 day, 365 days, 2^32 us, 2^32 ms, 2^31 s, 2^16 s, 2^24 s} (k = 1..3) "
             "and t +- k x 2^32 s for every k that stays inside 1970..9999; the TZ setting rotates over the list from sequence to sequence");
}

static Case gen_time_seq() {
  Case c(NM("time_seq"));
  c.N(gen_errno());
  uint64_t t = gen_time().u(0);
  c.N(t);
  size_t len = 1 + vg::below(10);
  for (size_t i = 0; i < len; i++) {
    uint64_t nt;
    switch (vg::below(6)) {
      case 0: nt = t / kSec * kSec + vg::below(kSec); break; // same second, other microseconds
      case 1: nt = c.n[1 + vg::below(c.n.size() - 1)]; break; // a timestamp of the sequence again
      default: {
        uint64_t d = kSeqDeltas[vg::below(kNumSeqDeltas)] * (1 + (vg::chance(1, 3) ? vg::below(59) : vg::below(3)));
        nt = seq_step(t, d, vg::coin());
        if (vg::coin()) nt = nt / kSec * kSec + vg::below(kSec);
        break;
      }
    }
    c.N(nt);
    t = nt;
  }
  gen_tz(c);
  return c;
}

// ---------------------------------------------------------------- format_size / parse_size

static const char kUnitLetters[] = " KMGTPE";

// parse_size on a text that denotes a representable size must return - whatever errno holds on entry
static uint64_t parse_checked(const std::string& text, uint64_t en, const char* clause) {
  try {
    ambient(en);
    return phosg::parse_size(text.c_str());
  } catch (const std::exception& e) {
    bool clean_ok = false; // attribution: does the same call return with errno = 0?
    if (en) {
      try {
        ambient(0);
        phosg::parse_size(text.c_str());
        clean_ok = true;
      } catch (const std::exception&) {
      }
    }
    VFAIL(cat(clause, clean_ok ? ":depends-on-incoming-errno" : ""), "parse_size(\"", text, "\") threw ", typeid(e).name(), ": ", e.what(), errno_note(en), clean_ok ? "; the same call returns when errno is 0 on entry" : "");
  }
}

// case: n = [size, include_bytes]
static void run_size(const Case& c) {
  uint64_t s = c.u(0);
  bool ib = c.u(1) != 0;
  uint64_t en = opt(c, 2);
  std::string text;
  try {
    ambient(en);
    text = phosg::format_size(s, ib);
  } catch (const std::exception& e) {
    VFAIL("size-throws", "format_size(", s, ", ", ib, ") threw ", typeid(e).name(), errno_note(en));
  }
  std::string what = cat("format_size(", s, ", ", ib ? "true" : "false", ") = \"", text, "\"", errno_note(en));
  // plain byte count ("<s> bytes"; "1 byte" is as good): exact, and parse_size reads it back exactly
  if (text == cat(s, " bytes") || text == cat(s, " byte")) {
    uint64_t back = parse_checked(text, en, "size-parse-throws");
    VCHECK(back == s, "size-parse-bytes", what, " parse_size gives ", back);
    if (s >= 1024) ctx().cls("size:plain byte count for a size of 1 KB or more");
    return;
  }
  VCHECK(s >= 512, "size-bytes-form", what, " (neither a plain byte count nor a size that a KB mantissa with two decimals can carry)");
  std::string mant = text;
  if (ib) {
    std::string head = cat(s, " bytes (");
    VCHECK(text.size() > head.size() + 1 && text.compare(0, head.size(), head) == 0 && text.back() == ')', "size-include-bytes-form", what);
    mant = text.substr(head.size(), text.size() - head.size() - 1);
  }
  // mantissa: digits . two digits, space, unit letter, B
  size_t dot = mant.find('.');
  VCHECK(dot != std::string::npos && dot >= 1 && dot <= 4 && mant.size() == dot + 6, "size-mantissa-form", what);
  uint64_t m100 = 0;
  for (size_t i = 0; i < dot + 3; i++) {
    if (i == dot) continue;
    VCHECK(mant[i] >= '0' && mant[i] <= '9', "size-mantissa-form", what);
    m100 = m100 * 10 + static_cast<unsigned>(mant[i] - '0');
  }
  VCHECK(mant[dot + 3] == ' ' && mant[dot + 5] == 'B', "size-mantissa-form", what);
  // which unit is chosen is the formatter's business ("1024.00 KB" and "1.00 MB" both say 1048575 to the printed precision): the
  // printed unit is taken as it comes and the value clause below is applied with it
  unsigned k = 0;
  for (unsigned j = 1; j <= 6; j++)
    if (mant[dot + 4] == kUnitLetters[j]) k = j;
  VCHECK(k != 0, "size-unit", what, " unknown unit letter");
  u128 unit = static_cast<u128>(1) << (10 * k);
  {
    unsigned kk = 1;
    while (kk < 6 && (s >> (10 * (kk + 1))) != 0) kk++;
    if (kk != k) ctx().cls("size:unit differs from the one with a mantissa in [1,1024)");
  }
  VCHECK(m100 <= 102400, "size-mantissa-range", what, " mantissa above 1024");
  // faithful: |m*U - s| <= 0.005 U + 2^-23 s   (x 100 x 2^23, exact in 128 bits)
  u128 a = static_cast<u128>(m100) * unit, b = static_cast<u128>(s) * 100;
  u128 diff = a > b ? a - b : b - a;
  VCHECK((diff << 23) <= (unit << 22) + b, "size-mantissa-value", what, " mantissa is not the size to the printed precision");
  uint64_t back = parse_checked(text, en, "size-parse-throws");
  if (ib) {
    VCHECK(back == s, "size-parse-include-bytes", what, " parse_size gives ", back, " (the leading byte count is what it reads)");
  } else if (k == 6 && m100 == 1600) {
    // "16.00 EB" denotes 2^64, which size_t cannot hold: faithful text, no representable parse result
    ctx().exclude("size prints as 16.00 EB (= 2^64, not representable in size_t)");
  } else {
    u128 pb = static_cast<u128>(back) * 100;
    u128 pd = pb > b ? pb - b : b - pb;
    VCHECK((pd << 23) <= (unit << 22) + b + (static_cast<u128>(100) << 23), "size-parse-roundtrip", what, " parse_size gives ", back, " (off by ", static_cast<uint64_t>(pd / 100),
        " bytes, more than the printed precision allows)");
  }
  ctx().nontrivial_case();
  ctx().cls(cat("size:", kUnitLetters[k], "B"));
}

static void enum_size(Enum& e) {
  std::vector<uint64_t> v = {0, 1, 2, 999, 1000, 1022, 1023};
  for (unsigned k = 1; k <= 6; k++) {
    uint64_t u = 1ULL << (10 * k);
    for (int d = -3; d <= 3; d++) v.push_back(u + d);
    // rounding corners of the mantissa: x.995, 9.995, 99.995, 999.995, 1023.995, 1.005 units
    for (uint64_t m1000 : {1004ULL, 1005ULL, 1006ULL, 1994ULL, 1995ULL, 9994ULL, 9995ULL, 9996ULL, 99995ULL, 999994ULL, 999995ULL, 1023994ULL, 1023995ULL, 1023996ULL, 1023999ULL, 512000ULL}) {
      u128 x = static_cast<u128>(m1000) * u / 1000;
      for (int d = -1; d <= 1; d++) {
        u128 y = x + d;
        if (y <= UINT64_MAX) v.push_back(static_cast<uint64_t>(y));
      }
    }
    // largest and smallest of the decade, halves
    v.push_back(u * 2 - 1);
    v.push_back(u + u / 2);
    if (k < 6) v.push_back(u * 1023 + u / 2);
  }
  for (uint64_t t : std::vector<uint64_t>{UINT64_MAX, UINT64_MAX - 1, UINT64_MAX - (1ULL << 39), UINT64_MAX - (1ULL << 40), (1ULL << 63), (1ULL << 63) - 1, (1ULL << 63) + 1, 0xFFFFFFFFULL, 0x100000000ULL, 0x7FFFFFFFULL})
    v.push_back(t);
  // just below "16.00 EB": 15.995 EB +- a float ulp
  {
    u128 x = static_cast<u128>(15995) * (static_cast<u128>(1) << 60) / 1000;
    for (int64_t d : {-(1LL << 41), -(1LL << 40), -1LL, 0LL, 1LL, (1LL << 40), (1LL << 41)}) v.push_back(static_cast<uint64_t>(x + d));
  }
  for (int k = 0; k < 64; k++) {
    v.push_back(1ULL << k);
    v.push_back((1ULL << k) - 1);
    v.push_back((1ULL << k) + 1);
  }
  std::sort(v.begin(), v.end());
  v.erase(std::unique(v.begin(), v.end()), v.end());
  for (size_t i = 0; i < v.size() && !e.stop; i++) {
    if (!e.mine(i)) continue;
    for (uint64_t en : {0, ERANGE, EINVAL, EINTR}) {
      e.exec(Case(NM("size")).N(v[i]).N(0).N(en));
      e.exec(Case(NM("size")).N(v[i]).N(1).N(en));
    }
  }
  // every size up to 4 MiB + a bit (all KB mantissas, the KB->MB hand-over)
  uint64_t lim = e.thorough() ? (5ULL << 20) : (1100ULL << 10);
  const uint64_t block = 4096;
  for (uint64_t s0 = 0; s0 < lim && !e.stop; s0 += block) {
    if (!e.mine(s0 / block)) continue;
    for (uint64_t s = s0; s < s0 + block; s++) {
      e.exec(Case(NM("size")).N(s).N((s >> 3) & 1).N(errno_for(s)));
    }
  }
  e.complete(cat(v.size(), " boundary sizes (1024^k +-3 for k=1..6, mantissa rounding corners x.995 / 1023.995 of every unit, 2^k and 2^k+-1, the 16.00 EB edge) x both include_bytes x incoming errno {0, ERANGE, EINVAL, EINTR}; every size below ", lim, " (incoming errno rotating over 10 values)"));
}

static Case gen_size() {
  uint64_t s;
  switch (vg::below(5)) {
    case 0: s = vg::u64() >> vg::below(64); break; // log-uniform
    case 1: { // near a mantissa rounding corner
      unsigned k = 1 + vg::below(6);
      uint64_t m100000 = 100000 + vg::below(102300000ULL);
      u128 x = static_cast<u128>(m100000) * (static_cast<u128>(1) << (10 * k)) / 100000;
      s = x > UINT64_MAX ? UINT64_MAX : static_cast<uint64_t>(x);
      break;
    }
    case 2: { // m.mm5 exactly
      unsigned k = 1 + vg::below(6);
      uint64_t m1000 = (100 + vg::below(102300)) * 10 + 5;
      u128 x = static_cast<u128>(m1000) * (static_cast<u128>(1) << (10 * k)) / 1000 + vg::below(3);
      s = x > UINT64_MAX ? UINT64_MAX : static_cast<uint64_t>(x);
      break;
    }
    case 3: s = vg::interesting64(); break;
    default: s = (1ULL << (10 * (1 + vg::below(6)))) * (1 + vg::below(1023)) + vg::below(3) - 1; break;
  }
  return Case(NM("size")).N(s).N(vg::below(2)).N(gen_errno());
}

// case: n = [integer part, fraction digits (count 0..6), fraction value, unit 0..6, style bits, incoming errno]
//   style: bit0 lower-case unit letter, bit1 omit the B, bit2 lower-case b, bits 3-4 number of spaces before the unit
static void run_parse_size(const Case& c) {
  uint64_t ip = c.u(0), fd = c.u(1), fv = c.u(2), k = c.u(3), style = c.u(4);
  static const uint64_t pow10[7] = {1, 10, 100, 1000, 10000, 100000, 1000000};
  if (fd > 6 || k > 6 || fv >= pow10[fd]) throw std::logic_error("bad case");
  u128 unit = static_cast<u128>(1) << (10 * k);
  u128 exact_floor = static_cast<u128>(ip) * unit + static_cast<u128>(fv) * unit / pow10[fd];
  if (exact_floor >= (static_cast<u128>(1) << 64) - unit) throw std::logic_error("value does not fit size_t");
  std::string text = cat(ip);
  if (fd) {
    char buf[16];
    snprintf(buf, sizeof(buf), ".%0*llu", static_cast<int>(fd), static_cast<unsigned long long>(fv));
    text += buf;
  }
  text += std::string((style >> 3) & 3, ' ');
  if (k) text += static_cast<char>((style & 1) ? tolower(kUnitLetters[k]) : kUnitLetters[k]);
  if (!(style & 2)) text += (style & 4) ? 'b' : 'B';
  uint64_t en = opt(c, 5);
  uint64_t got = parse_checked(text, en, "parse-size-throws");
  // the fraction is accumulated in double: allow 1 byte + 2^-49 of the unit
  u128 tol = 1 + (unit >> 49);
  u128 g = got;
  u128 diff = g > exact_floor ? g - exact_floor : exact_floor - g;
  VCHECK(diff <= tol, cat("parse-size-value:", k ? std::string(1, kUnitLetters[k]) : std::string("bytes")), "parse_size(\"", text, "\") = ", got, " expected ", static_cast<uint64_t>(exact_floor), " (+-", static_cast<uint64_t>(tol), ")", errno_note(en));
  if (k && (fd || ip > 1)) ctx().nontrivial_case();
}

static void enum_parse_size(Enum& e) {
  uint64_t idx = 0;
  for (uint64_t k = 0; k <= 6 && !e.stop; k++) {
    for (uint64_t ip : {0ULL, 1ULL, 2ULL, 9ULL, 10ULL, 15ULL, 512ULL, 1023ULL, 1024ULL}) {
      if (k == 6 && ip > 14) continue;
      for (uint64_t style = 0; style < 32; style++, idx++) {
        if (!e.mine(idx)) continue;
        if (k == 0 && (style & 1)) continue;
        for (uint64_t en : {0, ERANGE, EINVAL, EILSEQ, EINTR}) {
          e.exec(Case(NM("parse_size")).N(ip).N(0).N(0).N(k).N(style).N(en));
          for (uint64_t f : {0ULL, 1ULL, 5ULL, 25ULL, 50ULL, 75ULL, 99ULL}) e.exec(Case(NM("parse_size")).N(ip).N(2).N(f).N(k).N(style).N(en));
          for (uint64_t f : {0ULL, 5ULL, 9ULL}) e.exec(Case(NM("parse_size")).N(ip).N(1).N(f).N(k).N(style).N(en));
          e.exec(Case(NM("parse_size")).N(ip).N(6).N(999999).N(k).N(style).N(en));
          e.exec(Case(NM("parse_size")).N(ip).N(3).N(125).N(k).N(style).N(en));
        }
      }
    }
  }
  e.complete("integer parts {0,1,2,9,10,15,512,1023,1024} x fractions {none, .0-.99 samples, .d, .125, .999999} x units {none,K,M,G,T,P,E} x {upper,lower} x {B,b,none} x 0-3 spaces x incoming errno {0, ERANGE, EINVAL, EILSEQ, EINTR}");
}

static Case gen_parse_size() {
  static const uint64_t pow10[7] = {1, 10, 100, 1000, 10000, 100000, 1000000};
  uint64_t k = vg::below(7), fd = vg::below(7);
  uint64_t max_ip = (k == 6) ? 14 : (k == 0 ? (1ULL << 62) : ((1ULL << (63 - 10 * k)) - 1));
  uint64_t ip = vg::coin() ? vg::below(std::min<uint64_t>(max_ip, 2000) + 1) : vg::u64() % (max_ip + 1);
  return Case(NM("parse_size")).N(ip).N(fd).N(vg::below(pow10[fd])).N(k).N(vg::below(32)).N(gen_errno());
}

// ---------------------------------------------------------------- timeval

// case: n = [usecs] < 2^63
static void run_timeval(const Case& c) {
  uint64_t u = c.u(0);
  if (u >> 63) throw std::logic_error("usecs outside the domain (< 2^63)");
  struct timeval tv = phosg::usecs_to_timeval(u);
  VCHECK(static_cast<uint64_t>(tv.tv_sec) == u / 1000000 && tv.tv_sec >= 0, "timeval-seconds", "usecs_to_timeval(", u, ").tv_sec = ", tv.tv_sec);
  VCHECK(tv.tv_usec >= 0 && static_cast<uint64_t>(tv.tv_usec) == u % 1000000, "timeval-microseconds", "usecs_to_timeval(", u, ").tv_usec = ", tv.tv_usec);
  uint64_t back = phosg::timeval_to_usecs(tv);
  VCHECK(back == u, "timeval-inverse", "timeval_to_usecs(usecs_to_timeval(", u, ")) = ", back);
  // the other direction, from an independently built normalised timeval
  struct timeval tv2;
  tv2.tv_sec = static_cast<time_t>(u / 1000000);
  tv2.tv_usec = static_cast<suseconds_t>(u % 1000000);
  uint64_t us2 = phosg::timeval_to_usecs(tv2);
  VCHECK(us2 == u, "timeval-to-usecs", "timeval_to_usecs({", tv2.tv_sec, ",", tv2.tv_usec, "}) = ", us2);
  struct timeval tv3 = phosg::usecs_to_timeval(us2);
  VCHECK(tv3.tv_sec == tv2.tv_sec && tv3.tv_usec == tv2.tv_usec, "timeval-inverse-2", "usecs_to_timeval(timeval_to_usecs(tv)) != tv for ", u);
  if (u >= 1000000 && u % 1000000 != 0) ctx().nontrivial_case();
}

static void enum_timeval(Enum& e) {
  uint64_t idx = 0;
  for (uint64_t s : {0ULL, 1ULL, 59ULL, 60ULL, 86399ULL, 86400ULL, 2147483647ULL, 2147483648ULL, 4294967295ULL, 4294967296ULL, 253402300799ULL, 9223372036853ULL, 9223372036854ULL}) {
    for (uint64_t us : {0ULL, 1ULL, 499999ULL, 500000ULL, 999998ULL, 999999ULL}) {
      uint64_t u = s * 1000000 + us;
      if (u >> 63) continue;
      if (e.mine(idx++)) e.exec(Case(NM("timeval")).N(u));
    }
  }
  uint64_t small = e.thorough() ? 3000000 : 300000;
  for (uint64_t u = 0; u < small && !e.stop; u += 1) {
    if (e.mine(u >> 12)) e.exec(Case(NM("timeval")).N(u * 7919 % 3000017));
  }
  for (int k = 0; k < 63; k++)
    for (uint64_t u : {(1ULL << k) - 1, 1ULL << k, (1ULL << k) + 1})
      if (!(u >> 63) && e.mine(idx++)) e.exec(Case(NM("timeval")).N(u));
  e.complete(cat("second boundaries (0, 59/60, 86399/86400, 2^31, 2^32, year 9999, the 2^63 us limit) x microsecond extremes; ", small, " values below 3,000,017 us (u*7919 mod 3000017); 2^k, 2^k+-1"));
}

static Case gen_timeval() {
  uint64_t u;
  switch (vg::below(4)) {
    case 0: u = vg::u64() >> (1 + vg::below(63)); break;
    case 1: u = vg::below(1ULL << 43) * 1000000 + vg::pick<uint64_t>({0, 1, 999999}); break;
    case 2: u = vg::interesting64() >> 1; break;
    default: u = vg::u64() >> 1; break;
  }
  return Case(NM("timeval")).N(u);
}


// ---------------------------------------------------------------- build configuration of the library: -DNDEBUG
//
// Time.cc and Strings.cc are compiled translation units: what a consumer links is whatever configuration the library was built
// in, and CMake's Release / RelWithDebInfo / MinSizeRel configurations (every packaged build) define NDEBUG. The statement
// holds for the library, not for one build of it, so stage c18_ndebug links this harness against library objects compiled with
// -DNDEBUG (lib_defs in run/props.d/C18.py) and runs every oracle again on a reduced plan: the random generators of all six
// families plus the small enumerations below. (The harness itself is compiled as always and does not use assert().)
#ifdef C18_NDEBUG_LIB
static void enum_nd_duration(Enum& e) {
  uint64_t idx = 0;
  for (uint64_t b : kBoundaries)
    for (uint64_t u = b - 60; u <= b + 60 && !e.stop; u++, idx++) {
      if (!e.mine(idx)) continue;
      for (int p = -1; p <= 6; p++) e.exec(Case(NM("duration")).N(u).I(p).N(errno_for(u * 8 + static_cast<uint64_t>(p + 1))));
    }
  for (uint64_t d : {0ULL, 1ULL, 10ULL, 106751991ULL})
    for (uint64_t h : {0ULL, 9ULL, 23ULL})
      for (uint64_t m : {0ULL, 9ULL, 59ULL}) {
        if (!e.mine(idx++)) continue;
        for (uint64_t s : {0ULL, 9ULL, 59ULL})
          for (uint64_t f : {0ULL, 499999ULL, 500000ULL, 999500ULL, 999999ULL}) {
            uint64_t u = ((d * 24 + h) * 60 + m) * 60000000ULL + s * 1000000ULL + f;
            for (int p = -1; p <= 6; p++) e.exec(Case(NM("duration")).N(u).I(p).N(errno_for(u * 8 + static_cast<uint64_t>(p + 1))));
          }
      }
  e.complete("NDEBUG library: every microsecond within +-60 us of 1 s, 60 s, 3600 s, 86400 s and a grid of day/hour/minute/second/fraction extremes x precision -1..6");
}
static void enum_nd_time(Enum& e) {
  // one time of day (rotating over second 0 / 59 / 86399 and a hashed one) of every 5th day of the domain, every day of three corner years
  uint64_t idx = 0;
  for (int64_t d = 0; d <= c18::kLastDay && !e.stop; d += 5, idx++) {
    if (!e.mine(idx >> 6)) continue;
    static const uint64_t secs[4] = {0, 59, 86399, 43200};
    uint64_t s = (idx & 3) == 3 ? mix(idx, 3) % 86400 : secs[idx & 3];
    e.exec(Case(NM("time")).N(static_cast<uint64_t>(d) * c18::kUsecPerDay + s * 1000000 + (mix(idx, 7) % 1000000)).N(errno_for(idx)).S(tz_for(idx >> 6)));
  }
  for (int64_t y : {1970, 2000, 2100, 9999}) {
    int64_t first = c18::days_from_civil_slow(y, 1, 1);
    for (int64_t d = first; d < first + (c18::is_leap(y) ? 366 : 365) && !e.stop; d++, idx++) {
      if (!e.mine(idx >> 3)) continue;
      e.exec(Case(NM("time")).N(static_cast<uint64_t>(d) * c18::kUsecPerDay + 86399ULL * 1000000 + (mix(idx, 9) % 1000000)).N(errno_for(idx)).S(tz_for(idx)));
    }
  }
  e.complete("NDEBUG library: one time of day of every 5th day 1970-01-01..9999-12-31 (second 0 / 59 / 86399 / hashed, hashed microseconds, TZ rotating); 23:59:59 of every day of 1970, 2000, 2100, 9999");
}
static void enum_nd_size(Enum& e) {
  std::vector<uint64_t> v = {0, 1, 999, 1023};
  for (unsigned k = 1; k <= 6; k++) {
    uint64_t u = 1ULL << (10 * k);
    for (int d = -3; d <= 3; d++) v.push_back(u + d);
    v.push_back(u + u / 2);
    v.push_back(u * 2 - 1);
  }
  for (int k = 0; k < 64; k++) v.push_back((1ULL << k) + 1);
  v.push_back(UINT64_MAX);
  for (size_t i = 0; i < v.size() && !e.stop; i++) {
    if (!e.mine(i)) continue;
    e.exec(Case(NM("size")).N(v[i]).N(0).N(errno_for(i)));
    e.exec(Case(NM("size")).N(v[i]).N(1).N(errno_for(i + 1)));
  }
  for (uint64_t s0 = 0; s0 < (1100ULL << 10) && !e.stop; s0 += 4096) {
    if (!e.mine(s0 / 4096)) continue;
    for (uint64_t s = s0 + (mix(s0, 1) % 37); s < s0 + 4096; s += 37) e.exec(Case(NM("size")).N(s).N((s >> 3) & 1).N(errno_for(s)));
  }
  e.complete(cat("NDEBUG library: ", v.size(), " boundary sizes (1024^k +-3, 1.5 x and 2 x 1024^k - 1, 2^k+1, 2^64-1) x both include_bytes; every 37th size below 1.1 MiB"));
}
#endif // C18_NDEBUG_LIB

// ---------------------------------------------------------------- ambient state: after main() (static destruction, atexit)
//
// "format_duration never throws", "format_time renders any timestamp", "format_size and parse_size agree for every size": total
// functions of their arguments with no "no longer usable" phase. A program may call them while it shuts down - the destructor of
// a process-lifetime statistics / cache / log object that prints byte totals and elapsed times, an atexit handler that writes a
// summary line - i.e. AFTER main() has returned. Whatever the functions set up lazily on first use (function-local statics:
// tables, buffers) was constructed after the objects below and is therefore destroyed BEFORE their handlers run. (Same
// construction as C10's after_main.)
//   * `g_after_main` is a namespace-scope object of this translation unit, which is linked before the library objects: it is
//     constructed before the library's own namespace-scope objects and before anything first used inside main(), hence destroyed
//     after all of them. Its constructor calls nothing of the library.
//   * an atexit handler is registered as the first statement of main(), before any library function was called.
// prime() - called from main() before the subchecks, also on the replay path - calls every function on fixed inputs (first use
// inside main()) and stores the results; the subchecks establish that results obtained inside main() are right. Both handlers
// repeat the calls and compare. A handler cannot throw: on a mismatch (or an exception) it prints
// `VERIF-ABORT: after-main-<function>` and _exit(79)s; the driver reports a shard that dies outside a case as
// `<stage>/crash:abort:after-main-<function>` (ASan reports a use-after-free by itself). On success it is silent.
namespace after_main {

struct Call {
  int fn; // 0 format_duration  1 format_time  2 format_size  3 parse_size  4 usecs_to_timeval / timeval_to_usecs
  uint64_t a;
  int64_t b;
  std::string text; // parse_size input
  std::string result; // rendered result stored by prime()
};
struct State {
  bool primed = false;
  std::vector<Call> calls;
  ~State(); // the "destructor of a static object constructed before the first call"
};
static State g_after_main;

static const char* fn_name(int fn) {
  static const char* const names[] = {"format_duration", "format_time", "format_size", "parse_size", "timeval"};
  return names[fn];
}
static std::string eval(const Call& c) {
  switch (c.fn) {
    case 0: return phosg::format_duration(c.a, static_cast<int8_t>(c.b));
    case 1: return phosg::format_time(c.a);
    case 2: return phosg::format_size(static_cast<size_t>(c.a), c.b != 0);
    case 3: return std::to_string(static_cast<unsigned long long>(phosg::parse_size(c.text.c_str())));
    default: {
      struct timeval tv = phosg::usecs_to_timeval(c.a);
      return cat(static_cast<long long>(tv.tv_sec), "s+", static_cast<long long>(tv.tv_usec), "us=", phosg::timeval_to_usecs(tv));
    }
  }
}
static void call_all(const char* phase) {
  for (Call& c : g_after_main.calls) {
    std::string got;
    bool threw = false;
    try {
      got = eval(c);
    } catch (const std::exception& ex) {
      threw = true;
      got = cat("exception ", typeid(ex).name(), ": ", ex.what());
    }
    if (!phase) {
      c.result = got;
      if (threw) throw std::logic_error(cat("C18 after_main::prime: ", fn_name(c.fn), " threw inside main(): ", got));
      continue;
    }
    if (threw || got != c.result) {
      fprintf(stderr, "\nVERIF-ABORT: after-main-%s (%s(%s%llu, %lld) called %s gave \"%s\"; the same call inside main() gave \"%s\")\n", fn_name(c.fn), fn_name(c.fn),
          c.fn == 3 ? cat("\"", c.text, "\" / ").c_str() : "", static_cast<unsigned long long>(c.a), static_cast<long long>(c.b), phase, got.c_str(), c.result.c_str());
      fflush(stderr);
      _exit(79);
    }
  }
}
State::~State() {
  if (primed) call_all("from the destructor of a namespace-scope object constructed before main() (static destruction, after main() returned)");
}
static void atexit_handler() {
  if (g_after_main.primed) call_all("from an atexit handler registered at the start of main() (after main() returned)");
}
// first statement of main(): nothing of the library has run yet
static void arm() {
  if (atexit(atexit_handler) != 0) throw std::logic_error("C18: atexit failed");
}
static void prime() {
  State& st = g_after_main;
  for (uint64_t u : {0ULL, 999999ULL, 1000000ULL, 59999999ULL, 3600000000ULL, 90061000001ULL, 1ULL << 62})
    for (int64_t p : {-1, 0, 3, 6}) st.calls.push_back({0, u, p, "", ""});
  for (uint64_t t : {0ULL, 951782400123456ULL, 1709251199999999ULL, 4102444800000000ULL, 253402300799999999ULL}) st.calls.push_back({1, t, 0, "", ""});
  for (uint64_t s : {0ULL, 1023ULL, 1024ULL, 1536ULL, (1ULL << 20) + 1, 3ULL << 30, 20000000000ULL, 1ULL << 40, (1ULL << 50) + 7, 1ULL << 60, 3ULL << 61, ~0ULL})
    for (int64_t ib : {0, 1}) st.calls.push_back({2, s, ib, "", ""});
  for (const char* t : {"0", "1023", "7 bytes", "1 KB", "1.5 MB", "3GB", "2 TB", "4 PB", "1 EB", "2.25 GB", "15.5 EB"}) st.calls.push_back({3, 0, 0, t, ""});
  for (uint64_t u : {0ULL, 999999ULL, 1000001ULL, 1709251199999999ULL}) st.calls.push_back({4, u, 0, "", ""});
  call_all(nullptr);
  st.primed = true;
}

} // namespace after_main

#endif // !C18_SWEEP_ONLY

int main(int argc, char** argv) {
#ifndef C18_SWEEP_ONLY
  after_main::arm();
  after_main::prime();
#endif
  std::vector<SubCheck> checks;
#if defined(C18_SWEEP_ONLY)
  checks.push_back({"duration_sweep", run_duration, gen_duration, 2000000, 40000000, 100, enum_duration_sweep});
#elif defined(C18_NDEBUG_LIB)
  checks.push_back({NM("duration"), run_duration, gen_duration, 30000, 300000, 100, enum_nd_duration});
  checks.push_back({NM("time"), run_time, gen_time, 30000, 300000, 100, enum_nd_time});
  checks.push_back({NM("time_seq"), run_time_seq, gen_time_seq, 4000, 40000, 100, nullptr});
  checks.push_back({NM("size"), run_size, gen_size, 30000, 300000, 100, enum_nd_size});
  checks.push_back({NM("parse_size"), run_parse_size, gen_parse_size, 10000, 100000, 100, nullptr});
  checks.push_back({NM("timeval"), run_timeval, gen_timeval, 10000, 100000, 100, nullptr});
#else
  checks.push_back({"duration", run_duration, gen_duration, 100000, 2000000, 100, enum_duration});
  checks.push_back({"time", run_time, gen_time, 60000, 1000000, 100, enum_time});
  checks.push_back({"time_seq", run_time_seq, gen_time_seq, 30000, 300000, 100, enum_time_seq});
  checks.push_back({"size", run_size, gen_size, 60000, 1000000, 100, enum_size});
  checks.push_back({"parse_size", run_parse_size, gen_parse_size, 30000, 300000, 100, enum_parse_size});
  checks.push_back({"timeval", run_timeval, gen_timeval, 30000, 300000, 100, enum_timeval});
#endif
  return main_(argc, argv, checks);
}
